package main

// Check driver: runs the harnesses registered for a property, replays solver models
// natively, writes /verif/evidence/<id>.json and prints VIOLATION / KNOWN-FINDING lines.

import (
	"crypto/sha256"
	"encoding/json"
	"fmt"
	"os"
	"path/filepath"
	"sort"
	"strconv"
	"strings"
	"time"
)

type HarnessSpec struct {
	Pkg      string   `json:"pkg"`
	Func     string   `json:"func"`
	Tier     string   `json:"tier"` // quick (run in both tiers) | thorough
	Enc      string   `json:"enc"`  // int | bv
	Covers   []string `json:"covers"`
	MaxPaths int      `json:"max_paths"`
	Steps    int64    `json:"steps"`
	Bounds   string   `json:"bounds"`
	NoNative bool     `json:"no_native"` // harness cannot run natively (uses executor-only stubs)
	Schedule bool     `json:"schedule"`  // violations depend on a schedule (select choices) that a native run cannot be forced into: confirmed by re-executing the real code in the interpreter under the recorded schedule
	SolverMs int      `json:"solver_ms"`
	Solver   string   `json:"solver"`
}

type CheckSpec struct {
	ID          string        `json:"id"`
	Title       string        `json:"title"`
	Claim       string        `json:"claim"`
	Outside     string        `json:"outside"`
	Assumptions []string      `json:"assumptions"`
	Harnesses   []HarnessSpec `json:"harnesses"`
}

type KnownFinding struct {
	Property string `json:"property"`
	Harness  string `json:"harness"`
	Label    string `json:"label"`
	What     string `json:"what"`
}

type KnownFile struct {
	Findings []KnownFinding `json:"findings"`
	Fixed    []string       `json:"fixed"`
}

type ReplayCase struct {
	Harness string            `json:"harness"`
	Pkg     string            `json:"pkg"`
	Label   string            `json:"label,omitempty"`
	Kind    string            `json:"kind,omitempty"`
	Vector  map[string]string `json:"vector"`
	Sched   []int             `json:"schedule,omitempty"`
	Expect  string            `json:"expect"` // "fail:<label>" | "pass"
}

type ReplayFile struct {
	Property string       `json:"property"`
	Cases    []ReplayCase `json:"cases"`
}

func loadSpec(id string) (*CheckSpec, error) {
	data, err := os.ReadFile(filepath.Join(verifRoot, "checks", id+".json"))
	if err != nil {
		return nil, err
	}
	var s CheckSpec
	if err := json.Unmarshal(data, &s); err != nil {
		return nil, err
	}
	return &s, nil
}

func loadKnown() KnownFile {
	var k KnownFile
	data, err := os.ReadFile(filepath.Join(verifRoot, "known_findings.json"))
	if err == nil {
		json.Unmarshal(data, &k)
	}
	return k
}

type harnessEvidence struct {
	Harness     string                       `json:"harness"`
	Bounds      string                       `json:"bounds"`
	Encoding    string                       `json:"encoding"`
	Paths       int                          `json:"paths"`
	Infeasible  int                          `json:"infeasible_paths"`
	Branches    int                          `json:"symbolic_branches"`
	Steps       int64                        `json:"ssa_instructions_executed"`
	Queries     int                          `json:"solver_queries"`
	SolverS     float64                      `json:"solver_s"`
	WallS       float64                      `json:"wall_s"`
	Obligations []*ObAgg                     `json:"obligations"`
	Covers      map[string]map[string]string `json:"cover_witnesses"`
	MissingCovers []string                   `json:"missing_covers,omitempty"`
	Aborted     map[string]int               `json:"inconclusive_paths,omitempty"`
	Incomplete  string                       `json:"incomplete,omitempty"`
	InitFailures []string                    `json:"package_init_failures,omitempty"`
	Functions   int                          `json:"functions_executed"`
	RepoFunctions []string                   `json:"repo_functions_encoded"`
	Intrinsics  []string                     `json:"intrinsics_hit"`
	Notes       []string                     `json:"notes,omitempty"`
}

func runCheck(id, tier, replay string) int {
	t0 := time.Now()
	if id == "" {
		fmt.Fprintln(os.Stderr, "usage: gosym -id Cxx -tier quick|thorough [-replay file]")
		return 2
	}
	spec, err := loadSpec(id)
	if err != nil {
		fmt.Fprintln(os.Stderr, "spec:", err)
		return 2
	}
	if replay != "" {
		return runReplayFile(spec, replay)
	}
	seed := 0
	if s := os.Getenv("VERIF_SEED"); s != "" {
		seed, _ = strconv.Atoi(s)
	}
	var hs []HarnessSpec
	pkgSet := map[string]bool{}
	for _, h := range spec.Harnesses {
		if h.Tier == "manual" {
			continue // kept for development runs (-run); too long for a registered tier
		}
		if tier == "thorough" || h.Tier == "quick" || h.Tier == "" {
			hs = append(hs, h)
			pkgSet[h.Pkg] = true
		}
	}
	var pkgs []string
	for p := range pkgSet {
		pkgs = append(pkgs, p)
	}
	sort.Strings(pkgs)
	tl := time.Now()
	ld, err := loadProgram(pkgs)
	if err != nil {
		fmt.Fprintln(os.Stderr, "load:", err)
		fmt.Printf("INCONCLUSIVE property=%s reason=load-failed\n", id)
		return 2
	}
	loadS := time.Since(tl).Seconds()

	known := loadKnown()
	exit := 0
	inconclusive := false
	var hev []*harnessEvidence
	var samples []interface{}
	var replayCases []ReplayCase
	totalOb, totalDis, totalStates, totalTrans, violations := 0, 0, 0, 0, 0
	type viol struct {
		h   HarnessSpec
		ob  *ObAgg
	}
	var viols []viol
	var solverDiff []string
	for _, h := range hs {
		fn := ld.lookup(h.Pkg, h.Func)
		if fn == nil {
			fmt.Fprintf(os.Stderr, "harness %s.%s not found\n", h.Pkg, h.Func)
			inconclusive = true
			continue
		}
		cfg := ExploreConfig{Solver: "z3", MaxPaths: 50000, StepBudget: 20_000_000, TimeoutMs: 30000, KeepScripts: tier == "thorough"}
		if h.Solver != "" {
			cfg.Solver = h.Solver
		}
		if h.MaxPaths > 0 {
			cfg.MaxPaths = h.MaxPaths
		}
		if h.Steps > 0 {
			cfg.StepBudget = h.Steps
		}
		if h.SolverMs > 0 {
			cfg.TimeoutMs = h.SolverMs
		}
		if h.Enc == "bv" {
			cfg.Enc = EncBV
		}
		r := explore(ld.prog, fn, cfg)
		ev := &harnessEvidence{Harness: h.Pkg + "." + h.Func, Bounds: h.Bounds, Encoding: map[bool]string{false: "int-with-wrap", true: "bitvector"}[h.Enc == "bv"],
			Paths: r.Paths, Infeasible: r.Infeasible, Branches: r.Branches, Steps: r.Steps, Queries: r.SolverQueries,
			SolverS: r.SolverTime.Seconds(), WallS: r.Wall.Seconds(), Covers: r.Covers, Incomplete: r.Incomplete, Functions: len(r.Fns)}
		if len(r.Aborted) > 0 {
			ev.Aborted = r.Aborted
		}
		for f := range r.InitFailures {
			ev.InitFailures = append(ev.InitFailures, f)
		}
		sort.Strings(ev.InitFailures)
		for n := range r.Notes {
			ev.Notes = append(ev.Notes, n)
		}
		for f := range r.Fns {
			if strings.Contains(f, "0chain.net/") && !strings.Contains(f, "zzverif") && !strings.Contains(f, "Verif") && !strings.HasSuffix(f, ".init") {
				ev.RepoFunctions = append(ev.RepoFunctions, strings.ReplaceAll(f, "0chain.net/", ""))
			}
		}
		sort.Strings(ev.RepoFunctions)
		for _, k := range sortedKeys(r.Obligations) {
			o := r.Obligations[k]
			ev.Obligations = append(ev.Obligations, o)
			totalOb += o.Unsat + o.Sat + o.Unknown
			totalDis += o.Unsat
			if o.Sat > 0 {
				viols = append(viols, viol{h, o})
			}
		}
		for _, c := range h.Covers {
			if m, ok := r.Covers[c]; !ok || m["_"] == "unknown" {
				ev.MissingCovers = append(ev.MissingCovers, c)
			}
		}
		if len(ev.MissingCovers) > 0 {
			inconclusive = true
			fmt.Printf("INCONCLUSIVE property=%s harness=%s vacuity: cover(s) not reached: %v\n", id, h.Func, ev.MissingCovers)
		}
		if r.Inconclusive() {
			inconclusive = true
			fmt.Printf("INCONCLUSIVE property=%s harness=%s incomplete=%q aborted=%v\n", id, h.Func, r.Incomplete, r.Aborted)
		}
		totalStates += r.Paths
		totalTrans += r.Branches
		n := 0
		for _, c := range sortedKeys(r.Covers) {
			m := r.Covers[c]
			if m["_"] == "unknown" {
				continue
			}
			if n < 4 {
				samples = append(samples, map[string]interface{}{"harness": h.Func, "cover": c, "inputs": m})
			}
			if n < 3 && !h.NoNative {
				replayCases = append(replayCases, ReplayCase{Harness: h.Func, Pkg: h.Pkg, Label: c, Kind: "cover", Vector: m, Expect: "pass"})
			}
			n++
		}
		// thorough: cross-check obligation scripts on the other solvers
		if tier == "thorough" {
			solverDiff = append(solverDiff, crossCheck(r, cfg.Enc)...)
		}
		hev = append(hev, ev)
	}

	// translator validation + violation replay: concrete interpreter run and native run
	validated := 0
	var replayNotes []string
	// a model may rest on the slack of an over-approximation (float enclosures): when the first
	// model of a violated obligation does not fail under concrete interpretation, try the
	// models of the other violating paths and report the first that does
	for _, v := range viols {
		if len(v.ob.Alts) == 0 || v.ob.Model == nil {
			continue
		}
		fn := ld.lookup(v.h.Pkg, v.h.Func)
		fails := func(m map[string]string, sched []int) bool {
			p := runPathSched(ld.prog, fn, ExploreConfig{StepBudget: 20_000_000}, nil, nil, m, sched)
			for _, ob := range p.obligations {
				if ob.Result == "sat" && ob.Label == v.ob.Label {
					return true
				}
			}
			return false
		}
		if fails(v.ob.Model, v.ob.Sched) {
			continue
		}
		for _, a := range v.ob.Alts {
			if fails(a.Model, a.Sched) {
				v.ob.Model, v.ob.Decisions, v.ob.Sched = a.Model, a.Decisions, a.Sched
				replayNotes = append(replayNotes, fmt.Sprintf("%q: the first solver model did not fail under concrete interpretation; reporting the model of another violating path", v.ob.Label))
				break
			}
		}
	}
	for _, v := range viols {
		replayCases = append(replayCases, ReplayCase{Harness: v.h.Func, Pkg: v.h.Pkg, Label: v.ob.Label, Kind: v.ob.Kind, Vector: v.ob.Model, Sched: v.ob.Sched, Expect: "fail:" + v.ob.Label})
	}
	knownLabel := func(harness, label string) bool {
		for _, k := range known.Findings {
			if k.Property == id && k.Harness == harness && k.Label == label {
				return true
			}
		}
		return false
	}
	onlyKnown := func(harness string, labels []string) bool {
		for _, l := range labels {
			if !knownLabel(harness, l) {
				return false
			}
		}
		return true
	}
	concreteOK := map[int]bool{}
	for i, rc := range replayCases {
		fn := ld.lookup(rc.Pkg, rc.Harness)
		cfg := ExploreConfig{StepBudget: 20_000_000}
		for _, h := range hs {
			if h.Func == rc.Harness && h.Steps > 0 {
				cfg.StepBudget = h.Steps
			}
		}
		p := runPathSched(ld.prog, fn, cfg, nil, nil, rc.Vector, rc.Sched)
		failed := map[string]bool{}
		for _, ob := range p.obligations {
			if ob.Result == "sat" {
				failed[ob.Label] = true
			}
		}
		if rc.Expect == "pass" {
			concreteOK[i] = onlyKnown(rc.Harness, keys(failed)) && (p.endKind == "ok")
			if !concreteOK[i] {
				replayNotes = append(replayNotes, fmt.Sprintf("cover witness %s/%s: concrete interpreter run ended %s %s failed=%v", rc.Harness, rc.Label, p.endKind, p.endMsg, keys(failed)))
			}
		} else {
			concreteOK[i] = failed[rc.Label]
			if !concreteOK[i] {
				replayNotes = append(replayNotes, fmt.Sprintf("model of %q does not fail under concrete interpretation (end=%s %s, failed=%v)", rc.Label, p.endKind, p.endMsg, keys(failed)))
			}
		}
	}
	nativeRes := map[int]nativeResult{}
	if len(replayCases) > 0 && os.Getenv("VERIF_NO_NATIVE") == "" {
		var err error
		nativeRes, err = runNative(ld, id, replayCases)
		if err != nil {
			replayNotes = append(replayNotes, "native replay failed to run: "+err.Error())
		}
	}
	for i, rc := range replayCases {
		nr, ok := nativeRes[i]
		if !ok {
			continue
		}
		if rc.Expect == "pass" {
			if onlyKnown(rc.Harness, nr.Failures) && nr.Panic == "" && !nr.Timeout && concreteOK[i] {
				validated++
			} else {
				replayNotes = append(replayNotes, fmt.Sprintf("DISAGREEMENT on cover witness %s/%s: native failures=%v panic=%q timeout=%v", rc.Harness, rc.Label, nr.Failures, nr.Panic, nr.Timeout))
				inconclusive = true
			}
		}
	}

	// verdicts on violations
	replayDir := filepath.Join(verifRoot, "replays", id)
	for _, v := range viols {
		idx := -1
		for i, rc := range replayCases {
			if rc.Harness == v.h.Func && rc.Expect == "fail:"+v.ob.Label {
				idx = i
			}
		}
		nr, haveNative := nativeRes[idx]
		reproduced := false
		how := ""
		if v.h.NoNative {
			reproduced = concreteOK[idx]
			how = "concrete re-execution in the interpreter (harness uses executor-only stubs; no native replay)"
		} else if haveNative {
			switch v.ob.Kind {
			case "unwind":
				reproduced = nr.Timeout
			case "panic":
				reproduced = nr.Panic != ""
			case "deadlock":
				reproduced = nr.Timeout || contains(nr.Failures, v.ob.Label)
			default:
				reproduced = contains(nr.Failures, v.ob.Label)
			}
			how = "native go test replay"
			if !reproduced && v.h.Schedule && concreteOK[idx] {
				reproduced = true
				how = "re-execution of the real code in the interpreter on the model's inputs under the recorded schedule of select/iteration choices (a native run cannot be forced into that schedule; the native replay of the same inputs took another schedule and passed)"
			}
		}
		os.MkdirAll(replayDir, 0o755)
		h := sha256.Sum256([]byte(v.h.Func + v.ob.Label))
		rpath := filepath.Join(replayDir, fmt.Sprintf("%s-%x.json", v.h.Func, h[:4]))
		rf := ReplayFile{Property: id, Cases: []ReplayCase{{Harness: v.h.Func, Pkg: v.h.Pkg, Label: v.ob.Label, Kind: v.ob.Kind, Vector: v.ob.Model, Sched: v.ob.Sched, Expect: "fail:" + v.ob.Label}}}
		data, _ := json.MarshalIndent(rf, "", " ")
		os.WriteFile(rpath, data, 0o644)
		if !reproduced {
			inconclusive = true
			fmt.Printf("SPURIOUS property=%s harness=%s label=%q: solver model did not reproduce (%s; native=%+v) replay=%s\n", id, v.h.Func, v.ob.Label, how, nr, rpath)
			continue
		}
		isKnown := false
		for _, k := range known.Findings {
			if k.Property == id && k.Harness == v.h.Func && k.Label == v.ob.Label {
				isKnown = true
				fmt.Printf("KNOWN-FINDING: property=%s %s [harness=%s label=%q model=%v]\n", id, k.What, v.h.Func, v.ob.Label, v.ob.Model)
			}
		}
		if !isKnown {
			violations++
			exit = 1
			fmt.Printf("VIOLATION property=%s replay=%s\n", id, rpath)
			fmt.Printf("  harness=%s label=%q kind=%s at %s\n  inputs=%v\n  confirmed by: %s\n", v.h.Func, v.ob.Label, v.ob.Kind, v.ob.Pos, v.ob.Model, how)
		}
	}
	for _, n := range replayNotes {
		fmt.Println("NOTE", n)
	}
	if len(solverDiff) > 0 {
		inconclusive = true
		for _, d := range solverDiff {
			fmt.Println("SOLVER-DISAGREEMENT", d)
		}
	}

	// evidence
	if len(samples) == 0 {
		samples = append(samples, map[string]interface{}{"note": "no cover witness produced"})
	}
	var assumptions []string
	assumptions = append(assumptions, spec.Assumptions...)
	assumptions = append(assumptions,
		"go/ssa construction and this interpreter (/verif/gosym) are faithful; validated per run by replaying cover witnesses natively",
		"solver verdicts (z3 4.8.12; thorough tier diffs z3-new 5.1.0 and cvc5 1.0)",
		"goroutines run to completion at the spawn point; mutexes are counters; zap/metrics/logging are no-ops",
	)
	states := totalStates
	if states < 1 {
		states = 1
	}
	trans := totalTrans
	if trans < 1 {
		trans = 1
	}
	evd := map[string]interface{}{
		"property_id": id,
		"tier":        tier,
		"seed":        seed,
		"level":       "model_checking",
		"wall_s":      time.Since(t0).Seconds(),
		"violations":  violations,
		"assumptions": assumptions,
		"coverage": map[string]interface{}{
			"states":                        states,
			"transitions":                   trans,
			"traces_validated_against_impl": validated,
			"samples":                       samples,
			"obligations":                   totalOb,
			"discharged":                    totalDis,
			"exhaustive":                    !inconclusive,
			"explanation":                   "bounded symbolic execution of the real functions from go/ssa; states = completed symbolic paths, transitions = symbolic branch decisions; every obligation is an SMT query over all inputs of the stated bound",
			"claim":                         spec.Claim,
			"outside_the_claim":             spec.Outside,
			"harnesses":                     hev,
			"load_s":                        loadS,
			"checker_cmd":                   fmt.Sprintf("./check %s --tier %s", id, tier),
			"trusted_base":                  []string{"golang.org/x/tools/go/ssa v0.29.0", "/verif/gosym interpreter+encoder", "z3 4.8.12", "patched grocksdb copy (native replay only)"},
			"replay_notes":                  replayNotes,
			"solver_disagreements":          solverDiff,
			"inconclusive":                  inconclusive,
		},
	}
	os.MkdirAll(filepath.Join(verifRoot, "evidence"), 0o755)
	data, _ := json.MarshalIndent(evd, "", " ")
	os.WriteFile(filepath.Join(verifRoot, "evidence", id+".json"), data, 0o644)

	for _, e := range hev {
		fmt.Printf("harness %s: paths=%d branches=%d queries=%d solver=%.1fs wall=%.1fs fns=%d\n", e.Harness, e.Paths, e.Branches, e.Queries, e.SolverS, e.WallS, e.Functions)
		for _, o := range e.Obligations {
			st := "ok"
			if o.Sat > 0 {
				st = "VIOLATED"
			} else if o.Unknown > 0 {
				st = "unknown"
			}
			fmt.Printf("  [%s] %-8s %q  discharged=%d violated=%d unknown=%d\n", o.Kind, st, o.Label, o.Unsat, o.Sat, o.Unknown)
		}
	}
	fmt.Printf("property %s tier=%s obligations=%d discharged=%d violations=%d validated_natively=%d wall=%.1fs\n", id, tier, totalOb, totalDis, violations, validated, time.Since(t0).Seconds())
	if exit == 1 {
		return 1
	}
	if inconclusive {
		fmt.Printf("INCONCLUSIVE property=%s (see evidence)\n", id)
		return 2
	}
	return 0
}

func keys(m map[string]bool) []string {
	var ks []string
	for k := range m {
		ks = append(ks, k)
	}
	sort.Strings(ks)
	return ks
}

func contains(xs []string, s string) bool {
	for _, x := range xs {
		if x == s {
			return true
		}
	}
	return false
}

func runReplayFile(spec *CheckSpec, path string) int {
	data, err := os.ReadFile(path)
	if err != nil {
		fmt.Fprintln(os.Stderr, err)
		return 2
	}
	var rf ReplayFile
	if err := json.Unmarshal(data, &rf); err != nil {
		fmt.Fprintln(os.Stderr, err)
		return 2
	}
	pk := map[string]bool{}
	var pkgs []string
	for _, c := range rf.Cases {
		if !pk[c.Pkg] {
			pk[c.Pkg] = true
			pkgs = append(pkgs, c.Pkg)
		}
	}
	ld, err := loadProgram(pkgs)
	if err != nil {
		fmt.Fprintln(os.Stderr, err)
		return 2
	}
	res, err := runNative(ld, spec.ID, rf.Cases)
	if err != nil {
		fmt.Fprintln(os.Stderr, "native replay:", err)
	}
	rc := 0
	for i, c := range rf.Cases {
		fn := ld.lookup(c.Pkg, c.Harness)
		p := runPath(ld.prog, fn, ExploreConfig{StepBudget: 20_000_000}, nil, nil, c.Vector)
		var failed []string
		for _, ob := range p.obligations {
			if ob.Result == "sat" {
				failed = append(failed, ob.Label)
			}
		}
		fmt.Printf("case %d harness=%s expect=%s\n  interpreter: end=%s %s failed=%v\n  native: %+v\n", i, c.Harness, c.Expect, p.endKind, p.endMsg, failed, res[i])
		if len(failed) > 0 || len(res[i].Failures) > 0 || res[i].Panic != "" || res[i].Timeout {
			rc = 1
		}
	}
	return rc
}
