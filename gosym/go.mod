module gosym

go 1.23

require golang.org/x/tools v0.29.0

require (
	github.com/philhofer/fwd v1.1.2-0.20210722190033-5c56ac6d0bb9 // indirect
	golang.org/x/mod v0.22.0 // indirect
	golang.org/x/sync v0.10.0 // indirect
	golang.org/x/sys v0.29.0 // indirect
)

require github.com/tinylib/msgp v1.1.6

replace github.com/tinylib/msgp => github.com/0chain/msgp v1.1.62

require golang.org/x/crypto v0.21.0
