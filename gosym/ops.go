// Copyright 2013 The Go Authors. All rights reserved.
// Use of this source code is governed by a BSD-style
// license that can be found in the LICENSE file.

package main

import (
	"bytes"
	"sort"
	"fmt"
	"go/constant"
	"go/token"
	"go/types"
	"os"
	"strings"
	"unsafe"

	"golang.org/x/tools/go/ssa"
)

// If the target program panics, the interpreter panics with this type.
type targetPanic struct {
	v value
}

func (p targetPanic) String() string {
	return toString(p.v)
}

// If the target program calls exit, the interpreter panics with this type.
type exitPanic int

// constValue returns the value of the constant with the
// dynamic type tag appropriate for c.Type().
func constValue(c *ssa.Const) value {
	if c.Value == nil {
		return zero(c.Type()) // typed zero
	}
	// c is not a type parameter so it's underlying type is basic.

	if t, ok := c.Type().Underlying().(*types.Basic); ok {
		// TODO(adonovan): eliminate untyped constants from SSA form.
		switch t.Kind() {
		case types.Bool, types.UntypedBool:
			return constant.BoolVal(c.Value)
		case types.Int, types.UntypedInt:
			// Assume sizeof(int) is same on host and target.
			return int(c.Int64())
		case types.Int8:
			return int8(c.Int64())
		case types.Int16:
			return int16(c.Int64())
		case types.Int32, types.UntypedRune:
			return int32(c.Int64())
		case types.Int64:
			return c.Int64()
		case types.Uint:
			// Assume sizeof(uint) is same on host and target.
			return uint(c.Uint64())
		case types.Uint8:
			return uint8(c.Uint64())
		case types.Uint16:
			return uint16(c.Uint64())
		case types.Uint32:
			return uint32(c.Uint64())
		case types.Uint64:
			return c.Uint64()
		case types.Uintptr:
			// Assume sizeof(uintptr) is same on host and target.
			return uintptr(c.Uint64())
		case types.Float32:
			return float32(c.Float64())
		case types.Float64, types.UntypedFloat:
			return c.Float64()
		case types.Complex64:
			return complex64(c.Complex128())
		case types.Complex128, types.UntypedComplex:
			return c.Complex128()
		case types.String, types.UntypedString:
			if c.Value.Kind() == constant.String {
				return constant.StringVal(c.Value)
			}
			return string(rune(c.Int64()))
		}
	}

	panic(fmt.Sprintf("constValue: %s", c))
}

// fitsInt returns true if x fits in type int according to sizes.
func fitsInt(x int64, sizes types.Sizes) bool {
	intSize := sizes.Sizeof(types.Typ[types.Int])
	if intSize < sizes.Sizeof(types.Typ[types.Int64]) {
		maxInt := int64(1)<<((intSize*8)-1) - 1
		minInt := -int64(1) << ((intSize * 8) - 1)
		return minInt <= x && x <= maxInt
	}
	return true
}

// asInt64 converts x, which must be an integer, to an int64.
//
// Callers that need a value directly usable as an int should combine this with fitsInt().
func asInt64(x value) int64 {
	switch x := x.(type) {
	case int:
		return int64(x)
	case int8:
		return int64(x)
	case int16:
		return int64(x)
	case int32:
		return int64(x)
	case int64:
		return x
	case uint:
		return int64(x)
	case uint8:
		return int64(x)
	case uint16:
		return int64(x)
	case uint32:
		return int64(x)
	case uint64:
		return int64(x)
	case uintptr:
		return int64(x)
	}
	panic(fmt.Sprintf("cannot convert %T to int64", x))
}

// asUint64 converts x, which must be an unsigned integer, to a uint64
// suitable for use as a bitwise shift count.
func asUint64(x value) uint64 {
	switch x := x.(type) {
	case uint:
		return uint64(x)
	case uint8:
		return uint64(x)
	case uint16:
		return uint64(x)
	case uint32:
		return uint64(x)
	case uint64:
		return x
	case uintptr:
		return uint64(x)
	}
	panic(fmt.Sprintf("cannot convert %T to uint64", x))
}

// asUnsigned returns the value of x, which must be an integer type, as its equivalent unsigned type,
// and returns true if x is non-negative.
func asUnsigned(x value) (value, bool) {
	switch x := x.(type) {
	case int:
		return uint(x), x >= 0
	case int8:
		return uint8(x), x >= 0
	case int16:
		return uint16(x), x >= 0
	case int32:
		return uint32(x), x >= 0
	case int64:
		return uint64(x), x >= 0
	case uint, uint8, uint32, uint64, uintptr:
		return x, true
	}
	panic(fmt.Sprintf("cannot convert %T to unsigned", x))
}

// zero returns a new "zero" value of the specified type.
func zero(t types.Type) value {
	switch t := t.(type) {
	case *types.Basic:
		if t.Kind() == types.UntypedNil {
			panic("untyped nil has no zero value")
		}
		if t.Info()&types.IsUntyped != 0 {
			// TODO(adonovan): make it an invariant that
			// this is unreachable.  Currently some
			// constants have 'untyped' types when they
			// should be defaulted by the typechecker.
			t = types.Default(t).(*types.Basic)
		}
		switch t.Kind() {
		case types.Bool:
			return false
		case types.Int:
			return int(0)
		case types.Int8:
			return int8(0)
		case types.Int16:
			return int16(0)
		case types.Int32:
			return int32(0)
		case types.Int64:
			return int64(0)
		case types.Uint:
			return uint(0)
		case types.Uint8:
			return uint8(0)
		case types.Uint16:
			return uint16(0)
		case types.Uint32:
			return uint32(0)
		case types.Uint64:
			return uint64(0)
		case types.Uintptr:
			return uintptr(0)
		case types.Float32:
			return float32(0)
		case types.Float64:
			return float64(0)
		case types.Complex64:
			return complex64(0)
		case types.Complex128:
			return complex128(0)
		case types.String:
			return ""
		case types.UnsafePointer:
			return unsafe.Pointer(nil)
		default:
			panic(fmt.Sprint("zero for unexpected type:", t))
		}
	case *types.Pointer:
		return (*value)(nil)
	case *types.Array:
		a := make(array, t.Len())
		for i := range a {
			a[i] = zero(t.Elem())
		}
		return a
	case *types.Named:
		return zero(t.Underlying())
	case *types.Alias:
		return zero(types.Unalias(t))
	case *types.Interface:
		return iface{} // nil type, methodset and value
	case *types.Slice:
		return []value(nil)
	case *types.Struct:
		s := make(structure, t.NumFields())
		for i := range s {
			s[i] = zero(t.Field(i).Type())
		}
		return s
	case *types.Tuple:
		if t.Len() == 1 {
			return zero(t.At(0).Type())
		}
		s := make(tuple, t.Len())
		for i := range s {
			s[i] = zero(t.At(i).Type())
		}
		return s
	case *types.Chan:
		return (*chanv)(nil)
	case *types.Map:
		if usesBuiltinMap(t.Key()) {
			return map[value]value(nil)
		}
		return (*hashmap)(nil)
	case *types.Signature:
		return (*ssa.Function)(nil)
	}
	panic(fmt.Sprint("zero: unexpected ", t))
}

// slice returns x[lo:hi:max].  Any of lo, hi and max may be nil.
func slice(x, lo, hi, max value) value {
	var Len, Cap int
	switch x := x.(type) {
	case string:
		Len = len(x)
	case []value:
		Len = len(x)
		Cap = cap(x)
	case *value: // *array
		a := (*x).(array)
		Len = len(a)
		Cap = cap(a)
	}

	lo, hi, max = concretizeIdx(lo, int64(Len)+int64(Cap)), concretizeIdx(hi, int64(Len)+int64(Cap)), concretizeIdx(max, int64(Len)+int64(Cap))
	l := int64(0)
	if lo != nil {
		l = asInt64(lo)
	}

	h := int64(Len)
	if hi != nil {
		h = asInt64(hi)
	}

	m := int64(Cap)
	if max != nil {
		m = asInt64(max)
	}

	switch x := x.(type) {
	case string:
		return x[l:h]
	case []value:
		return x[l:h:m]
	case *value: // *array
		a := (*x).(array)
		return []value(a)[l:h:m]
	}
	panic(fmt.Sprintf("slice: unexpected X type: %T", x))
}

// lookup returns x[idx] where x is a map.
func lookup(instr *ssa.Lookup, x, idx value) value {
	switch x := x.(type) { // map or string
	case map[value]value, *hashmap:
		var v value
		var ok bool
		switch x := x.(type) {
		case map[value]value:
			if k, found := mapFindKey(x, idx); found {
				v, ok = x[k]
			}
		case *hashmap:
			v = x.lookup(idx.(hashable))
			ok = v != nil
		}
		if !ok {
			v = zero(instr.X.Type().Underlying().(*types.Map).Elem())
		}
		if instr.CommaOk {
			v = tuple{v, ok}
		}
		return v
	}
	panic(fmt.Sprintf("unexpected x type in Lookup: %T", x))
}

// binop implements all arithmetic and logical binary operators for
// numeric datatypes and strings.  Both operands must have identical
// dynamic type.
func binop(op token.Token, t types.Type, x, y value) value {
	if isSym(x) || isSym(y) {
		return symBinop(op, t, x, y)
	}
	if (op == token.QUO || op == token.REM) && isZeroInt(y) {
		panic(runtimeError("integer divide by zero"))
	}
	switch op {
	case token.ADD:
		switch x.(type) {
		case int:
			return x.(int) + y.(int)
		case int8:
			return x.(int8) + y.(int8)
		case int16:
			return x.(int16) + y.(int16)
		case int32:
			return x.(int32) + y.(int32)
		case int64:
			return x.(int64) + y.(int64)
		case uint:
			return x.(uint) + y.(uint)
		case uint8:
			return x.(uint8) + y.(uint8)
		case uint16:
			return x.(uint16) + y.(uint16)
		case uint32:
			return x.(uint32) + y.(uint32)
		case uint64:
			return x.(uint64) + y.(uint64)
		case uintptr:
			return x.(uintptr) + y.(uintptr)
		case float32:
			return x.(float32) + y.(float32)
		case float64:
			return x.(float64) + y.(float64)
		case complex64:
			return x.(complex64) + y.(complex64)
		case complex128:
			return x.(complex128) + y.(complex128)
		case string:
			return x.(string) + y.(string)
		}

	case token.SUB:
		switch x.(type) {
		case int:
			return x.(int) - y.(int)
		case int8:
			return x.(int8) - y.(int8)
		case int16:
			return x.(int16) - y.(int16)
		case int32:
			return x.(int32) - y.(int32)
		case int64:
			return x.(int64) - y.(int64)
		case uint:
			return x.(uint) - y.(uint)
		case uint8:
			return x.(uint8) - y.(uint8)
		case uint16:
			return x.(uint16) - y.(uint16)
		case uint32:
			return x.(uint32) - y.(uint32)
		case uint64:
			return x.(uint64) - y.(uint64)
		case uintptr:
			return x.(uintptr) - y.(uintptr)
		case float32:
			return x.(float32) - y.(float32)
		case float64:
			return x.(float64) - y.(float64)
		case complex64:
			return x.(complex64) - y.(complex64)
		case complex128:
			return x.(complex128) - y.(complex128)
		}

	case token.MUL:
		switch x.(type) {
		case int:
			return x.(int) * y.(int)
		case int8:
			return x.(int8) * y.(int8)
		case int16:
			return x.(int16) * y.(int16)
		case int32:
			return x.(int32) * y.(int32)
		case int64:
			return x.(int64) * y.(int64)
		case uint:
			return x.(uint) * y.(uint)
		case uint8:
			return x.(uint8) * y.(uint8)
		case uint16:
			return x.(uint16) * y.(uint16)
		case uint32:
			return x.(uint32) * y.(uint32)
		case uint64:
			return x.(uint64) * y.(uint64)
		case uintptr:
			return x.(uintptr) * y.(uintptr)
		case float32:
			return x.(float32) * y.(float32)
		case float64:
			return x.(float64) * y.(float64)
		case complex64:
			return x.(complex64) * y.(complex64)
		case complex128:
			return x.(complex128) * y.(complex128)
		}

	case token.QUO:
		switch x.(type) {
		case int:
			return x.(int) / y.(int)
		case int8:
			return x.(int8) / y.(int8)
		case int16:
			return x.(int16) / y.(int16)
		case int32:
			return x.(int32) / y.(int32)
		case int64:
			return x.(int64) / y.(int64)
		case uint:
			return x.(uint) / y.(uint)
		case uint8:
			return x.(uint8) / y.(uint8)
		case uint16:
			return x.(uint16) / y.(uint16)
		case uint32:
			return x.(uint32) / y.(uint32)
		case uint64:
			return x.(uint64) / y.(uint64)
		case uintptr:
			return x.(uintptr) / y.(uintptr)
		case float32:
			return x.(float32) / y.(float32)
		case float64:
			return x.(float64) / y.(float64)
		case complex64:
			return x.(complex64) / y.(complex64)
		case complex128:
			return x.(complex128) / y.(complex128)
		}

	case token.REM:
		switch x.(type) {
		case int:
			return x.(int) % y.(int)
		case int8:
			return x.(int8) % y.(int8)
		case int16:
			return x.(int16) % y.(int16)
		case int32:
			return x.(int32) % y.(int32)
		case int64:
			return x.(int64) % y.(int64)
		case uint:
			return x.(uint) % y.(uint)
		case uint8:
			return x.(uint8) % y.(uint8)
		case uint16:
			return x.(uint16) % y.(uint16)
		case uint32:
			return x.(uint32) % y.(uint32)
		case uint64:
			return x.(uint64) % y.(uint64)
		case uintptr:
			return x.(uintptr) % y.(uintptr)
		}

	case token.AND:
		switch x.(type) {
		case int:
			return x.(int) & y.(int)
		case int8:
			return x.(int8) & y.(int8)
		case int16:
			return x.(int16) & y.(int16)
		case int32:
			return x.(int32) & y.(int32)
		case int64:
			return x.(int64) & y.(int64)
		case uint:
			return x.(uint) & y.(uint)
		case uint8:
			return x.(uint8) & y.(uint8)
		case uint16:
			return x.(uint16) & y.(uint16)
		case uint32:
			return x.(uint32) & y.(uint32)
		case uint64:
			return x.(uint64) & y.(uint64)
		case uintptr:
			return x.(uintptr) & y.(uintptr)
		}

	case token.OR:
		switch x.(type) {
		case int:
			return x.(int) | y.(int)
		case int8:
			return x.(int8) | y.(int8)
		case int16:
			return x.(int16) | y.(int16)
		case int32:
			return x.(int32) | y.(int32)
		case int64:
			return x.(int64) | y.(int64)
		case uint:
			return x.(uint) | y.(uint)
		case uint8:
			return x.(uint8) | y.(uint8)
		case uint16:
			return x.(uint16) | y.(uint16)
		case uint32:
			return x.(uint32) | y.(uint32)
		case uint64:
			return x.(uint64) | y.(uint64)
		case uintptr:
			return x.(uintptr) | y.(uintptr)
		}

	case token.XOR:
		switch x.(type) {
		case int:
			return x.(int) ^ y.(int)
		case int8:
			return x.(int8) ^ y.(int8)
		case int16:
			return x.(int16) ^ y.(int16)
		case int32:
			return x.(int32) ^ y.(int32)
		case int64:
			return x.(int64) ^ y.(int64)
		case uint:
			return x.(uint) ^ y.(uint)
		case uint8:
			return x.(uint8) ^ y.(uint8)
		case uint16:
			return x.(uint16) ^ y.(uint16)
		case uint32:
			return x.(uint32) ^ y.(uint32)
		case uint64:
			return x.(uint64) ^ y.(uint64)
		case uintptr:
			return x.(uintptr) ^ y.(uintptr)
		}

	case token.AND_NOT:
		switch x.(type) {
		case int:
			return x.(int) &^ y.(int)
		case int8:
			return x.(int8) &^ y.(int8)
		case int16:
			return x.(int16) &^ y.(int16)
		case int32:
			return x.(int32) &^ y.(int32)
		case int64:
			return x.(int64) &^ y.(int64)
		case uint:
			return x.(uint) &^ y.(uint)
		case uint8:
			return x.(uint8) &^ y.(uint8)
		case uint16:
			return x.(uint16) &^ y.(uint16)
		case uint32:
			return x.(uint32) &^ y.(uint32)
		case uint64:
			return x.(uint64) &^ y.(uint64)
		case uintptr:
			return x.(uintptr) &^ y.(uintptr)
		}

	case token.SHL:
		u, ok := asUnsigned(y)
		if !ok {
			panic("negative shift amount")
		}
		y := asUint64(u)
		switch x.(type) {
		case int:
			return x.(int) << y
		case int8:
			return x.(int8) << y
		case int16:
			return x.(int16) << y
		case int32:
			return x.(int32) << y
		case int64:
			return x.(int64) << y
		case uint:
			return x.(uint) << y
		case uint8:
			return x.(uint8) << y
		case uint16:
			return x.(uint16) << y
		case uint32:
			return x.(uint32) << y
		case uint64:
			return x.(uint64) << y
		case uintptr:
			return x.(uintptr) << y
		}

	case token.SHR:
		u, ok := asUnsigned(y)
		if !ok {
			panic("negative shift amount")
		}
		y := asUint64(u)
		switch x.(type) {
		case int:
			return x.(int) >> y
		case int8:
			return x.(int8) >> y
		case int16:
			return x.(int16) >> y
		case int32:
			return x.(int32) >> y
		case int64:
			return x.(int64) >> y
		case uint:
			return x.(uint) >> y
		case uint8:
			return x.(uint8) >> y
		case uint16:
			return x.(uint16) >> y
		case uint32:
			return x.(uint32) >> y
		case uint64:
			return x.(uint64) >> y
		case uintptr:
			return x.(uintptr) >> y
		}

	case token.LSS:
		switch x.(type) {
		case int:
			return x.(int) < y.(int)
		case int8:
			return x.(int8) < y.(int8)
		case int16:
			return x.(int16) < y.(int16)
		case int32:
			return x.(int32) < y.(int32)
		case int64:
			return x.(int64) < y.(int64)
		case uint:
			return x.(uint) < y.(uint)
		case uint8:
			return x.(uint8) < y.(uint8)
		case uint16:
			return x.(uint16) < y.(uint16)
		case uint32:
			return x.(uint32) < y.(uint32)
		case uint64:
			return x.(uint64) < y.(uint64)
		case uintptr:
			return x.(uintptr) < y.(uintptr)
		case float32:
			return x.(float32) < y.(float32)
		case float64:
			return x.(float64) < y.(float64)
		case string:
			return x.(string) < y.(string)
		}

	case token.LEQ:
		switch x.(type) {
		case int:
			return x.(int) <= y.(int)
		case int8:
			return x.(int8) <= y.(int8)
		case int16:
			return x.(int16) <= y.(int16)
		case int32:
			return x.(int32) <= y.(int32)
		case int64:
			return x.(int64) <= y.(int64)
		case uint:
			return x.(uint) <= y.(uint)
		case uint8:
			return x.(uint8) <= y.(uint8)
		case uint16:
			return x.(uint16) <= y.(uint16)
		case uint32:
			return x.(uint32) <= y.(uint32)
		case uint64:
			return x.(uint64) <= y.(uint64)
		case uintptr:
			return x.(uintptr) <= y.(uintptr)
		case float32:
			return x.(float32) <= y.(float32)
		case float64:
			return x.(float64) <= y.(float64)
		case string:
			return x.(string) <= y.(string)
		}

	case token.EQL:
		return symEq(t, x, y)

	case token.NEQ:
		return symNot(symEq(t, x, y))

	case token.GTR:
		switch x.(type) {
		case int:
			return x.(int) > y.(int)
		case int8:
			return x.(int8) > y.(int8)
		case int16:
			return x.(int16) > y.(int16)
		case int32:
			return x.(int32) > y.(int32)
		case int64:
			return x.(int64) > y.(int64)
		case uint:
			return x.(uint) > y.(uint)
		case uint8:
			return x.(uint8) > y.(uint8)
		case uint16:
			return x.(uint16) > y.(uint16)
		case uint32:
			return x.(uint32) > y.(uint32)
		case uint64:
			return x.(uint64) > y.(uint64)
		case uintptr:
			return x.(uintptr) > y.(uintptr)
		case float32:
			return x.(float32) > y.(float32)
		case float64:
			return x.(float64) > y.(float64)
		case string:
			return x.(string) > y.(string)
		}

	case token.GEQ:
		switch x.(type) {
		case int:
			return x.(int) >= y.(int)
		case int8:
			return x.(int8) >= y.(int8)
		case int16:
			return x.(int16) >= y.(int16)
		case int32:
			return x.(int32) >= y.(int32)
		case int64:
			return x.(int64) >= y.(int64)
		case uint:
			return x.(uint) >= y.(uint)
		case uint8:
			return x.(uint8) >= y.(uint8)
		case uint16:
			return x.(uint16) >= y.(uint16)
		case uint32:
			return x.(uint32) >= y.(uint32)
		case uint64:
			return x.(uint64) >= y.(uint64)
		case uintptr:
			return x.(uintptr) >= y.(uintptr)
		case float32:
			return x.(float32) >= y.(float32)
		case float64:
			return x.(float64) >= y.(float64)
		case string:
			return x.(string) >= y.(string)
		}
	}
	panic(fmt.Sprintf("invalid binary op: %T %s %T", x, op, y))
}

// eqnil returns the comparison x == y using the equivalence relation
// appropriate for type t.
// If t is a reference type, at most one of x or y may be a nil value
// of that type.
func eqnil(t types.Type, x, y value) bool {
	if t == nil {
		return equals(t, x, y)
	}
	switch t.Underlying().(type) {
	case *types.Map, *types.Signature, *types.Slice:
		// Since these types don't support comparison,
		// one of the operands must be a literal nil.
		switch x := x.(type) {
		case *hashmap:
			return (x != nil) == (y.(*hashmap) != nil)
		case map[value]value:
			return (x != nil) == (y.(map[value]value) != nil)
		case *ssa.Function:
			switch y := y.(type) {
			case *ssa.Function:
				return (x != nil) == (y != nil)
			case *closure:
				return true
			}
		case *closure:
			return (x != nil) == (y.(*ssa.Function) != nil)
		case []value:
			return (x != nil) == (y.([]value) != nil)
		}
		panic(fmt.Sprintf("eqnil(%s): illegal dynamic type: %T", t, x))
	}

	return equals(t, x, y)
}

func unop(fr *frame, instr *ssa.UnOp, x value) value {
	if sx, ok := x.(sv); ok {
		return symUnop(instr.Op, sx)
	}
	switch instr.Op {
	case token.ARROW: // receive
		v, ok := fr.i.p.chanRecv(x.(*chanv))
		if !ok {
			v = zero(instr.X.Type().Underlying().(*types.Chan).Elem())
		}
		if instr.CommaOk {
			v = tuple{v, ok}
		}
		return v
	case token.SUB:
		switch x := x.(type) {
		case int:
			return -x
		case int8:
			return -x
		case int16:
			return -x
		case int32:
			return -x
		case int64:
			return -x
		case uint:
			return -x
		case uint8:
			return -x
		case uint16:
			return -x
		case uint32:
			return -x
		case uint64:
			return -x
		case uintptr:
			return -x
		case float32:
			return -x
		case float64:
			return -x
		case complex64:
			return -x
		case complex128:
			return -x
		}
	case token.MUL:
		return load(mustDeref(instr.X.Type()), x.(*value))
	case token.NOT:
		return !x.(bool)
	case token.XOR:
		switch x := x.(type) {
		case int:
			return ^x
		case int8:
			return ^x
		case int16:
			return ^x
		case int32:
			return ^x
		case int64:
			return ^x
		case uint:
			return ^x
		case uint8:
			return ^x
		case uint16:
			return ^x
		case uint32:
			return ^x
		case uint64:
			return ^x
		case uintptr:
			return ^x
		}
	}
	panic(fmt.Sprintf("invalid unary op %s %T", instr.Op, x))
}

// typeAssert checks whether dynamic type of itf is instr.AssertedType.
// It returns the extracted value on success, and panics on failure,
// unless instr.CommaOk, in which case it always returns a "value,ok" tuple.
func typeAssert(i *interpreter, instr *ssa.TypeAssert, itf iface) value {
	var v value
	err := ""
	if itf.t == nil {
		err = fmt.Sprintf("interface conversion: interface is nil, not %s", instr.AssertedType)

	} else if idst, ok := instr.AssertedType.Underlying().(*types.Interface); ok {
		v = itf
		err = checkInterface(i, idst, itf)

	} else if types.Identical(itf.t, instr.AssertedType) {
		v = itf.v // extract value

	} else {
		err = fmt.Sprintf("interface conversion: interface is %s, not %s", itf.t, instr.AssertedType)
	}
	// Note: if instr.Underlying==true ever becomes reachable from interp check that
	// types.Identical(itf.t.Underlying(), instr.AssertedType)

	if err != "" {
		if !instr.CommaOk {
			panic(err)
		}
		return tuple{zero(instr.AssertedType), false}
	}
	if instr.CommaOk {
		return tuple{v, true}
	}
	return v
}

// This variable is no longer used but remains to prevent build breakage.
var CapturedOutput *bytes.Buffer

// callBuiltin interprets a call to builtin fn with arguments args,
// returning its result.
func callBuiltin(caller *frame, callpos token.Pos, fn *ssa.Builtin, args []value) value {
	switch fn.Name() {
	case "append":
		if len(args) == 1 {
			return args[0]
		}
		if s, ok := args[1].(string); ok {
			// append([]byte, ...string) []byte
			arg0 := args[0].([]value)
			for i := 0; i < len(s); i++ {
				arg0 = append(arg0, s[i])
			}
			return arg0
		}
		// append([]T, ...[]T) []T
		return append(args[0].([]value), args[1].([]value)...)

	case "copy": // copy([]T, []T) int or copy([]byte, string) int
		src := args[1]
		if _, ok := src.(string); ok {
			params := fn.Type().(*types.Signature).Params()
			src = conv(params.At(0).Type(), params.At(1).Type(), src)
		}
		return copy(args[0].([]value), src.([]value))

	case "close": // close(chan T)
		args[0].(*chanv).closed = true
		return nil

	case "delete": // delete(map[K]value, K)
		switch m := args[0].(type) {
		case map[value]value:
			if k, found := mapFindKey(m, args[1]); found {
				delete(m, k)
			}
		case *hashmap:
			m.delete(args[1].(hashable))
		default:
			panic(fmt.Sprintf("illegal map type: %T", m))
		}
		return nil

	case "print", "println": // print(any, ...)
		ln := fn.Name() == "println"
		var buf bytes.Buffer
		for i, arg := range args {
			if i > 0 && ln {
				buf.WriteRune(' ')
			}
			buf.WriteString(toString(arg))
		}
		if ln {
			buf.WriteRune('\n')
		}
		os.Stderr.Write(buf.Bytes())
		return nil

	case "len":
		switch x := args[0].(type) {
		case string:
			return len(x)
		case array:
			return len(x)
		case *value:
			return len((*x).(array))
		case []value:
			return len(x)
		case map[value]value:
			return len(x)
		case *hashmap:
			return x.len()
		case *chanv:
			return len(x.buf)
		default:
			panic(fmt.Sprintf("len: illegal operand: %T", x))
		}

	case "cap":
		switch x := args[0].(type) {
		case array:
			return cap(x)
		case *value:
			return cap((*x).(array))
		case []value:
			return cap(x)
		case *chanv:
			return x.cap
		default:
			panic(fmt.Sprintf("cap: illegal operand: %T", x))
		}

	case "min":
		return foldLeft(min, args)
	case "max":
		return foldLeft(max, args)

	case "real":
		switch c := args[0].(type) {
		case complex64:
			return real(c)
		case complex128:
			return real(c)
		default:
			panic(fmt.Sprintf("real: illegal operand: %T", c))
		}

	case "imag":
		switch c := args[0].(type) {
		case complex64:
			return imag(c)
		case complex128:
			return imag(c)
		default:
			panic(fmt.Sprintf("imag: illegal operand: %T", c))
		}

	case "complex":
		switch f := args[0].(type) {
		case float32:
			return complex(f, args[1].(float32))
		case float64:
			return complex(f, args[1].(float64))
		default:
			panic(fmt.Sprintf("complex: illegal operand: %T", f))
		}

	case "panic":
		// ssa.Panic handles most cases; this is only for "go
		// panic" or "defer panic".
		panic(targetPanic{args[0]})

	case "recover":
		return doRecover(caller)

	case "ssa:wrapnilchk":
		recv := args[0]
		if recv.(*value) == nil {
			recvType := args[1]
			methodName := args[2]
			panic(fmt.Sprintf("value method (%s).%s called using nil *%s pointer",
				recvType, methodName, recvType))
		}
		return recv

	case "ssa:deferstack":
		return &caller.defers
	}

	panic("unknown built-in: " + fn.Name())
}

func rangeIter(fr *frame, x value, t types.Type) iter {
	switch x := x.(type) {
	case map[value]value:
		ks := make([]value, 0, len(x))
		for k := range x {
			ks = append(ks, k)
		}
		if fr.fn != nil && fr.fn.Name() == "Msgsize" {
			// a size estimate sums over the entries: order-insensitive, never worth a fork
			sort.SliceStable(ks, func(i, j int) bool { return keyLess(ks[i], ks[j]) })
		} else {
			ks = fr.i.p.orderKeys(ks)
		}
		vs := make([]value, len(ks))
		for i, k := range ks {
			vs[i] = x[k]
		}
		return &listIter{keys: ks, vals: vs}
	case *hashmap:
		var ks []value
		m := map[int]value{}
		for _, e := range x.entries() {
			for ; e != nil; e = e.next {
				m[len(ks)] = e.value
				ks = append(ks, e.key)
			}
		}
		idx := make([]value, len(ks))
		for i := range ks {
			idx[i] = i
		}
		// order by key text, then policy
		type kv struct{ k, v value }
		arr := make([]kv, len(ks))
		for i := range ks {
			arr[i] = kv{ks[i], m[i]}
		}
		sort.SliceStable(arr, func(a, b int) bool { return toString(arr[a].k) < toString(arr[b].k) })
		ks2 := make([]value, len(arr))
		for i := range arr {
			ks2[i] = arr[i].k
		}
		ks3 := fr.i.p.permute(ks2)
		vs := make([]value, len(ks3))
		for i, k := range ks3 {
			vs[i] = x.lookup(k.(hashable))
		}
		return &listIter{keys: ks3, vals: vs}
	case string:
		return &stringIter{Reader: strings.NewReader(x)}
	}
	panic(fmt.Sprintf("cannot range over %T", x))
}

// widen widens a basic typed value x to the widest type of its
// category, one of:
//
//	bool, int64, uint64, float64, complex128, string.
//
// This is inefficient but reduces the size of the cross-product of
// cases we have to consider.
func widen(x value) value {
	switch y := x.(type) {
	case bool, int64, uint64, float64, complex128, string, unsafe.Pointer:
		return x
	case int:
		return int64(y)
	case int8:
		return int64(y)
	case int16:
		return int64(y)
	case int32:
		return int64(y)
	case uint:
		return uint64(y)
	case uint8:
		return uint64(y)
	case uint16:
		return uint64(y)
	case uint32:
		return uint64(y)
	case uintptr:
		return uint64(y)
	case float32:
		return float64(y)
	case complex64:
		return complex128(y)
	}
	panic(fmt.Sprintf("cannot widen %T", x))
}

// conv converts the value x of type t_src to type t_dst and returns
// the result.
// Possible cases are described with the ssa.Convert operator.
func conv(t_dst, t_src types.Type, x value) value {
	ut_src := t_src.Underlying()
	ut_dst := t_dst.Underlying()
	if sx, ok := x.(sv); ok {
		return symConv(ut_dst, ut_src, sx)
	}

	// Destination type is not an "untyped" type.
	if b, ok := ut_dst.(*types.Basic); ok && b.Info()&types.IsUntyped != 0 {
		panic("oops: conversion to 'untyped' type: " + b.String())
	}

	// Nor is it an interface type.
	if _, ok := ut_dst.(*types.Interface); ok {
		if _, ok := ut_src.(*types.Interface); ok {
			panic("oops: Convert should be ChangeInterface")
		} else {
			panic("oops: Convert should be MakeInterface")
		}
	}

	// Remaining conversions:
	//    + untyped string/number/bool constant to a specific
	//      representation.
	//    + conversions between non-complex numeric types.
	//    + conversions between complex numeric types.
	//    + integer/[]byte/[]rune -> string.
	//    + string -> []byte/[]rune.
	//
	// All are treated the same: first we extract the value to the
	// widest representation (int64, uint64, float64, complex128,
	// or string), then we convert it to the desired type.

	switch ut_src := ut_src.(type) {
	case *types.Pointer:
		switch ut_dst := ut_dst.(type) {
		case *types.Basic:
			// *value to unsafe.Pointer?
			if ut_dst.Kind() == types.UnsafePointer {
				return unsafe.Pointer(x.(*value))
			}
		}

	case *types.Slice:
		// []byte or []rune -> string
		switch ut_src.Elem().Underlying().(*types.Basic).Kind() {
		case types.Byte:
			x := x.([]value)
			b := make([]byte, 0, len(x))
			for i := range x {
				b = append(b, x[i].(byte))
			}
			return string(b)

		case types.Rune:
			x := x.([]value)
			r := make([]rune, 0, len(x))
			for i := range x {
				r = append(r, x[i].(rune))
			}
			return string(r)
		}

	case *types.Basic:
		x = widen(x)

		// integer -> string?
		if ut_src.Info()&types.IsInteger != 0 {
			if ut_dst, ok := ut_dst.(*types.Basic); ok && ut_dst.Kind() == types.String {
				return fmt.Sprintf("%c", x)
			}
		}

		// string -> []rune, []byte or string?
		if s, ok := x.(string); ok {
			switch ut_dst := ut_dst.(type) {
			case *types.Slice:
				var res []value
				switch ut_dst.Elem().Underlying().(*types.Basic).Kind() {
				case types.Rune:
					for _, r := range []rune(s) {
						res = append(res, r)
					}
					return res
				case types.Byte:
					for _, b := range []byte(s) {
						res = append(res, b)
					}
					return res
				}
			case *types.Basic:
				if ut_dst.Kind() == types.String {
					return x.(string)
				}
			}
			break // fail: no other conversions for string
		}

		// unsafe.Pointer -> *value
		if ut_src.Kind() == types.UnsafePointer {
			// TODO(adonovan): this is wrong and cannot
			// really be fixed with the current design.
			//
			// return (*value)(x.(unsafe.Pointer))
			// creates a new pointer of a different
			// type but the underlying interface value
			// knows its "true" type and so cannot be
			// meaningfully used through the new pointer.
			//
			// To make this work, the interpreter needs to
			// simulate the memory layout of a real
			// compiled implementation.
			//
			// To at least preserve type-safety, we'll
			// just return the zero value of the
			// destination type.
			return zero(t_dst)
		}

		// Conversions between complex numeric types?
		if ut_src.Info()&types.IsComplex != 0 {
			switch ut_dst.(*types.Basic).Kind() {
			case types.Complex64:
				return complex64(x.(complex128))
			case types.Complex128:
				return x.(complex128)
			}
			break // fail: no other conversions for complex
		}

		// Conversions between non-complex numeric types?
		if ut_src.Info()&types.IsNumeric != 0 {
			kind := ut_dst.(*types.Basic).Kind()
			switch x := x.(type) {
			case int64: // signed integer -> numeric?
				switch kind {
				case types.Int:
					return int(x)
				case types.Int8:
					return int8(x)
				case types.Int16:
					return int16(x)
				case types.Int32:
					return int32(x)
				case types.Int64:
					return int64(x)
				case types.Uint:
					return uint(x)
				case types.Uint8:
					return uint8(x)
				case types.Uint16:
					return uint16(x)
				case types.Uint32:
					return uint32(x)
				case types.Uint64:
					return uint64(x)
				case types.Uintptr:
					return uintptr(x)
				case types.Float32:
					return float32(x)
				case types.Float64:
					return float64(x)
				}

			case uint64: // unsigned integer -> numeric?
				switch kind {
				case types.Int:
					return int(x)
				case types.Int8:
					return int8(x)
				case types.Int16:
					return int16(x)
				case types.Int32:
					return int32(x)
				case types.Int64:
					return int64(x)
				case types.Uint:
					return uint(x)
				case types.Uint8:
					return uint8(x)
				case types.Uint16:
					return uint16(x)
				case types.Uint32:
					return uint32(x)
				case types.Uint64:
					return uint64(x)
				case types.Uintptr:
					return uintptr(x)
				case types.Float32:
					return float32(x)
				case types.Float64:
					return float64(x)
				}

			case float64: // floating point -> numeric?
				switch kind {
				case types.Int:
					return int(x)
				case types.Int8:
					return int8(x)
				case types.Int16:
					return int16(x)
				case types.Int32:
					return int32(x)
				case types.Int64:
					return int64(x)
				case types.Uint:
					return uint(x)
				case types.Uint8:
					return uint8(x)
				case types.Uint16:
					return uint16(x)
				case types.Uint32:
					return uint32(x)
				case types.Uint64:
					return uint64(x)
				case types.Uintptr:
					return uintptr(x)
				case types.Float32:
					return float32(x)
				case types.Float64:
					return float64(x)
				}
			}
		}
	}

	panic(fmt.Sprintf("unsupported conversion: %s  -> %s, dynamic type %T", t_src, t_dst, x))
}

// sliceToArrayPointer converts the value x of type slice to type t_dst
// a pointer to array and returns the result.
func sliceToArrayPointer(t_dst, t_src types.Type, x value) value {
	if _, ok := t_src.Underlying().(*types.Slice); ok {
		if ptr, ok := t_dst.Underlying().(*types.Pointer); ok {
			if arr, ok := ptr.Elem().Underlying().(*types.Array); ok {
				x := x.([]value)
				if arr.Len() > int64(len(x)) {
					panic("array length is greater than slice length")
				}
				if x == nil {
					return zero(t_dst)
				}
				v := value(array(x[:arr.Len()]))
				return &v
			}
		}
	}

	panic(fmt.Sprintf("unsupported conversion: %s  -> %s, dynamic type %T", t_src, t_dst, x))
}

// checkInterface checks that the method set of x implements the
// interface itype.
// On success it returns "", on failure, an error message.
func checkInterface(i *interpreter, itype *types.Interface, x iface) string {
	if meth, _ := types.MissingMethod(x.t, itype, true); meth != nil {
		return fmt.Sprintf("interface conversion: %v is not %v: missing method %s",
			x.t, itype, meth.Name())
	}
	return "" // ok
}

func foldLeft(op func(value, value) value, args []value) value {
	x := args[0]
	for _, arg := range args[1:] {
		x = op(x, arg)
	}
	return x
}

func min(x, y value) value {
	if isSym(x) || isSym(y) {
		return symIte(binop(token.LSS, nil, y, x), y, x)
	}
	switch x := x.(type) {
	case float32:
		return fmin(x, y.(float32))
	case float64:
		return fmin(x, y.(float64))
	}

	// return (y < x) ? y : x
	if binop(token.LSS, nil, y, x).(bool) {
		return y
	}
	return x
}

func max(x, y value) value {
	if isSym(x) || isSym(y) {
		return symIte(binop(token.GTR, nil, y, x), y, x)
	}
	switch x := x.(type) {
	case float32:
		return fmax(x, y.(float32))
	case float64:
		return fmax(x, y.(float64))
	}

	// return (y > x) ? y : x
	if binop(token.GTR, nil, y, x).(bool) {
		return y
	}
	return x
}

// copied from $GOROOT/src/runtime/minmax.go

type floaty interface{ ~float32 | ~float64 }

func fmin[F floaty](x, y F) F {
	if y != y || y < x {
		return y
	}
	if x != x || x < y || x != 0 {
		return x
	}
	// x and y are both ±0
	// if either is -0, return -0; else return +0
	return forbits(x, y)
}

func fmax[F floaty](x, y F) F {
	if y != y || y > x {
		return y
	}
	if x != x || x > y || x != 0 {
		return x
	}
	// x and y are both ±0
	// if both are -0, return -0; else return +0
	return fandbits(x, y)
}

func forbits[F floaty](x, y F) F {
	switch unsafe.Sizeof(x) {
	case 4:
		*(*uint32)(unsafe.Pointer(&x)) |= *(*uint32)(unsafe.Pointer(&y))
	case 8:
		*(*uint64)(unsafe.Pointer(&x)) |= *(*uint64)(unsafe.Pointer(&y))
	}
	return x
}

func fandbits[F floaty](x, y F) F {
	switch unsafe.Sizeof(x) {
	case 4:
		*(*uint32)(unsafe.Pointer(&x)) &= *(*uint32)(unsafe.Pointer(&y))
	case 8:
		*(*uint64)(unsafe.Pointer(&x)) &= *(*uint64)(unsafe.Pointer(&y))
	}
	return x
}

// mapFindKey resolves key against the keys of m. With symbolic keys involved it forks on
// equality with each existing key (plus "none of them").
func mapFindKey(m map[value]value, key value) (value, bool) {
	ks, isSymKey := key.(sv)
	anySym := isSymKey
	if !anySym {
		for k := range m {
			if isSym(k) {
				anySym = true
				break
			}
		}
	}
	if !anySym {
		_, ok := m[key]
		return key, ok
	}
	if _, ok := m[key]; ok {
		return key, true // syntactically identical key
	}
	var st *Store
	if isSymKey {
		st = ks.t.store
	}
	keys := make([]value, 0, len(m))
	for k := range m {
		keys = append(keys, k)
		if st == nil {
			if s, ok := k.(sv); ok {
				st = s.t.store
			}
		}
	}
	sort.SliceStable(keys, func(i, j int) bool { return keyLess(keys[i], keys[j]) })
	kt := toTerm(st, key)
	var conds []*Term
	none := st.Bool(true)
	var cand []value
	for _, k := range keys {
		if !isSym(k) && !isSymKey {
			continue // concrete vs concrete, unequal
		}
		c := st.Eq(kt, toTerm(st, k))
		if c.isConst() {
			if c.boolVal() {
				return k, true
			}
			continue
		}
		conds = append(conds, c)
		cand = append(cand, k)
		none = st.And(none, st.Not(c))
	}
	if len(conds) == 0 {
		return key, false
	}
	conds = append(conds, none)
	d := st.path.decide(conds, "map-key")
	if d == len(conds)-1 {
		return key, false
	}
	return cand[d], true
}
