package main

// Ideal threshold group behind chaincore/threshold/bls.DKG (C33): see overlay
// zzverif/symdkg. The DKG objects returned by symdkg.Ideal are plain structs (T, N, ID set);
// their group is kept on the path. Modelled at the level of the DKG methods the miner uses:
//   dkg.Sign(msg)                      the party's share on msg (a fresh registered string)
//   dkg.VerifySignature(sig, msg, id)  holds iff sig is party id's share, of this group, on msg
//   dkg.CalBlsGpSign(sigs, ids)        the group's unique signature on m iff every sigs[i] is
//                                      party ids[i]'s share on one and the same m, the ids are
//                                      distinct and there are at least T of them; otherwise a
//                                      string determined by the inputs that is no group signature
// plus hex (de)serialisation of bls.Sign / bls.ID.

import (
	"encoding/hex"
	"fmt"
	"strconv"
	"strings"
)

type dkgShare struct {
	group int
	id    string // party id, hex as ID.GetHexString prints it
	msg   string
}

func (p *Path) internBlsID(s string) uint64 {
	s = strings.ToLower(strings.TrimLeft(s, "0"))
	if n, err := strconv.ParseUint(s, 16, 63); err == nil && n != 0 {
		return n
	}
	if p.blsIDNum == nil {
		p.blsIDNum = map[string]uint64{}
		p.blsIDStr = map[uint64]string{}
	}
	if n, ok := p.blsIDNum[s]; ok {
		return n
	}
	n := uint64(1)<<63 | uint64(len(p.blsIDNum)+1)
	p.blsIDNum[s] = n
	p.blsIDStr[n] = s
	return n
}

func (p *Path) blsIDString(v value) string {
	leaf := blsIDLeaf(v)
	if leaf == nil || len(leaf) == 0 {
		return ""
	}
	n, ok := leaf[0].(uint64)
	if !ok || n == 0 {
		return ""
	}
	if n>>63 == 1 {
		return p.blsIDStr[n]
	}
	return strconv.FormatUint(n, 16)
}

func init() {
	extraRegs = append(extraRegs, func() {
		bl := "github.com/herumi/bls-go-binary/bls."
		dk := "(*0chain.net/chaincore/threshold/bls.DKG)."
		// the configuration store: only Set and GetInt are modelled (integers set by a harness)
		externals["0chain.net/core/viper.Set"] = func(fr *frame, args []value) value {
			p := fr.i.p
			if p.viperVals == nil {
				p.viperVals = map[string]value{}
			}
			if k, ok := args[0].(string); ok {
				if itf, ok := args[1].(iface); ok {
					p.viperVals[k] = itf.v
				}
			}
			return nil
		}
		externals["0chain.net/core/viper.GetInt"] = func(fr *frame, args []value) value {
			if k, ok := args[0].(string); ok {
				if v, ok := fr.i.p.viperVals[k]; ok {
					if n, ok := v.(int); ok {
						return n
					}
				}
			}
			return 0
		}
		externals["0chain.net/zzverif/symdkg.Ideal"] = func(fr *frame, args []value) value {
			p := fr.i.p
			t := args[0].(int)
			ids, _ := args[1].([]value)
			pkg := fr.i.prog.ImportedPackage("0chain.net/chaincore/threshold/bls")
			if pkg == nil || pkg.Type("DKG") == nil {
				panic(unsupported("symdkg.Ideal: bls.DKG not loaded"))
			}
			p.dkgGroups++
			if p.dkgOf == nil {
				p.dkgOf = map[*value]int{}
			}
			out := make([]value, len(ids))
			for i, idv := range ids {
				s := zero(pkg.Type("DKG").Type()).(structure)
				s[0], s[1] = t, len(ids)
				id := idv.(string)
				leaf := blsIDLeaf(s[2])
				if leaf == nil {
					panic(unsupported("symdkg.Ideal: unexpected bls.ID layout"))
				}
				leaf[0] = p.internBlsID("1" + id[:31])
				var cell value = s
				p.dkgOf[&cell] = p.dkgGroups
				out[i] = &cell
			}
			return out
		}
		groupOf := func(fr *frame, recv value) (int, structure) {
			ptr, ok := recv.(*value)
			if !ok || ptr == nil {
				panic(unsupported("bls.DKG method on a nil DKG"))
			}
			g, ok := fr.i.p.dkgOf[ptr]
			if !ok {
				panic(unsupported("bls.DKG that was not created by symdkg.Ideal"))
			}
			return g, (*ptr).(structure)
		}
		externals[dk+"Sign"] = func(fr *frame, args []value) value {
			p := fr.i.p
			g, s := groupOf(fr, args[0])
			msg, ok := args[1].(string)
			if !ok || strings.Contains(msg, symMarkOpen) {
				panic(unsupported("bls.DKG.Sign of a symbolic message"))
			}
			id := p.blsIDString(s[2])
			sig := hex.EncodeToString(h256([]byte(fmt.Sprintf("vrfshare:%d:%s:", g, id)), []byte(msg)))
			if p.dkgShares == nil {
				p.dkgShares = map[string]dkgShare{}
			}
			p.dkgShares[sig] = dkgShare{g, id, msg}
			var cell value = blsSigs{[]string{sig}}
			return &cell
		}
		externals["(*"+bl+"Sign).GetHexString"] = func(fr *frame, args []value) value {
			m, ok := (*args[0].(*value)).(blsSigs)
			if !ok || len(m.sigs) != 1 {
				return ""
			}
			return m.sigs[0]
		}
		externals["(*"+bl+"Sign).SetHexString"] = func(fr *frame, args []value) value {
			s, ok := args[1].(string)
			if !ok {
				panic(unsupported("bls.Sign.SetHexString of a symbolic string"))
			}
			if _, err := hex.DecodeString(s); err != nil || s == "" {
				return fr.i.makeError("err blsSignatureDeserialize " + s)
			}
			*args[0].(*value) = blsSigs{[]string{strings.ToLower(s)}}
			return iface{}
		}
		externals["(*"+bl+"ID).SetHexString"] = func(fr *frame, args []value) value {
			s, ok := args[1].(string)
			if !ok {
				panic(unsupported("bls.ID.SetHexString of a symbolic string"))
			}
			if _, err := hex.DecodeString(strings.Repeat("0", len(s)%2) + s); err != nil || s == "" {
				return fr.i.makeError("err blsIDSetHexStr " + s)
			}
			leaf := blsIDLeaf(*args[0].(*value))
			if leaf == nil {
				panic(unsupported("bls.ID.SetHexString: unexpected layout"))
			}
			leaf[0] = fr.i.p.internBlsID(s)
			return iface{}
		}
		externals["(*"+bl+"ID).GetHexString"] = func(fr *frame, args []value) value {
			return fr.i.p.blsIDString(*args[0].(*value))
		}
		externals["(*"+bl+"PublicKey).GetHexString"] = func(fr *frame, args []value) value { return "" }
		externals[dk+"GetPublicKeyByID"] = func(fr *frame, args []value) value {
			pkg := fr.i.prog.ImportedPackage(strings.TrimSuffix(bl, "."))
			return zero(pkg.Type("PublicKey").Type())
		}
		externals[dk+"VerifySignature"] = func(fr *frame, args []value) value {
			p := fr.i.p
			g, _ := groupOf(fr, args[0])
			m, ok := (*args[1].(*value)).(blsSigs)
			msg, isStr := args[2].(string)
			if !ok || len(m.sigs) != 1 || !isStr {
				panic(unsupported("bls.DKG.VerifySignature outside the model"))
			}
			rec, known := p.dkgShares[m.sigs[0]]
			if !known {
				return false
			}
			return rec.group == g && rec.id == p.blsIDString(args[3]) && rec.msg == msg
		}
		// what a miner does once the seed is known (propose / start verifying blocks) is outside the
		// seed derivation: environment stubs
		externals["(*0chain.net/miner.Chain).TryProposeBlock"] = func(fr *frame, args []value) value { return nil }
		externals["(*0chain.net/miner.Chain).StartVerification"] = func(fr *frame, args []value) value { return nil }
		externals[dk+"CalBlsGpSign"] = func(fr *frame, args []value) value {
			p := fr.i.p
			g, s := groupOf(fr, args[0])
			t := s[0].(int)
			sigs, _ := args[1].([]value)
			ids, _ := args[2].([]value)
			if len(sigs) == 0 || len(ids) == 0 {
				return tuple{blsSigs{}, fr.i.makeError("empty id or share")}
			}
			ok := len(sigs) == len(ids) && len(sigs) >= t
			seen := map[string]bool{}
			msg := ""
			parts := [][]byte{[]byte("unrecoverable")}
			for i := range sigs {
				sg, _ := sigs[i].(string)
				parts = append(parts, []byte(sg))
				if i >= len(ids) {
					continue
				}
				id := strings.ToLower(strings.TrimLeft(ids[i].(string), "0"))
				parts = append(parts, []byte(id))
				rec, known := p.dkgShares[strings.ToLower(sg)]
				if !known || rec.group != g || rec.id != id || seen[id] {
					ok = false
					continue
				}
				seen[id] = true
				if i == 0 || msg == "" {
					msg = rec.msg
				} else if msg != rec.msg {
					ok = false
				}
			}
			if !ok {
				return tuple{blsSigs{[]string{hex.EncodeToString(h256(parts...))}}, iface{}}
			}
			return tuple{blsSigs{[]string{hex.EncodeToString(h256([]byte(fmt.Sprintf("groupsig:%d:", g)), []byte(msg)))}}, iface{}}
		}
	})
}
