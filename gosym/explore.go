package main

// Depth-first exploration of a harness by re-execution under decision prefixes, farmed to
// parallel workers each owning one solver process.

import (
	"fmt"
	"go/token"
	"os"
	"runtime"
	"sort"
	"strings"
	"sync"
	"time"

	"golang.org/x/tools/go/ssa"
)

type ExploreConfig struct {
	Enc        Encoding
	Solver     string
	Workers    int
	MaxPaths   int
	StepBudget int64
	TimeoutMs  int
	Deadline   time.Time
	KeepScripts bool
	Trace      bool
	MapOrder   int
}

type ObAgg struct {
	Label   string            `json:"label"`
	Kind    string            `json:"kind"`
	Pos     string            `json:"pos"`
	Unsat   int               `json:"discharged"`
	Sat     int               `json:"violated"`
	Unknown int               `json:"unknown"`
	Model   map[string]string `json:"model,omitempty"`
	Decisions []int           `json:"decisions,omitempty"`
	Sched     []int           `json:"schedule,omitempty"`
	Detail  string            `json:"detail,omitempty"`
	Scripts []scriptRec       `json:"-"`
	Alts    []altModel        `json:"-"` // models of other violating paths (tried when the first does not replay)
}

type altModel struct {
	Model     map[string]string
	Decisions []int
	Sched     []int
}

type HarnessResult struct {
	Name       string
	Paths      int
	Infeasible int
	Aborted    map[string]int // message -> count (inconclusive paths)
	Obligations map[string]*ObAgg
	Covers     map[string]map[string]string
	Fns        map[string]bool
	Branches   int
	UnknownBranches int
	Steps      int64
	SolverQueries int
	SolverTime time.Duration
	Wall       time.Duration
	Incomplete string
	InitFailures map[string]bool
	Observes   map[string][]string // decision vector -> observations (first few)
	Notes      map[string]bool
	Assumptions []string
	CrossChecked int
	CrossUnknown int
}

func (h *HarnessResult) Inconclusive() bool {
	if h.Incomplete != "" || len(h.Aborted) > 0 {
		return true
	}
	for _, o := range h.Obligations {
		if o.Unknown > 0 {
			return true
		}
	}
	return false
}

type workItem struct{ prefix []int }

type scriptRec struct{ Text, Result string }

func explore(prog *ssa.Program, fn *ssa.Function, cfg ExploreConfig) *HarnessResult {
	t0 := time.Now()
	res := &HarnessResult{Name: fn.String(), Aborted: map[string]int{}, Obligations: map[string]*ObAgg{},
		Covers: map[string]map[string]string{}, Fns: map[string]bool{}, InitFailures: map[string]bool{}, Observes: map[string][]string{}, Notes: map[string]bool{}}
	var mu sync.Mutex
	cond := sync.NewCond(&mu)
	work := []workItem{{}}
	active := 0
	started := 0
	stop := false

	worker := func() {
		solver, err := NewSolver(cfg.Solver, cfg.TimeoutMs)
		if err != nil {
			mu.Lock()
			res.Incomplete = "cannot start solver: " + err.Error()
			stop = true
			cond.Broadcast()
			mu.Unlock()
			return
		}
		defer solver.Close()
		for {
			mu.Lock()
			for len(work) == 0 && active > 0 && !stop {
				cond.Wait()
			}
			if stop || (len(work) == 0 && active == 0) {
				cond.Broadcast()
				mu.Unlock()
				break
			}
			if started >= cfg.MaxPaths {
				res.Incomplete = fmt.Sprintf("path budget %d exhausted", cfg.MaxPaths)
				stop = true
				cond.Broadcast()
				mu.Unlock()
				break
			}
			if !cfg.Deadline.IsZero() && time.Now().After(cfg.Deadline) {
				res.Incomplete = "time budget exhausted"
				stop = true
				cond.Broadcast()
				mu.Unlock()
				break
			}
			it := work[len(work)-1]
			work = work[:len(work)-1]
			active++
			started++
			mu.Unlock()

			tp := time.Now()
			q0, st0 := solver.Queries, solver.Time
			p := runPath(prog, fn, cfg, solver, it.prefix, nil)
			if os.Getenv("VERIF_SLOW") != "" && time.Since(tp) > 2*time.Second {
				fmt.Fprintf(os.Stderr, "SLOW path %v: %v steps=%d queries=%d solver=%v end=%s %s\n", it.prefix, time.Since(tp), p.steps, solver.Queries-q0, solver.Time-st0, p.endKind, p.endMsg)
			}

			mu.Lock()
			active--
			res.Paths++
			res.Steps += p.steps
			res.Branches += p.branches
			res.UnknownBranches += p.unknownBranches
			for _, a := range p.alts {
				work = append(work, workItem{prefix: a})
			}
			switch p.endKind {
			case "infeasible":
				res.Infeasible++
			case "ok", "panic":
			default:
				res.Aborted[p.endKind+": "+p.endMsg]++
			}
			for _, ob := range p.obligations {
				k := ob.Kind + "|" + ob.Label + "|" + ob.Pos
				a := res.Obligations[k]
				if a == nil {
					a = &ObAgg{Label: ob.Label, Kind: ob.Kind, Pos: ob.Pos}
					res.Obligations[k] = a
				}
				switch ob.Result {
				case "unsat":
					a.Unsat++
				case "sat":
					a.Sat++
					if a.Model == nil {
						a.Model = ob.Model
						a.Decisions = ob.Decisions
						a.Sched = ob.Sched
					} else if len(a.Alts) < 12 && ob.Model != nil {
						a.Alts = append(a.Alts, altModel{ob.Model, ob.Decisions, ob.Sched})
					}
				default:
					a.Unknown++
					a.Detail = ob.Detail
				}
				if ob.Script != "" && len(a.Scripts) < 4 {
					a.Scripts = append(a.Scripts, scriptRec{ob.Script, ob.Result})
				}
			}
			for l, m := range p.covers {
				if _, ok := res.Covers[l]; !ok {
					res.Covers[l] = m
				}
			}
			for f := range p.fnsSeen {
				res.Fns[f.String()] = true
			}
			for _, f := range p.initFailures {
				res.InitFailures[f] = true
			}
			for _, n := range p.notes {
				res.Notes[n] = true
			}
			if len(res.Observes) < 8 && len(p.observes) > 0 {
				res.Observes[fmt.Sprint(p.decisions)] = p.observes
			}
			cond.Broadcast()
			mu.Unlock()
		}
		mu.Lock()
		res.SolverQueries += solver.Queries
		res.SolverTime += solver.Time
		mu.Unlock()
	}
	n := cfg.Workers
	if n <= 0 {
		n = runtime.NumCPU()
	}
	var wg sync.WaitGroup
	for w := 0; w < n; w++ {
		wg.Add(1)
		go func() { defer wg.Done(); worker() }()
	}
	wg.Wait()
	res.Wall = time.Since(t0)
	return res
}

type pathEnd struct {
	endKind string
	endMsg  string
}

// runPath executes fn once under the decision prefix (or, when concrete != nil, on a
// concrete input vector without a solver).
func runPath(prog *ssa.Program, fn *ssa.Function, cfg ExploreConfig, solver *Solver, prefix []int, concrete map[string]string) (p *Path) {
	return runPathSched(prog, fn, cfg, solver, prefix, concrete, nil)
}

func runPathSched(prog *ssa.Program, fn *ssa.Function, cfg ExploreConfig, solver *Solver, prefix []int, concrete map[string]string, sched []int) (p *Path) {
	p = &Path{schedReplay: sched,
		store: NewStore(), solver: solver, enc: cfg.Enc, prefix: prefix,
		stepBudget: cfg.StepBudget, covers: map[string]map[string]string{}, fnsSeen: map[*ssa.Function]bool{},
		locks: map[*value]*lockState{}, nondetSeq: map[string]int{}, stubs: map[string]value{},
		keepScripts: cfg.KeepScripts, concrete: concrete, wraps: map[*value]iface{}, mapOrder: cfg.MapOrder,
	}
	p.store.path = p
	if os.Getenv("VERIF_PROFILE") != "" && len(prefix) == 0 {
		p.profile = map[*ssa.Function]int{}
		defer func() {
			type kv struct {
				f *ssa.Function
				n int
			}
			var arr []kv
			for f, n := range p.profile {
				arr = append(arr, kv{f, n})
			}
			sort.Slice(arr, func(i, j int) bool { return arr[i].n > arr[j].n })
			for i := 0; i < len(arr) && i < 25; i++ {
				fmt.Fprintf(os.Stderr, "PROFILE %8d %s\n", arr[i].n, arr[i].f)
			}
		}()
	}
	if solver != nil {
		solver.Reset()
		p.em = NewEmitter(cfg.Enc, solver.Send)
	} else {
		p.em = NewEmitter(cfg.Enc, func(string) {})
	}
	i := &interpreter{prog: prog, globals: map[*ssa.Global]*value{}, p: p, inited: map[*ssa.Package]bool{}}
	if cfg.Trace {
		i.mode |= EnableTracing
	}
	if rt := prog.ImportedPackage("runtime"); rt != nil {
		i.runtimeErrorString = rt.Type("errorString").Object().Type()
	}
	p.endKind = "ok"
	defer func() {
		r := recover()
		if r == nil {
			return
		}
		for _, l := range p.coverPending {
			delete(p.covers, l)
		}
		p.coverPending = nil
		switch r := r.(type) {
		case pathAbort:
			p.endKind, p.endMsg = r.kind, r.msg
			if r.kind == "budget" && p.stepLimitObligation {
				p.endKind = "panic"
				p.failHere("termination within the step bound ("+r.fn+")", "unwind", "")
			}
		case unsupported:
			p.endKind, p.endMsg = "unsupported", string(r)
			if os.Getenv("VERIF_WHERE") != "" {
				p.endMsg += " @ " + clip(p.internalAt, 500)
			}
		case encErr:
			p.endKind, p.endMsg = "unsupported", string(r)
		case targetPanic:
			p.endKind = "panic"
			p.failHere("unexpected panic: "+clip(toString(r.v), 200)+" @ "+clip(p.internalAt, 300), "panic", "")
		case runtimeError:
			p.endKind = "panic"
			p.failHere("unexpected run-time panic: "+string(r)+" @ "+clip(p.internalAt, 400), "panic", "")
		case runtime.Error:
			msg := r.Error()
			if strings.Contains(msg, "interface conversion") || strings.Contains(msg, "reflect") {
				p.endKind, p.endMsg = "internal", clip(msg, 300)+" in "+p.internalAt
			} else {
				p.endKind = "panic"
				p.failHere("unexpected run-time panic: "+clip(msg, 200)+" @ "+clip(p.internalAt, 400), "panic", "")
			}
		default:
			p.endKind, p.endMsg = "internal", clip(fmt.Sprint(r), 300)+" in "+p.internalAt
		}
	}()
	if fn.Pkg != nil {
		i.ensureInit(fn.Pkg)
	}
	callSSA(i, nil, token.NoPos, fn, nil, nil)
	p.resolveCovers()
	return p
}

func clip(s string, n int) string {
	if len(s) > n {
		return s[:n] + "…"
	}
	return s
}

// failHere records a violated obligation at the current path condition.
func (p *Path) failHere(label, kind, pos string) {
	defer func() {
		if r := recover(); r != nil {
			// path became infeasible while recording; ignore
		}
	}()
	p.check(p.store.Bool(false), label, kind, pos)
}

func sortedKeys[V any](m map[string]V) []string {
	ks := make([]string, 0, len(m))
	for k := range m {
		ks = append(ks, k)
	}
	sort.Strings(ks)
	return ks
}
