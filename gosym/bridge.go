package main

// Native bridge: call a real Go function on concrete interpreter values via reflection.

import (
	"fmt"
	"go/types"
	"reflect"
)

var errorIface = reflect.TypeOf((*error)(nil)).Elem()
var emptyIface = reflect.TypeOf((*interface{})(nil)).Elem()

// toNative converts an interpreter value to a reflect.Value of Go type t.
func toNative(fr *frame, v value, t reflect.Type) reflect.Value {
	if isSym(v) {
		panic(unsupported("symbolic value passed to native function"))
	}
	switch t.Kind() {
	case reflect.Bool:
		return reflect.ValueOf(v.(bool)).Convert(t)
	case reflect.Int, reflect.Int8, reflect.Int16, reflect.Int32, reflect.Int64:
		return reflect.ValueOf(asInt64(v)).Convert(t)
	case reflect.Uint, reflect.Uint8, reflect.Uint16, reflect.Uint32, reflect.Uint64, reflect.Uintptr:
		return reflect.ValueOf(uint64(asInt64(v))).Convert(t)
	case reflect.Float64, reflect.Float32:
		switch f := v.(type) {
		case float64:
			return reflect.ValueOf(f).Convert(t)
		case float32:
			return reflect.ValueOf(f).Convert(t)
		}
	case reflect.String:
		return reflect.ValueOf(v.(string)).Convert(t)
	case reflect.Slice:
		s, _ := v.([]value)
		if s == nil {
			return reflect.Zero(t)
		}
		out := reflect.MakeSlice(t, len(s), len(s))
		for i := range s {
			out.Index(i).Set(toNative(fr, s[i], t.Elem()))
		}
		return out
	case reflect.Interface:
		if t == emptyIface {
			itf, ok := v.(iface)
			if !ok {
				return reflect.ValueOf(fmtArg(fr, iface{nil, v}))
			}
			x := fmtArg(fr, itf)
			if x == nil {
				return reflect.Zero(t)
			}
			return reflect.ValueOf(x)
		}
	}
	panic(unsupported(fmt.Sprintf("native bridge: cannot convert %T to %s", v, t)))
}

// fromNative converts a native result to an interpreter value of static type typ.
func fromNative(fr *frame, rv reflect.Value, typ types.Type) value {
	switch u := typ.Underlying().(type) {
	case *types.Basic:
		switch u.Kind() {
		case types.Bool:
			return rv.Bool()
		case types.String:
			return rv.String()
		case types.Float64:
			return rv.Float()
		case types.Float32:
			return float32(rv.Float())
		case types.Int, types.Int8, types.Int16, types.Int32, types.Int64:
			return goValueOfKind(u.Kind(), uint64(rv.Int()))
		case types.Uint, types.Uint8, types.Uint16, types.Uint32, types.Uint64, types.Uintptr:
			return goValueOfKind(u.Kind(), rv.Uint())
		}
	case *types.Slice:
		if rv.IsNil() {
			return []value(nil)
		}
		out := make([]value, rv.Len())
		for i := range out {
			out[i] = fromNative(fr, rv.Index(i), u.Elem())
		}
		return out
	case *types.Interface:
		if rv.IsNil() {
			return iface{}
		}
		if rv.Type().Implements(errorIface) {
			return fr.i.makeError(rv.Interface().(error).Error())
		}
	}
	panic(unsupported(fmt.Sprintf("native bridge: cannot convert result %s to %s", rv.Type(), typ)))
}

// bridge wraps a native function as an external.
func bridge(f interface{}) externalFn {
	fv := reflect.ValueOf(f)
	ft := fv.Type()
	return func(fr *frame, args []value) value {
		sig := fr.fn.Signature
		defer func() {
			if r := recover(); r != nil {
				if u, ok := r.(unsupported); ok {
					where := ""
					for f, n := fr.caller, 0; f != nil && n < 6; f, n = f.caller, n+1 {
						where += " <- " + f.fn.String()
					}
					panic(unsupported(string(u) + " (" + fr.fn.String() + where + ")"))
				}
				panic(r)
			}
		}()
		in := make([]reflect.Value, 0, len(args))
		for i, a := range args {
			var t reflect.Type
			if ft.IsVariadic() && i >= ft.NumIn()-1 {
				t = ft.In(ft.NumIn() - 1)
				if i == ft.NumIn()-1 {
					// the SSA call passes the variadic slice as one argument
					sl := toNative(fr, a, t)
					for j := 0; j < sl.Len(); j++ {
						in = append(in, sl.Index(j))
					}
					continue
				}
			} else {
				t = ft.In(i)
			}
			in = append(in, toNative(fr, a, t))
		}
		out := fv.Call(in)
		res := sig.Results()
		switch res.Len() {
		case 0:
			return nil
		case 1:
			return fromNative(fr, out[0], res.At(0).Type())
		}
		tup := make(tuple, res.Len())
		for i := range tup {
			tup[i] = fromNative(fr, out[i], res.At(i).Type())
		}
		return tup
	}
}

// makeError builds an interpreter-level error value (*errors.errorString).
func (i *interpreter) makeError(msg string) value {
	pkg := i.prog.ImportedPackage("errors")
	if pkg == nil {
		panic(unsupported("errors package not loaded"))
	}
	t := pkg.Type("errorString").Type()
	var cell value = structure{msg}
	return iface{t: types.NewPointer(t), v: &cell}
}

// ---- fmt argument conversion ----

type fmtShim struct {
	text string
	num  interface{}
}

func (s fmtShim) Format(f fmt.State, verb rune) {
	switch verb {
	case 'v', 's':
		fmt.Fprint(f, s.text)
	case 'q':
		fmt.Fprintf(f, "%q", s.text)
	default:
		if s.num != nil {
			fmt.Fprintf(f, fmt.FormatString(f, verb), s.num)
		} else {
			fmt.Fprint(f, s.text)
		}
	}
}

func callMethodByName(fr *frame, itf iface, name string) (value, bool) {
	if itf.t == nil {
		return nil, false
	}
	ms := fr.i.prog.MethodSets.MethodSet(itf.t)
	for k := 0; k < ms.Len(); k++ {
		sel := ms.At(k)
		if sel.Obj().Name() == name {
			sig := sel.Type().(*types.Signature)
			if sig.Params().Len() != 0 || sig.Results().Len() != 1 {
				return nil, false
			}
			fn := fr.i.prog.MethodValue(sel)
			if fn == nil {
				return nil, false
			}
			if p, ok := itf.v.(*value); ok && p == nil {
				return nil, false
			}
			return call(fr.i, fr, fr.callpos, fn, []value{itf.v}), true
		}
	}
	return nil, false
}

// fmtArg converts an interface-typed interpreter value into something fmt can print.
func fmtArg(fr *frame, itf iface) interface{} {
	v := itf.v
	if itf.t == nil && v == nil {
		return nil
	}
	if s, ok := v.(sv); ok {
		if s.t.kind == KInt || s.t.kind == KWide {
			return fmtShim{text: fr.i.p.symMarker(s.t)}
		}
		return fmtShim{text: "<sym " + s.t.String() + ">"}
	}
	if itf.t != nil {
		if r, ok := callMethodByName(fr, itf, "Error"); ok {
			if s, ok := r.(string); ok {
				return fmtShim{text: s, num: plainNative(v)}
			}
		}
		if r, ok := callMethodByName(fr, itf, "String"); ok {
			if s, ok := r.(string); ok {
				return fmtShim{text: s, num: plainNative(v)}
			}
		}
	}
	return plainNative(v)
}

func plainNative(v value) interface{} {
	switch v := v.(type) {
	case bool, int, int8, int16, int32, int64, uint, uint8, uint16, uint32, uint64, uintptr, float32, float64, string:
		return v
	case sv:
		return fmtShim{text: "<sym " + v.t.String() + ">"}
	case []value:
		allBytes := len(v) > 0
		for _, e := range v {
			if _, ok := e.(uint8); !ok {
				allBytes = false
				break
			}
		}
		if allBytes {
			b := make([]byte, len(v))
			for i, e := range v {
				b[i] = e.(uint8)
			}
			return b
		}
		out := make([]interface{}, len(v))
		for i, e := range v {
			out[i] = plainNative(e)
		}
		return out
	case iface:
		if v.t == nil {
			return nil
		}
		return plainNative(v.v)
	case *value:
		if v == nil {
			return nil
		}
		return fmtShim{text: "&" + toString(*v)}
	case nil:
		return nil
	}
	return fmtShim{text: toString(v)}
}
