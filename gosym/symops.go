package main

// Symbolic leaves of the interpreter: integers, booleans and float64 whose value is a Term.

import (
	"fmt"
	"go/token"
	"go/types"
)

// sv is a symbolic leaf value.
type sv struct{ t *Term }

func isSym(x value) bool { _, ok := x.(sv); return ok }

// unsupported aborts the current path as inconclusive (never "held").
type unsupported string

func (u unsupported) Error() string { return "unsupported: " + string(u) }

// runtimeError models a Go run-time panic of the target program.
type runtimeError string

func (e runtimeError) Error() string { return "runtime error: " + string(e) }
func (e runtimeError) RuntimeError() {}

func mustDeref(t types.Type) types.Type {
	if p, ok := t.Underlying().(*types.Pointer); ok {
		return p.Elem()
	}
	panic(fmt.Sprintf("mustDeref: %s is not a pointer", t))
}

func isZeroInt(y value) bool {
	switch y := y.(type) {
	case int:
		return y == 0
	case int8:
		return y == 0
	case int16:
		return y == 0
	case int32:
		return y == 0
	case int64:
		return y == 0
	case uint:
		return y == 0
	case uint8:
		return y == 0
	case uint16:
		return y == 0
	case uint32:
		return y == 0
	case uint64:
		return y == 0
	case uintptr:
		return y == 0
	}
	return false
}

// toTerm lifts a concrete leaf into the store st.
func toTerm(st *Store, x value) *Term {
	switch x := x.(type) {
	case sv:
		return x.t
	case bool:
		return st.Bool(x)
	case int:
		return st.Int(uint64(x), 64, true)
	case int8:
		return st.Int(uint64(x), 8, true)
	case int16:
		return st.Int(uint64(x), 16, true)
	case int32:
		return st.Int(uint64(x), 32, true)
	case int64:
		return st.Int(uint64(x), 64, true)
	case uint:
		return st.Int(uint64(x), 64, false)
	case uint8:
		return st.Int(uint64(x), 8, false)
	case uint16:
		return st.Int(uint64(x), 16, false)
	case uint32:
		return st.Int(uint64(x), 32, false)
	case uint64:
		return st.Int(x, 64, false)
	case uintptr:
		return st.Int(uint64(x), 64, false)
	case float64:
		return st.F64(x)
	case float32:
		panic(unsupported("float32 in a symbolic operation"))
	}
	panic(unsupported(fmt.Sprintf("cannot lift %T into a term", x)))
}

// fromTerm lowers a constant term to the Go value of basic kind described by (bits, signed);
// non-constant terms stay symbolic.
func fromTerm(t *Term, like value) value {
	if !t.isConst() {
		return sv{t}
	}
	switch t.kind {
	case KBool:
		return t.boolVal()
	case KF64:
		return t.f64Val()
	case KInt:
		// recover the precise Go type from `like` when it has the same shape, else by width
		if like != nil {
			switch like.(type) {
			case int:
				if t.bits == 64 && t.signed {
					return int(sval(t.c, 64))
				}
			case uint:
				if t.bits == 64 && !t.signed {
					return uint(t.c)
				}
			case uintptr:
				if t.bits == 64 && !t.signed {
					return uintptr(t.c)
				}
			}
		}
		if t.signed {
			switch t.bits {
			case 8:
				return int8(sval(t.c, 8))
			case 16:
				return int16(sval(t.c, 16))
			case 32:
				return int32(sval(t.c, 32))
			default:
				return int64(t.c)
			}
		}
		switch t.bits {
		case 8:
			return uint8(t.c)
		case 16:
			return uint16(t.c)
		case 32:
			return uint32(t.c)
		default:
			return t.c
		}
	}
	return sv{t}
}

// kindOfBasic maps a Go basic kind to term shape.
func shapeOf(b *types.Basic) (kind Kind, bits uint8, signed bool, ok bool) {
	switch b.Kind() {
	case types.Bool, types.UntypedBool:
		return KBool, 0, false, true
	case types.Int, types.Int64, types.UntypedInt:
		return KInt, 64, true, true
	case types.Int8:
		return KInt, 8, true, true
	case types.Int16:
		return KInt, 16, true, true
	case types.Int32, types.UntypedRune:
		return KInt, 32, true, true
	case types.Uint, types.Uint64, types.Uintptr:
		return KInt, 64, false, true
	case types.Uint8:
		return KInt, 8, false, true
	case types.Uint16:
		return KInt, 16, false, true
	case types.Uint32:
		return KInt, 32, false, true
	case types.Float64, types.UntypedFloat:
		return KF64, 0, false, true
	}
	return 0, 0, false, false
}

// goValueOfKind converts a uint64 raw value to the Go value of basic kind k.
func goValueOfKind(k types.BasicKind, raw uint64) value {
	switch k {
	case types.Int:
		return int(raw)
	case types.Int8:
		return int8(raw)
	case types.Int16:
		return int16(raw)
	case types.Int32:
		return int32(raw)
	case types.Int64:
		return int64(raw)
	case types.Uint:
		return uint(raw)
	case types.Uint8:
		return uint8(raw)
	case types.Uint16:
		return uint16(raw)
	case types.Uint32:
		return uint32(raw)
	case types.Uint64:
		return raw
	case types.Uintptr:
		return uintptr(raw)
	}
	panic(fmt.Sprintf("goValueOfKind %v", k))
}

// lower returns a concrete Go value typed by t when the term is constant.
func lower(t *Term, typ types.Type) value {
	if !t.isConst() {
		return sv{t}
	}
	if typ != nil {
		if b, ok := typ.Underlying().(*types.Basic); ok {
			switch t.kind {
			case KBool:
				return t.boolVal()
			case KF64:
				if b.Kind() == types.Float32 {
					return float32(t.f64Val())
				}
				return t.f64Val()
			case KInt:
				k := b.Kind()
				if k == types.UntypedInt {
					k = types.Int
				}
				if k == types.UntypedRune {
					k = types.Int32
				}
				raw := t.c
				if t.signed {
					raw = uint64(sval(t.c, t.bits))
				}
				return goValueOfKind(k, raw)
			}
		}
	}
	return fromTerm(t, nil)
}

func storeOf(x, y value) *Store {
	if s, ok := x.(sv); ok {
		return s.t.store
	}
	return y.(sv).t.store
}

func symBinop(op token.Token, t types.Type, x, y value) value {
	st := storeOf(x, y)
	p := st.path
	a := toTerm(st, x)
	var b *Term
	switch op {
	case token.SHL, token.SHR:
		b = toTerm(st, y)
		if b.kind != KInt {
			panic(unsupported("shift count"))
		}
		if b.signed {
			// negative shift count panics
			neg := st.Lt(b, st.Int(0, b.bits, true))
			if p.branch(neg) {
				panic(runtimeError("negative shift amount"))
			}
			b = st.Conv(b, b.bits, false)
		}
		if !b.isConst() {
			// saturate count comparison: any count >= bits gives 0 / sign fill; encode by ite
			big := st.Le(st.Int(uint64(a.bits), b.bits, false), b)
			var res *Term
			o := OShl
			if op == token.SHR {
				o = OShr
			}
			bb := st.Conv(b, a.bits, false)
			inr := st.Bin(o, a, bb)
			var over *Term
			if op == token.SHR && a.signed {
				over = st.Bin(OShr, a, st.Int(uint64(a.bits-1), a.bits, false))
			} else {
				over = st.Int(0, a.bits, a.signed)
			}
			res = st.Ite(big, over, inr)
			return lower(res, t)
		}
		o := OShl
		if op == token.SHR {
			o = OShr
		}
		return lower(st.Bin(o, a, b), t)
	}
	b = toTerm(st, y)
	if a.kind == KF64 {
		switch op {
		case token.ADD:
			return lower(st.FBin(OFAdd, a, b), t)
		case token.SUB:
			return lower(st.FBin(OFSub, a, b), t)
		case token.MUL:
			return lower(st.FBin(OFMul, a, b), t)
		case token.QUO:
			if q := st.path.fdivCut(a, b); q != nil {
				return lower(q, t)
			}
			return lower(st.FBin(OFDiv, a, b), t)
		case token.LSS:
			return lower(st.Lt(a, b), nil)
		case token.LEQ:
			return lower(st.Le(a, b), nil)
		case token.GTR:
			return lower(st.Lt(b, a), nil)
		case token.GEQ:
			return lower(st.Le(b, a), nil)
		case token.EQL:
			return lower(st.Eq(a, b), nil)
		case token.NEQ:
			return lower(st.Not(st.Eq(a, b)), nil)
		}
		panic(unsupported("float operation " + op.String()))
	}
	if a.kind == KBool {
		switch op {
		case token.EQL:
			return lower(st.Eq(a, b), nil)
		case token.NEQ:
			return lower(st.Not(st.Eq(a, b)), nil)
		case token.AND, token.LAND:
			return lower(st.And(a, b), nil)
		case token.OR, token.LOR:
			return lower(st.Or(a, b), nil)
		}
		panic(unsupported("bool operation " + op.String()))
	}
	if a.bits != b.bits || a.signed != b.signed {
		panic(fmt.Sprintf("symBinop: operand shapes differ: %v %s %v", a, op, b))
	}
	switch op {
	case token.ADD:
		return lower(st.Bin(OAdd, a, b), t)
	case token.SUB:
		return lower(st.Bin(OSub, a, b), t)
	case token.MUL:
		return lower(st.Bin(OMul, a, b), t)
	case token.QUO, token.REM:
		if !b.isConst() {
			if p.branch(st.Eq(b, st.Int(0, b.bits, b.signed))) {
				panic(runtimeError("integer divide by zero"))
			}
		} else if b.c == 0 {
			panic(runtimeError("integer divide by zero"))
		}
		if op == token.QUO {
			return lower(st.Bin(ODiv, a, b), t)
		}
		return lower(st.Bin(ORem, a, b), t)
	case token.AND:
		return lower(st.Bin(OAnd, a, b), t)
	case token.OR:
		return lower(st.Bin(OOr, a, b), t)
	case token.XOR:
		return lower(st.Bin(OXor, a, b), t)
	case token.AND_NOT:
		return lower(st.Bin(OAndNot, a, b), t)
	case token.LSS:
		return lower(st.Lt(a, b), nil)
	case token.LEQ:
		return lower(st.Le(a, b), nil)
	case token.GTR:
		return lower(st.Lt(b, a), nil)
	case token.GEQ:
		return lower(st.Le(b, a), nil)
	case token.EQL:
		return lower(st.Eq(a, b), nil)
	case token.NEQ:
		return lower(st.Not(st.Eq(a, b)), nil)
	}
	panic(unsupported("symbolic binary op " + op.String()))
}

func symUnop(op token.Token, x sv) value {
	st := x.t.store
	switch op {
	case token.SUB:
		if x.t.kind == KF64 {
			return lower(st.FNeg(x.t), nil)
		}
		return sv{st.Neg(x.t)}
	case token.NOT:
		return lower(st.Not(x.t), nil)
	case token.XOR:
		return sv{st.BNot(x.t)}
	}
	panic(unsupported("symbolic unary op " + op.String()))
}

func symNot(x value) value {
	switch x := x.(type) {
	case bool:
		return !x
	case sv:
		return lower(x.t.store.Not(x.t), nil)
	}
	panic("symNot")
}

func symIte(c value, x, y value) value {
	switch c := c.(type) {
	case bool:
		if c {
			return x
		}
		return y
	case sv:
		st := c.t.store
		return lower(st.Ite(c.t, toTerm(st, x), toTerm(st, y)), nil)
	}
	panic("symIte")
}

// symEq is == for any comparable type; the result is a bool or a symbolic bool.
func symEq(t types.Type, x, y value) value {
	if !containsSym(x) && !containsSym(y) {
		return eqnil(t, x, y)
	}
	return deepEq(t, x, y)
}

func containsSym(x value) bool {
	switch x := x.(type) {
	case sv:
		return true
	case structure:
		for _, e := range x {
			if containsSym(e) {
				return true
			}
		}
	case array:
		for _, e := range x {
			if containsSym(e) {
				return true
			}
		}
	case iface:
		return containsSym(x.v)
	}
	return false
}

func andV(a, b value) value {
	if ab, ok := a.(bool); ok {
		if !ab {
			return false
		}
		return b
	}
	if bb, ok := b.(bool); ok {
		if !bb {
			return false
		}
		return a
	}
	st := a.(sv).t.store
	return lower(st.And(a.(sv).t, b.(sv).t), nil)
}

func deepEq(t types.Type, x, y value) value {
	switch x := x.(type) {
	case structure:
		y := y.(structure)
		var ts *types.Struct
		if t != nil {
			ts, _ = t.Underlying().(*types.Struct)
		}
		var r value = true
		for i := range x {
			var ft types.Type
			if ts != nil {
				if ts.Field(i).Name() == "_" {
					continue
				}
				ft = ts.Field(i).Type()
			}
			r = andV(r, deepEq(ft, x[i], y[i]))
			if rb, ok := r.(bool); ok && !rb {
				return false
			}
		}
		return r
	case array:
		y := y.(array)
		var et types.Type
		if t != nil {
			et = t.Underlying().(*types.Array).Elem()
		}
		var r value = true
		for i := range x {
			r = andV(r, deepEq(et, x[i], y[i]))
		}
		return r
	case iface:
		y := y.(iface)
		if !sameType(x.t, y.t) {
			return false
		}
		if x.t == nil {
			return true
		}
		return deepEq(x.t, x.v, y.v)
	}
	if isSym(x) || isSym(y) {
		st := storeOf(x, y)
		return lower(st.Eq(toTerm(st, x), toTerm(st, y)), nil)
	}
	return eqnil(t, x, y)
}

func symConv(utDst, utSrc types.Type, x sv) value {
	st := x.t.store
	bd, ok := utDst.(*types.Basic)
	if !ok {
		panic(unsupported("conversion of a symbolic value to " + utDst.String()))
	}
	kind, bits, signed, ok := shapeOf(bd)
	if !ok {
		panic(unsupported("conversion of a symbolic value to " + utDst.String()))
	}
	switch x.t.kind {
	case KInt:
		switch kind {
		case KInt:
			return sv{st.Conv(x.t, bits, signed)}
		case KF64:
			return sv{st.I2F(x.t)}
		}
	case KF64:
		switch kind {
		case KF64:
			return x
		case KInt:
			return sv{st.path.f2i(x.t, bits, signed)}
		}
	case KBool:
		if kind == KBool {
			return x
		}
	}
	panic(unsupported(fmt.Sprintf("symbolic conversion %s -> %s", utSrc, utDst)))
}

// concretizeIdx turns a symbolic index/bound into a concrete int by forking over 0..max.
func concretizeIdx(x value, max int64) value {
	s, ok := x.(sv)
	if !ok {
		return x
	}
	return s.t.store.path.concretize(s.t, 0, max)
}
