package main

// Ideal signature model for 0chain's SignatureScheme implementations (BLS0Chain via cgo,
// ED25519): keys are opaque byte strings, the signature of hash h under public key pk is
// H("sig"|pk|h), Verify recomputes it. Correctness of the primitives is assumed (C47 n/a);
// natively the harness runs the real schemes.

import (
	"encoding/hex"
	"fmt"
	"go/types"
	"math/big"
	"sort"
	"strconv"
	"strings"

	"golang.org/x/crypto/sha3"
)

func h256(parts ...[]byte) []byte {
	h := sha3.New256()
	for _, p := range parts {
		h.Write(p)
	}
	return h.Sum(nil)
}

func rawHashArg(fr *frame, v value) ([]byte, value) {
	it := v.(iface)
	switch x := it.v.(type) {
	case string:
		b, err := hex.DecodeString(x)
		if err != nil {
			return nil, fr.i.makeError(err.Error())
		}
		return b, nil
	case []value:
		return valuesToBytes(x), nil
	}
	panic(targetPanic{iface{types.Typ[types.String], "unknown hash type"}})
}

func init() {
	extraRegs = append(extraRegs, func() {
		for _, ty := range []string{"BLS0ChainScheme", "ED25519Scheme", "BLS0ChainThresholdScheme"} {
			recv := "(*0chain.net/core/encryption." + ty + ")."
			fields := func(args []value) structure {
				s := (*args[0].(*value)).(structure)
				if ty == "BLS0ChainThresholdScheme" {
					// embeds BLS0ChainScheme as field 0
					return s[0].(structure)
				}
				return s
			}
			externals[recv+"GenerateKeys"] = func(fr *frame, args []value) value {
				p := fr.i.p
				p.keyCounter++
				priv := h256([]byte(fmt.Sprintf("verif-priv-%d", p.keyCounter)))
				pub := h256([]byte("pub:"), priv)
				s := fields(args)
				s[0] = bytesToValues(priv)
				s[1] = bytesToValues(pub)
				return iface{}
			}
			externals[recv+"SetPublicKey"] = func(fr *frame, args []value) value {
				s := fields(args)
				if cur, _ := s[0].([]value); len(cur) > 0 {
					return fr.i.makeError("cannot set public key when there is a private key")
				}
				b, err := hex.DecodeString(args[1].(string))
				if err != nil || len(b) == 0 {
					return fr.i.makeError("invalid public key")
				}
				s[1] = bytesToValues(b)
				return iface{}
			}
			externals[recv+"GetPublicKey"] = func(fr *frame, args []value) value {
				s := fields(args)
				b, _ := s[1].([]value)
				return hex.EncodeToString(valuesToBytes(b))
			}
			externals[recv+"Sign"] = func(fr *frame, args []value) value {
				s := fields(args)
				priv, _ := s[0].([]value)
				if len(priv) == 0 {
					return tuple{"", fr.i.makeError("private key does not exists for signing")}
				}
				h, e := rawHashArg(fr, args[1])
				if e != nil {
					return tuple{"", e}
				}
				pub, _ := s[1].([]value)
				sig := hex.EncodeToString(h256([]byte("sig"), valuesToBytes(pub), h))
				if fr.i.p.sigs == nil {
					fr.i.p.sigs = map[string][2]string{}
				}
				fr.i.p.sigs[sig] = [2]string{hex.EncodeToString(valuesToBytes(pub)), hex.EncodeToString(h)}
				return tuple{sig, iface{}}
			}
			externals[recv+"Verify"] = func(fr *frame, args []value) value {
				s := fields(args)
				pub, _ := s[1].([]value)
				sig := args[1].(string)
				if _, err := hex.DecodeString(sig); err != nil || sig == "" {
					return tuple{false, fr.i.makeError("invalid signature encoding")}
				}
				h, err := hex.DecodeString(args[2].(string))
				if err != nil {
					return tuple{false, fr.i.makeError(err.Error())}
				}
				// a signature produced in this run verifies iff the key is the signing key and the
				// message equals the signed message SEMANTICALLY (hashes of data with symbolic
				// parts are compared through their preimages, symstr.go)
				if rec, ok := fr.i.p.sigs[strings.ToLower(sig)]; ok { // hex decoding ignores case
					if rec[0] != hex.EncodeToString(valuesToBytes(pub)) {
						return tuple{false, iface{}}
					}
					return tuple{strEqValue(fr, rec[1], hex.EncodeToString(h)), iface{}}
				}
				return tuple{sig == hex.EncodeToString(h256([]byte("sig"), valuesToBytes(pub), h)), iface{}}
			}
		}
	})
}

// ---- leaf model of the herumi BLS group types used by the Go aggregate-verification code ----
//
// BLS0ChainAggregateSignatureScheme.{Aggregate,Verify} (Go code, executed for real) add
// signatures (bls.Sign.Add), multiply pairings (bls.GTMul) and compare one pairing of the sum
// with the product. The library objects are replaced by lists:
//   a Sign / G1 value  = list of signature strings (their group sum),
//   a GT value         = list of (public key, message hash) pairs (the product of e(H(m), pk)),
// and GT.IsEqual(pairing(sum of sigs), product) holds iff the lists have equal length and
// every signature is individually valid for the pair at the same position ("ideal aggregate":
// the cancellation of invalid signatures is excluded here; it is C32's subject).

type blsPub struct{ raw []byte } // a deserialised public key: its canonical bytes

type blsSigs struct{ sigs []string }
type blsPairs struct{ pairs [][2]string } // (pub hex, hash hex)

func idealVerify(fr *frame, pubHex, sig, hashHex string) value {
	if rec, ok := fr.i.p.sigs[strings.ToLower(sig)]; ok {
		if rec[0] != pubHex {
			return false
		}
		return strEqValue(fr, rec[1], hashHex)
	}
	h, err := hex.DecodeString(hashHex)
	if err != nil {
		return false
	}
	pub, _ := hex.DecodeString(pubHex)
	return strings.ToLower(sig) == hex.EncodeToString(h256([]byte("sig"), pub, h))
}

func init() {
	extraRegs = append(extraRegs, func() {
		enc := "(*0chain.net/core/encryption.BLS0ChainScheme)."
		bl := "github.com/herumi/bls-go-binary/bls."
		externals[enc+"GetSignature"] = func(fr *frame, args []value) value {
			sig := args[1].(string)
			var nilp *value
			if sig == "" {
				return tuple{nilp, fr.i.makeError("empty signature")}
			}
			if _, err := hex.DecodeString(sig); err != nil {
				return tuple{nilp, fr.i.makeError("invalid signature encoding")}
			}
			var cell value = blsSigs{[]string{sig}}
			return tuple{&cell, iface{}}
		}
		externals[enc+"PairMessageHash"] = func(fr *frame, args []value) value {
			s := (*args[0].(*value)).(structure)
			pub, _ := s[1].([]value)
			var nilp *value
			if _, err := hex.DecodeString(args[1].(string)); err != nil {
				return tuple{nilp, fr.i.makeError(err.Error())}
			}
			var cell value = blsPairs{[][2]string{{hex.EncodeToString(valuesToBytes(pub)), args[1].(string)}}}
			return tuple{&cell, iface{}}
		}
		// public keys: (de)serialisation is the identity on the canonical bytes
		externals["(*"+bl+"PublicKey).DeserializeHexStr"] = func(fr *frame, args []value) value {
			s, ok := args[1].(string)
			if !ok || strings.Contains(s, symMarkOpen) {
				panic(unsupported("bls.PublicKey.DeserializeHexStr of a symbolic string"))
			}
			raw, err := hex.DecodeString(s)
			if err != nil || len(raw) == 0 {
				return fr.i.makeError("err blsPublicKeyDeserialize " + s)
			}
			*args[0].(*value) = blsPub{raw}
			return iface{}
		}
		externals["(*"+bl+"PublicKey).Serialize"] = func(fr *frame, args []value) value {
			m, ok := (*args[0].(*value)).(blsPub)
			if !ok {
				panic(unsupported("bls.PublicKey.Serialize of a key that was not deserialised in the model"))
			}
			out := make([]value, len(m.raw))
			for i, b := range m.raw {
				out[i] = b
			}
			return out
		}
		externals["(*"+bl+"Sign).Add"] = func(fr *frame, args []value) value {
			a := (*args[0].(*value)).(blsSigs)
			b := (*args[1].(*value)).(blsSigs)
			*args[0].(*value) = blsSigs{append(append([]string{}, a.sigs...), b.sigs...)}
			return nil
		}
		externals[bl+"GTMul"] = func(fr *frame, args []value) value {
			b := (*args[1].(*value)).(blsPairs)
			c := (*args[2].(*value)).(blsPairs)
			*args[0].(*value) = blsPairs{append(append([][2]string{}, b.pairs...), c.pairs...)}
			return nil
		}
		externals["(*"+bl+"Sign).Serialize"] = func(fr *frame, args []value) value {
			return []value{*args[0].(*value)}
		}
		externals["(*"+bl+"G1).Deserialize"] = func(fr *frame, args []value) value {
			b := args[1].([]value)
			if len(b) == 1 {
				if m, ok := b[0].(blsSigs); ok {
					*args[0].(*value) = m
					return iface{}
				}
			}
			panic(unsupported("bls.G1.Deserialize of bytes that are not a modelled signature sum"))
		}
		externals[bl+"Pairing"] = func(fr *frame, args []value) value {
			m, ok := (*args[1].(*value)).(blsSigs)
			if !ok {
				panic(unsupported("bls.Pairing outside the aggregate-verification model"))
			}
			*args[0].(*value) = m
			return nil
		}
		externals["(*"+bl+"GT).IsEqual"] = func(fr *frame, args []value) value {
			l, ok1 := (*args[0].(*value)).(blsSigs)
			r, ok2 := (*args[1].(*value)).(blsPairs)
			if !ok1 || !ok2 {
				panic(unsupported("bls.GT.IsEqual outside the aggregate-verification model"))
			}
			if len(l.sigs) != len(r.pairs) {
				return false
			}
			var res value = true
			for i := range l.sigs {
				res = andV(res, idealVerify(fr, r.pairs[i][0], l.sigs[i], r.pairs[i][1]))
			}
			return res
		}
	})
}

// ---- ideal threshold signatures (BLS0GenerateThresholdKeyShares / Reconstruct) ----
//
// A threshold group is (group public key, t, share public keys with ids 1..n). A share
// signature is the ideal signature under the share's key. Recover over k signatures succeeds
// with the GROUP's ideal signature on the message iff every signature is a registered share
// signature of the same group on the same message, under the id it was added with, the ids are
// distinct and k >= t; otherwise it yields a string that verifies under no key. Correctness of
// the real Lagrange recovery is assumed (C34 is not applicable to this technique).

type thShare struct {
	group string // group public key hex
	t     int
	id    string
}

func init() {
	extraRegs = append(extraRegs, func() {
		encPkg := "0chain.net/core/encryption"
		bl := "github.com/herumi/bls-go-binary/bls."
		externals[encPkg+".BLS0GenerateThresholdKeyShares"] = func(fr *frame, args []value) value {
			p := fr.i.p
			t, n := args[0].(int), args[1].(int)
			orig := args[2].(iface)
			os, ok := (*orig.v.(*value)).(structure)
			if !ok {
				panic(unsupported("GenerateThresholdKeyShares: unexpected original key"))
			}
			gpub, _ := os[1].([]value)
			group := hex.EncodeToString(valuesToBytes(gpub))
			pkg := fr.i.prog.ImportedPackage(encPkg)
			ctor := pkg.Func("NewBLS0ChainThresholdScheme")
			ptrT := ctor.Signature.Results().At(0).Type()
			if p.thShares == nil {
				p.thShares = map[string]thShare{}
			}
			var out []value
			for i := 1; i <= n; i++ {
				sp := call(fr.i, fr, fr.callpos, ctor, nil).(*value)
				s := (*sp).(structure)
				inner := s[0].(structure)
				p.keyCounter++
				priv := h256([]byte(fmt.Sprintf("verif-priv-%d", p.keyCounter)))
				pub := h256([]byte("pub:"), priv)
				inner[0] = bytesToValues(priv)
				inner[1] = bytesToValues(pub)
				id := fmt.Sprintf("%x", i)
				setBlsID(s[1], id)
				p.thShares[hex.EncodeToString(pub)] = thShare{group, t, id}
				out = append(out, iface{t: ptrT, v: sp})
			}
			return tuple{out, iface{}}
		}
		recv := "(*" + encPkg + ".BLS0ChainThresholdScheme)."
		externals[recv+"SetID"] = func(fr *frame, args []value) value {
			s := (*args[0].(*value)).(structure)
			if !setBlsID(s[1], args[1].(string)) {
				return fr.i.makeError("err blsIDSetHexStr")
			}
			return iface{}
		}
		externals[recv+"GetID"] = func(fr *frame, args []value) value {
			s := (*args[0].(*value)).(structure)
			return getBlsID(s[1])
		}
		externals["(*"+encPkg+".BLS0ChainReconstruction).Add"] = func(fr *frame, args []value) value {
			rec := (*args[0].(*value)).(structure)
			tss := args[1].(iface)
			ts, ok := (*tss.v.(*value)).(structure)
			if !ok || len(ts) != 2 {
				return fr.i.makeError("invalid signature scheme")
			}
			sig := args[2].(string)
			if sig == "" {
				return fr.i.makeError("empty signature")
			}
			if _, err := hex.DecodeString(sig); err != nil {
				return fr.i.makeError("invalid signature encoding")
			}
			ids, _ := rec[2].([]value)
			sigs, _ := rec[3].([]value)
			rec[2] = append(append([]value{}, ids...), cpPlain(ts[1]))
			rec[3] = append(append([]value{}, sigs...), blsSigs{[]string{sig}})
			return iface{}
		}
		externals["(*"+bl+"Sign).Recover"] = func(fr *frame, args []value) value {
			p := fr.i.p
			sigs, _ := args[1].([]value)
			ids, _ := args[2].([]value)
			garbage := func() value {
				parts := [][]byte{[]byte("unrecoverable")}
				for _, s := range sigs {
					if m, ok := s.(blsSigs); ok && len(m.sigs) == 1 {
						parts = append(parts, []byte(m.sigs[0]))
					}
				}
				*args[0].(*value) = blsSigs{[]string{hex.EncodeToString(h256(parts...))}}
				return iface{}
			}
			if len(sigs) == 0 || len(sigs) != len(ids) {
				return fr.i.makeError("err blsSignatureRecover")
			}
			seen := map[string]bool{}
			var group, msg string
			tNeed := 0
			ok := true
			for i := range sigs {
				m, isM := sigs[i].(blsSigs)
				id := getBlsID(ids[i])
				isS := id != ""
				if !isM || !isS || len(m.sigs) != 1 {
					panic(unsupported("bls.Sign.Recover outside the threshold model"))
				}
				if seen[id] {
					return fr.i.makeError("err blsSignatureRecover: duplicate id")
				}
				seen[id] = true
				rec, known := p.sigs[strings.ToLower(m.sigs[0])]
				if !known {
					ok = false
					continue
				}
				sh, isShare := p.thShares[rec[0]]
				if !isShare || sh.id != id {
					ok = false
					continue
				}
				if group == "" {
					group, msg, tNeed = sh.group, rec[1], sh.t
				} else if group != sh.group || msg != rec[1] {
					ok = false
				}
			}
			if !ok || group == "" || len(sigs) < tNeed {
				return garbage()
			}
			gp, _ := hex.DecodeString(group)
			h, _ := hex.DecodeString(msg)
			sig := hex.EncodeToString(h256([]byte("sig"), gp, h))
			p.sigs[sig] = [2]string{group, msg}
			*args[0].(*value) = blsSigs{[]string{sig}}
			return iface{}
		}
		externals["(*"+bl+"Sign).SerializeToHexStr"] = func(fr *frame, args []value) value {
			m, ok := (*args[0].(*value)).(blsSigs)
			if !ok || len(m.sigs) != 1 {
				panic(unsupported("bls.Sign.SerializeToHexStr outside the model"))
			}
			return m.sigs[0]
		}
	})
}

// bls.ID (nested C structs ending in a uint64 array) carries the id as a number in its first word.
func blsIDLeaf(v value) array {
	for {
		switch x := v.(type) {
		case structure:
			if len(x) == 0 {
				return nil
			}
			v = x[0]
		case array:
			return x
		default:
			return nil
		}
	}
}

func setBlsID(v value, hexID string) bool {
	n, err := strconv.ParseUint(hexID, 16, 64)
	leaf := blsIDLeaf(v)
	if err != nil || leaf == nil || len(leaf) == 0 {
		return false
	}
	leaf[0] = n
	return true
}

func getBlsID(v value) string {
	leaf := blsIDLeaf(v)
	if leaf == nil || len(leaf) == 0 {
		return ""
	}
	n, ok := leaf[0].(uint64)
	if !ok || n == 0 {
		return ""
	}
	return strconv.FormatUint(n, 16)
}

// cpPlain deep-copies a plain aggregate (nested structs/arrays of scalars).
func cpPlain(v value) value {
	switch x := v.(type) {
	case structure:
		out := make(structure, len(x))
		for i, e := range x {
			out[i] = cpPlain(e)
		}
		return out
	case array:
		out := make(array, len(x))
		for i, e := range x {
			out[i] = cpPlain(e)
		}
		return out
	}
	return v
}

// ---- exponent view of the BLS group (C32) ----
//
// Enabled by sym.Note("mode:bls-exponent-view"). Group elements are linear forms over formal,
// independent generators with integer coefficients: the valid signature of message hash h under
// key pk is the generator g(pk,h) (what e(H(h), pk) pairs to), an arbitrary group element D is
// its own generator, Sign.Add / GTMul add forms, Pairing(sig, G2) maps a signature form to the
// GT form with the same coefficients, and GT.IsEqual compares coefficient-wise — which is the
// generic-group meaning of the library calls made by the Go code in bls0chain_aggregate.go
// and BLS0ChainScheme.Verify. Two forms are equal iff all coefficients are (independence of
// the generators = no known discrete-log relation; assumption printed in the evidence).

type blsLin struct{ coef map[string]*Term } // generator -> wide coefficient

func (p *Path) blsGen(pub, hash string) string { return "g(" + pub[:8] + "," + hash[:8] + ")" }

func linAdd(st *Store, a, b blsLin) blsLin {
	out := blsLin{map[string]*Term{}}
	for g, c := range a.coef {
		out.coef[g] = c
	}
	for g, c := range b.coef {
		if o, ok := out.coef[g]; ok {
			out.coef[g] = st.Bin(OAdd, o, c)
		} else {
			out.coef[g] = c
		}
	}
	return out
}

func linEq(st *Store, a, b blsLin) *Term {
	res := st.Bool(true)
	zero := st.Wide(big.NewInt(0))
	gens := map[string]bool{}
	for g := range a.coef {
		gens[g] = true
	}
	for g := range b.coef {
		gens[g] = true
	}
	names := make([]string, 0, len(gens))
	for g := range gens {
		names = append(names, g)
	}
	sort.Strings(names)
	for _, g := range names {
		x, ok := a.coef[g]
		if !ok {
			x = zero
		}
		y, ok := b.coef[g]
		if !ok {
			y = zero
		}
		res = st.And(res, st.Eq(x, y))
	}
	return res
}

const blsLinOpen = "\x01BLS:"

func (p *Path) linToString(l blsLin) string {
	if p.blsObjs == nil {
		p.blsObjs = map[int]blsLin{}
	}
	id := len(p.blsObjs) + 1
	p.blsObjs[id] = l
	return blsLinOpen + strconv.Itoa(id) + "\x01"
}

// linOfSig: the linear form of a signature string (a form marker, or an ideal signature made in
// this run = its generator, or an unknown string = a generator of its own).
func (p *Path) linOfSig(sig string) blsLin {
	st := p.store
	one := st.Wide(big.NewInt(1))
	if strings.HasPrefix(sig, blsLinOpen) {
		id, err := strconv.Atoi(strings.TrimSuffix(strings.TrimPrefix(sig, blsLinOpen), "\x01"))
		if err == nil {
			if l, ok := p.blsObjs[id]; ok {
				return l
			}
		}
	}
	if rec, ok := p.sigs[strings.ToLower(sig)]; ok {
		return blsLin{map[string]*Term{p.blsGen(rec[0], rec[1]): one}}
	}
	return blsLin{map[string]*Term{"elem(" + sig + ")": one}}
}

func init() {
	extraRegs = append(extraRegs, func() {
		enc := "(*0chain.net/core/encryption.BLS0ChainScheme)."
		bl := "github.com/herumi/bls-go-binary/bls."
		expo := func(fr *frame) bool {
			for _, n := range fr.i.p.notes {
				if n == "mode:bls-exponent-view" {
					return true
				}
			}
			return false
		}
		wrap := func(name string, f func(fr *frame, args []value) (value, bool)) {
			old := externals[name]
			externals[name] = func(fr *frame, args []value) value {
				if expo(fr) {
					if v, ok := f(fr, args); ok {
						return v
					}
				}
				if old == nil {
					panic(unsupported(name + " outside the BLS models"))
				}
				return old(fr, args)
			}
		}
		wrap(enc+"GetSignature", func(fr *frame, args []value) (value, bool) {
			sig := args[1].(string)
			var nilp *value
			if sig == "" {
				return tuple{nilp, fr.i.makeError("empty signature")}, true
			}
			var cell value = fr.i.p.linOfSig(sig)
			return tuple{&cell, iface{}}, true
		})
		wrap(enc+"PairMessageHash", func(fr *frame, args []value) (value, bool) {
			s := (*args[0].(*value)).(structure)
			pub, _ := s[1].([]value)
			st := fr.i.p.store
			var cell value = blsLin{map[string]*Term{fr.i.p.blsGen(hex.EncodeToString(valuesToBytes(pub)), args[1].(string)): st.Wide(big.NewInt(1))}}
			return tuple{&cell, iface{}}, true
		})
		wrap(enc+"Verify", func(fr *frame, args []value) (value, bool) {
			s := (*args[0].(*value)).(structure)
			pub, _ := s[1].([]value)
			sig := args[1].(string)
			if sig == "" {
				return tuple{false, fr.i.makeError("empty signature")}, true
			}
			st := fr.i.p.store
			want := blsLin{map[string]*Term{fr.i.p.blsGen(hex.EncodeToString(valuesToBytes(pub)), args[2].(string)): st.Wide(big.NewInt(1))}}
			return tuple{lower(linEq(st, fr.i.p.linOfSig(sig), want), nil), iface{}}, true
		})
		wrap("(*"+bl+"Sign).Add", func(fr *frame, args []value) (value, bool) {
			a, ok1 := (*args[0].(*value)).(blsLin)
			b, ok2 := (*args[1].(*value)).(blsLin)
			if !ok1 || !ok2 {
				return nil, false
			}
			*args[0].(*value) = linAdd(fr.i.p.store, a, b)
			return nil, true
		})
		wrap(bl+"GTMul", func(fr *frame, args []value) (value, bool) {
			b, ok1 := (*args[1].(*value)).(blsLin)
			c, ok2 := (*args[2].(*value)).(blsLin)
			if !ok1 || !ok2 {
				return nil, false
			}
			*args[0].(*value) = linAdd(fr.i.p.store, b, c)
			return nil, true
		})
		wrap("(*"+bl+"G1).Deserialize", func(fr *frame, args []value) (value, bool) {
			b := args[1].([]value)
			if len(b) == 1 {
				if m, ok := b[0].(blsLin); ok {
					*args[0].(*value) = m
					return iface{}, true
				}
			}
			return nil, false
		})
		wrap(bl+"Pairing", func(fr *frame, args []value) (value, bool) {
			m, ok := (*args[1].(*value)).(blsLin)
			if !ok {
				return nil, false
			}
			*args[0].(*value) = m
			return nil, true
		})
		wrap("(*"+bl+"GT).IsEqual", func(fr *frame, args []value) (value, bool) {
			l, ok1 := (*args[0].(*value)).(blsLin)
			r, ok2 := (*args[1].(*value)).(blsLin)
			if !ok1 || !ok2 {
				return nil, false
			}
			return lower(linEq(fr.i.p.store, l, r), nil), true
		})
		// sym.BLSAddMul(sig, d, c): sig + c*d with a (possibly symbolic) integer c
		externals[symPkg+".BLSAddMul"] = func(fr *frame, args []value) value {
			p := fr.i.p
			st := p.store
			a, d := p.linOfSig(args[0].(string)), p.linOfSig(args[1].(string))
			c := st.Conv(toTerm(st, args[2]), 0, false)
			scaled := blsLin{map[string]*Term{}}
			for g, k := range d.coef {
				scaled.coef[g] = st.mk(&Term{op: OMul, kind: KWide, a: []*Term{k, c}})
			}
			return p.linToString(linAdd(st, a, scaled))
		}
	})
}
