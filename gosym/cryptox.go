package main

// Ideal signature model for 0chain's SignatureScheme implementations (BLS0Chain via cgo,
// ED25519): keys are opaque byte strings, the signature of hash h under public key pk is
// H("sig"|pk|h), Verify recomputes it. Correctness of the primitives is assumed (C47 n/a);
// natively the harness runs the real schemes.

import (
	"encoding/hex"
	"fmt"
	"go/types"
	"strings"

	"golang.org/x/crypto/sha3"
)

func h256(parts ...[]byte) []byte {
	h := sha3.New256()
	for _, p := range parts {
		h.Write(p)
	}
	return h.Sum(nil)
}

func rawHashArg(fr *frame, v value) ([]byte, value) {
	it := v.(iface)
	switch x := it.v.(type) {
	case string:
		b, err := hex.DecodeString(x)
		if err != nil {
			return nil, fr.i.makeError(err.Error())
		}
		return b, nil
	case []value:
		return valuesToBytes(x), nil
	}
	panic(targetPanic{iface{types.Typ[types.String], "unknown hash type"}})
}

func init() {
	extraRegs = append(extraRegs, func() {
		for _, ty := range []string{"BLS0ChainScheme", "ED25519Scheme", "BLS0ChainThresholdScheme"} {
			recv := "(*0chain.net/core/encryption." + ty + ")."
			fields := func(args []value) structure {
				s := (*args[0].(*value)).(structure)
				if ty == "BLS0ChainThresholdScheme" {
					// embeds BLS0ChainScheme as field 0
					return s[0].(structure)
				}
				return s
			}
			externals[recv+"GenerateKeys"] = func(fr *frame, args []value) value {
				p := fr.i.p
				p.keyCounter++
				priv := h256([]byte(fmt.Sprintf("verif-priv-%d", p.keyCounter)))
				pub := h256([]byte("pub:"), priv)
				s := fields(args)
				s[0] = bytesToValues(priv)
				s[1] = bytesToValues(pub)
				return iface{}
			}
			externals[recv+"SetPublicKey"] = func(fr *frame, args []value) value {
				s := fields(args)
				if cur, _ := s[0].([]value); len(cur) > 0 {
					return fr.i.makeError("cannot set public key when there is a private key")
				}
				b, err := hex.DecodeString(args[1].(string))
				if err != nil || len(b) == 0 {
					return fr.i.makeError("invalid public key")
				}
				s[1] = bytesToValues(b)
				return iface{}
			}
			externals[recv+"GetPublicKey"] = func(fr *frame, args []value) value {
				s := fields(args)
				b, _ := s[1].([]value)
				return hex.EncodeToString(valuesToBytes(b))
			}
			externals[recv+"Sign"] = func(fr *frame, args []value) value {
				s := fields(args)
				priv, _ := s[0].([]value)
				if len(priv) == 0 {
					return tuple{"", fr.i.makeError("private key does not exists for signing")}
				}
				h, e := rawHashArg(fr, args[1])
				if e != nil {
					return tuple{"", e}
				}
				pub, _ := s[1].([]value)
				sig := hex.EncodeToString(h256([]byte("sig"), valuesToBytes(pub), h))
				if fr.i.p.sigs == nil {
					fr.i.p.sigs = map[string][2]string{}
				}
				fr.i.p.sigs[sig] = [2]string{hex.EncodeToString(valuesToBytes(pub)), hex.EncodeToString(h)}
				return tuple{sig, iface{}}
			}
			externals[recv+"Verify"] = func(fr *frame, args []value) value {
				s := fields(args)
				pub, _ := s[1].([]value)
				sig := args[1].(string)
				if _, err := hex.DecodeString(sig); err != nil || sig == "" {
					return tuple{false, fr.i.makeError("invalid signature encoding")}
				}
				h, err := hex.DecodeString(args[2].(string))
				if err != nil {
					return tuple{false, fr.i.makeError(err.Error())}
				}
				// a signature produced in this run verifies iff the key is the signing key and the
				// message equals the signed message SEMANTICALLY (hashes of data with symbolic
				// parts are compared through their preimages, symstr.go)
				if rec, ok := fr.i.p.sigs[strings.ToLower(sig)]; ok { // hex decoding ignores case
					if rec[0] != hex.EncodeToString(valuesToBytes(pub)) {
						return tuple{false, iface{}}
					}
					return tuple{strEqValue(fr, rec[1], hex.EncodeToString(h)), iface{}}
				}
				return tuple{sig == hex.EncodeToString(h256([]byte("sig"), valuesToBytes(pub), h)), iface{}}
			}
		}
	})
}
