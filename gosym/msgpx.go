package main

// msgp runtime model: concrete values are encoded by the real library (byte-exact); a
// symbolic leaf becomes one token cell in the byte slice. Generated MarshalMsg/UnmarshalMsg
// code from /repo runs for real against these functions (DESIGN §2, C08).

import (
	"fmt"
	"reflect"
	"time"

	"github.com/tinylib/msgp/msgp"
)

type tok struct {
	kind string // "int","uint","bool","f64"
	v    sv
}

func concretePrefix(b []value) []byte {
	out := make([]byte, 0, len(b))
	for _, x := range b {
		u, ok := x.(uint8)
		if !ok {
			break
		}
		out = append(out, u)
	}
	return out
}

func bytesToValues(b []byte) []value {
	out := make([]value, len(b))
	for i, x := range b {
		out[i] = x
	}
	return out
}

func appendNative(b value, enc []byte) value {
	s, _ := b.([]value)
	for _, x := range enc {
		s = append(s, x)
	}
	if s == nil {
		s = []value{}
	}
	return s
}

func msgpErr(fr *frame, err error) value {
	if err == nil {
		return iface{}
	}
	return fr.i.makeError(err.Error())
}

// reader for a native msgp.ReadXBytes function on the concrete prefix
func msgpRead(fr *frame, b value, kind string, zeroV value, native func([]byte) (interface{}, []byte, error), conv func(interface{}) value) value {
	s, _ := b.([]value)
	if len(s) > 0 {
		if t, ok := s[0].(tok); ok {
			if t.kind == kind || (kind == "int" && t.kind == "uint") || (kind == "uint" && t.kind == "int") {
				return tuple{symConvTok(t, zeroV), s[1:], iface{}}
			}
			return tuple{zeroV, s, fr.i.makeError("msgp: attempted to decode type " + t.kind + " with method for " + kind)}
		}
	}
	pre := concretePrefix(s)
	v, rest, err := native(pre)
	if err != nil {
		return tuple{zeroV, s, msgpErr(fr, err)}
	}
	used := len(pre) - len(rest)
	return tuple{conv(v), s[used:], iface{}}
}

// symConvTok adapts the token's term to the Go type of zeroV
func symConvTok(t tok, zeroV value) value {
	st := t.v.t.store
	switch zeroV.(type) {
	case int, int64:
		return sv{st.Conv(t.v.t, 64, true)}
	case int32:
		return sv{st.Conv(t.v.t, 32, true)}
	case int16:
		return sv{st.Conv(t.v.t, 16, true)}
	case int8:
		return sv{st.Conv(t.v.t, 8, true)}
	case uint, uint64:
		return sv{st.Conv(t.v.t, 64, false)}
	case uint32:
		return sv{st.Conv(t.v.t, 32, false)}
	case uint16:
		return sv{st.Conv(t.v.t, 16, false)}
	case uint8:
		return sv{st.Conv(t.v.t, 8, false)}
	}
	return t.v
}

func registerMsgp() {
	M := "github.com/tinylib/msgp/msgp."
	ext := externals
	ext[M+"WrapError"] = func(fr *frame, args []value) value { return args[0] }
	ext[M+"Require"] = func(fr *frame, args []value) value {
		s, _ := args[0].([]value)
		if s == nil {
			return []value{}
		}
		return s
	}
	ext[M+"UnsafeString"] = func(fr *frame, args []value) value { return string(concretePrefix(args[0].([]value))) }
	ext[M+"UnsafeBytes"] = func(fr *frame, args []value) value { return bytesToValues([]byte(args[0].(string))) }
	ext[M+"Sort"] = func(fr *frame, args []value) value {
		x := args[0].([]value)
		ss := make([]string, len(x))
		for i := range x {
			ss[i] = x[i].(string)
		}
		msgp.Sort(ss)
		for i := range x {
			x[i] = ss[i]
		}
		return nil
	}
	// ---- appenders
	ext[M+"AppendMapHeader"] = func(fr *frame, args []value) value {
		return appendNative(args[0], msgp.AppendMapHeader(nil, args[1].(uint32)))
	}
	ext[M+"AppendArrayHeader"] = func(fr *frame, args []value) value {
		return appendNative(args[0], msgp.AppendArrayHeader(nil, args[1].(uint32)))
	}
	ext[M+"AppendString"] = func(fr *frame, args []value) value {
		return appendNative(args[0], msgp.AppendString(nil, args[1].(string)))
	}
	ext[M+"AppendBytes"] = func(fr *frame, args []value) value {
		payload, _ := args[1].([]value)
		if len(concretePrefix(payload)) != len(payload) {
			// a byte string that itself carries symbolic cells travels as one cell
			b, _ := args[0].([]value)
			return append(b, binCell{append([]value{}, payload...)})
		}
		return appendNative(args[0], msgp.AppendBytes(nil, concretePrefix(payload)))
	}
	ext[M+"AppendNil"] = func(fr *frame, args []value) value { return appendNative(args[0], msgp.AppendNil(nil)) }
	appInt := func(fr *frame, args []value) value {
		if s, ok := args[1].(sv); ok {
			b, _ := args[0].([]value)
			return append(b, tok{"int", s})
		}
		return appendNative(args[0], msgp.AppendInt64(nil, asInt64(args[1])))
	}
	for _, n := range []string{"AppendInt", "AppendInt8", "AppendInt16", "AppendInt32", "AppendInt64", "AppendDuration"} {
		ext[M+n] = appInt
	}
	appUint := func(fr *frame, args []value) value {
		if s, ok := args[1].(sv); ok {
			b, _ := args[0].([]value)
			return append(b, tok{"uint", s})
		}
		return appendNative(args[0], msgp.AppendUint64(nil, uint64(asInt64(args[1]))))
	}
	for _, n := range []string{"AppendUint", "AppendUint8", "AppendUint16", "AppendUint32", "AppendUint64", "AppendByte"} {
		ext[M+n] = appUint
	}
	ext[M+"AppendBool"] = func(fr *frame, args []value) value {
		if s, ok := args[1].(sv); ok {
			b, _ := args[0].([]value)
			return append(b, tok{"bool", s})
		}
		return appendNative(args[0], msgp.AppendBool(nil, args[1].(bool)))
	}
	ext[M+"AppendFloat64"] = func(fr *frame, args []value) value {
		if s, ok := args[1].(sv); ok {
			b, _ := args[0].([]value)
			return append(b, tok{"f64", s})
		}
		return appendNative(args[0], msgp.AppendFloat64(nil, args[1].(float64)))
	}
	ext[M+"AppendTime"] = func(fr *frame, args []value) value {
		t := args[1].(structure)
		// keep wall/ext verbatim in an extension-like cell triple
		b, _ := args[0].([]value)
		return append(b, timeCell{t})
	}
	// ---- readers
	ext[M+"ReadMapHeaderBytes"] = func(fr *frame, args []value) value {
		return msgpRead(fr, args[0], "hdr", uint32(0), func(b []byte) (interface{}, []byte, error) { return rd3(msgp.ReadMapHeaderBytes(b)) }, func(v interface{}) value { return v.(uint32) })
	}
	ext[M+"ReadArrayHeaderBytes"] = func(fr *frame, args []value) value {
		return msgpRead(fr, args[0], "hdr", uint32(0), func(b []byte) (interface{}, []byte, error) { return rd3(msgp.ReadArrayHeaderBytes(b)) }, func(v interface{}) value { return v.(uint32) })
	}
	ext[M+"ReadMapKeyZC"] = func(fr *frame, args []value) value {
		return msgpRead(fr, args[0], "str", []value(nil), func(b []byte) (interface{}, []byte, error) { return rd3(msgp.ReadMapKeyZC(b)) }, func(v interface{}) value { return bytesToValues(v.([]byte)) })
	}
	ext[M+"ReadStringBytes"] = func(fr *frame, args []value) value {
		return msgpRead(fr, args[0], "str", "", func(b []byte) (interface{}, []byte, error) { return rd3(msgp.ReadStringBytes(b)) }, func(v interface{}) value { return v.(string) })
	}
	ext[M+"ReadBytesBytes"] = func(fr *frame, args []value) value {
		if s, _ := args[0].([]value); len(s) > 0 {
			if bc, ok := s[0].(binCell); ok {
				return tuple{append([]value{}, bc.cells...), s[1:], iface{}}
			}
		}
		return msgpRead(fr, args[0], "bin", []value(nil), func(b []byte) (interface{}, []byte, error) { return rd3(msgp.ReadBytesBytes(b, nil)) }, func(v interface{}) value { return bytesToValues(v.([]byte)) })
	}
	rdInt := func(name string, z value) {
		ext[M+name] = func(fr *frame, args []value) value {
			return msgpRead(fr, args[0], "int", z, func(b []byte) (interface{}, []byte, error) { return rd3(msgp.ReadInt64Bytes(b)) }, func(v interface{}) value {
				return reflect.ValueOf(v).Convert(reflect.TypeOf(z)).Interface()
			})
		}
	}
	rdInt("ReadIntBytes", int(0))
	rdInt("ReadInt8Bytes", int8(0))
	rdInt("ReadInt16Bytes", int16(0))
	rdInt("ReadInt32Bytes", int32(0))
	rdInt("ReadInt64Bytes", int64(0))
	rdInt("ReadDurationBytes", int64(0))
	rdUint := func(name string, z value) {
		ext[M+name] = func(fr *frame, args []value) value {
			return msgpRead(fr, args[0], "uint", z, func(b []byte) (interface{}, []byte, error) { return rd3(msgp.ReadUint64Bytes(b)) }, func(v interface{}) value {
				return reflect.ValueOf(v).Convert(reflect.TypeOf(z)).Interface()
			})
		}
	}
	rdUint("ReadUintBytes", uint(0))
	rdUint("ReadUint8Bytes", uint8(0))
	rdUint("ReadByteBytes", uint8(0))
	rdUint("ReadUint16Bytes", uint16(0))
	rdUint("ReadUint32Bytes", uint32(0))
	rdUint("ReadUint64Bytes", uint64(0))
	ext[M+"ReadBoolBytes"] = func(fr *frame, args []value) value {
		return msgpRead(fr, args[0], "bool", false, func(b []byte) (interface{}, []byte, error) { return rd3(msgp.ReadBoolBytes(b)) }, func(v interface{}) value { return v.(bool) })
	}
	ext[M+"ReadFloat64Bytes"] = func(fr *frame, args []value) value {
		return msgpRead(fr, args[0], "f64", float64(0), func(b []byte) (interface{}, []byte, error) { return rd3(msgp.ReadFloat64Bytes(b)) }, func(v interface{}) value { return v.(float64) })
	}
	ext[M+"ReadTimeBytes"] = func(fr *frame, args []value) value {
		s, _ := args[0].([]value)
		if len(s) > 0 {
			if tc, ok := s[0].(timeCell); ok {
				return tuple{tc.t, s[1:], iface{}}
			}
		}
		return tuple{structure{uint64(0), int64(0), (*value)(nil)}, s, fr.i.makeError("msgp: not a time cell")}
	}
	ext[M+"IsNil"] = func(fr *frame, args []value) value {
		s, _ := args[0].([]value)
		if len(s) == 0 {
			return false
		}
		u, ok := s[0].(uint8)
		return ok && u == 0xc0
	}
	ext[M+"ReadNilBytes"] = func(fr *frame, args []value) value {
		s, _ := args[0].([]value)
		if len(s) > 0 {
			if u, ok := s[0].(uint8); ok && u == 0xc0 {
				return tuple{s[1:], iface{}}
			}
		}
		return tuple{s, fr.i.makeError("msgp: not nil")}
	}
	ext[M+"Skip"] = func(fr *frame, args []value) value {
		s, _ := args[0].([]value)
		n, err := msgpSkip(s)
		if err != nil {
			return tuple{s, msgpErr(fr, err)}
		}
		return tuple{s[n:], iface{}}
	}
}

type timeCell struct{ t structure }

// binCell is a msgpack bin object whose content carries symbolic cells.
type binCell struct{ cells []value }

func rd3[T any](v T, rest []byte, err error) (interface{}, []byte, error) { return v, rest, err }

// msgpSkip returns the number of cells of the first msgpack object in s (tokens count 1).
func msgpSkip(s []value) (int, error) {
	if len(s) == 0 {
		return 0, fmt.Errorf("msgp: too few bytes left to read object")
	}
	switch s[0].(type) {
	case tok, timeCell, binCell:
		return 1, nil
	}
	lead, ok := s[0].(uint8)
	if !ok {
		return 0, fmt.Errorf("msgp: unexpected cell %T", s[0])
	}
	need := func(n int) (int, error) {
		if len(s) < n {
			return 0, fmt.Errorf("msgp: too few bytes left to read object")
		}
		return n, nil
	}
	be := func(off, n int) int {
		v := 0
		for i := 0; i < n; i++ {
			v = v<<8 | int(s[off+i].(uint8))
		}
		return v
	}
	skipN := func(hdr, count int) (int, error) {
		pos := hdr
		for i := 0; i < count; i++ {
			n, err := msgpSkip(s[pos:])
			if err != nil {
				return 0, err
			}
			pos += n
		}
		return pos, nil
	}
	switch {
	case lead <= 0x7f || lead >= 0xe0:
		return 1, nil
	case lead >= 0x80 && lead <= 0x8f:
		return skipN(1, 2*int(lead&0x0f))
	case lead >= 0x90 && lead <= 0x9f:
		return skipN(1, int(lead&0x0f))
	case lead >= 0xa0 && lead <= 0xbf:
		return need(1 + int(lead&0x1f))
	}
	switch lead {
	case 0xc0, 0xc2, 0xc3:
		return 1, nil
	case 0xc4, 0xd9:
		if _, err := need(2); err != nil {
			return 0, err
		}
		return need(2 + be(1, 1))
	case 0xc5, 0xda:
		if _, err := need(3); err != nil {
			return 0, err
		}
		return need(3 + be(1, 2))
	case 0xc6, 0xdb:
		if _, err := need(5); err != nil {
			return 0, err
		}
		return need(5 + be(1, 4))
	case 0xca, 0xce, 0xd2:
		return need(5)
	case 0xcb, 0xcf, 0xd3:
		return need(9)
	case 0xcc, 0xd0:
		return need(2)
	case 0xcd, 0xd1:
		return need(3)
	case 0xdc:
		if _, err := need(3); err != nil {
			return 0, err
		}
		return skipN(3, be(1, 2))
	case 0xdd:
		if _, err := need(5); err != nil {
			return 0, err
		}
		return skipN(5, be(1, 4))
	case 0xde:
		if _, err := need(3); err != nil {
			return 0, err
		}
		return skipN(3, 2*be(1, 2))
	case 0xdf:
		if _, err := need(5); err != nil {
			return 0, err
		}
		return skipN(5, 2*be(1, 4))
	case 0xd4:
		return need(3)
	case 0xd5:
		return need(4)
	case 0xd6:
		return need(6)
	case 0xd7:
		return need(10)
	case 0xd8:
		return need(18)
	case 0xc7:
		if _, err := need(3); err != nil {
			return 0, err
		}
		return need(3 + be(1, 1))
	}
	return 0, fmt.Errorf("msgp: unsupported lead byte %#x", lead)
}

var _ = time.Now
