package main

import (
	"fmt"
	"os"
	"path/filepath"
	"strings"
	"sync"
	"time"

	"golang.org/x/tools/go/packages"
	"golang.org/x/tools/go/ssa"
	"golang.org/x/tools/go/ssa/ssautil"
)

const (
	repoMod    = "/repo/code/go/0chain.net"
	verifRoot  = "/verif"
	harnessDir = "/verif/harness"
	overlayDir = "/verif/overlay"
	hmodDir    = "/verif/hmod"
)

type loaded struct {
	prog *ssa.Program
	pkgs map[string]*ssa.Package
	overlay map[string][]byte
	overlaySrc map[string]string
	dirs map[string]string
}

var buildMu sync.Mutex

var builtPkgs sync.Map

// buildPkg makes sure p's function bodies are completely built before any of them is
// executed: Build is idempotent and blocks until a build started by another worker is done
// (a function whose Blocks are already non-nil may still be under construction).
func buildPkg(p *ssa.Package) {
	if _, ok := builtPkgs.Load(p); ok {
		return
	}
	p.Build()
	builtPkgs.Store(p, true)
}

func goEnv() []string {
	env := os.Environ()
	env = append(env, "GOFLAGS=-mod=mod", "GOPROXY=off", "GOSUMDB=off", "GOTOOLCHAIN=local", "GOWORK=off")
	return env
}

// overlayFiles maps every file under /verif/harness/<import path>/ and /verif/overlay/<rel>/
// into the corresponding directory of the 0chain.net module (virtual; /repo is not touched).
var overlaySrcPaths = map[string]string{}

func overlayFiles() (map[string][]byte, error) {
	ov := map[string][]byte{}
	for _, root := range []string{harnessDir, overlayDir} {
		err := filepath.Walk(root, func(path string, info os.FileInfo, err error) error {
			if err != nil {
				if os.IsNotExist(err) {
					return nil
				}
				return err
			}
			if info.IsDir() || !strings.HasSuffix(path, ".go") {
				return nil
			}
			rel, _ := filepath.Rel(root, path)
			rel = strings.TrimPrefix(rel, "0chain.net/")
			data, err := os.ReadFile(path)
			if err != nil {
				return err
			}
			ov[filepath.Join(repoMod, rel)] = data
			overlaySrcPaths[filepath.Join(repoMod, rel)] = path
			return nil
		})
		if err != nil {
			return nil, err
		}
	}
	return ov, nil
}

func loadProgram(patterns []string) (*loaded, error) {
	ov, err := overlayFiles()
	if err != nil {
		return nil, err
	}
	// test overlay files are for native replay only
	for k := range ov {
		if strings.HasSuffix(k, "_test.go") {
			delete(ov, k)
		}
	}
	cfg := &packages.Config{
		Mode:    packages.LoadAllSyntax,
		Dir:     hmodDir,
		Env:     goEnv(),
		Overlay: ov,
	}
	pats := append([]string{}, patterns...)
	pats = append(pats, symPkg)
	tLoad := time.Now()
	pkgs, err := packages.Load(cfg, pats...)
	if os.Getenv("VERIF_TIMING") != "" {
		fmt.Fprintf(os.Stderr, "packages.Load: %v\n", time.Since(tLoad))
	}
	tLoad = time.Now()
	defer func() {
		if os.Getenv("VERIF_TIMING") != "" {
			fmt.Fprintf(os.Stderr, "ssa: %v\n", time.Since(tLoad))
		}
	}()
	if err != nil {
		return nil, err
	}
	nerr := 0
	packages.Visit(pkgs, nil, func(p *packages.Package) {
		for _, e := range p.Errors {
			if nerr < 20 {
				fmt.Fprintf(os.Stderr, "load error: %s: %v\n", p.PkgPath, e)
			}
			nerr++
		}
	})
	if nerr > 0 {
		return nil, fmt.Errorf("%d package load errors", nerr)
	}
	prog, spkgs := ssautil.AllPackages(pkgs, ssa.InstantiateGenerics)
	ld := &loaded{prog: prog, pkgs: map[string]*ssa.Package{}, overlay: ov, dirs: map[string]string{}}
	for i, p := range pkgs {
		if spkgs[i] != nil {
			ld.pkgs[p.PkgPath] = spkgs[i]
			if len(p.GoFiles) > 0 {
				ld.dirs[p.PkgPath] = filepath.Dir(p.GoFiles[0])
			}
			spkgs[i].Build()
		}
	}
	return ld, nil
}

func (l *loaded) lookup(pkg, fn string) *ssa.Function {
	p := l.pkgs[pkg]
	if p == nil {
		return nil
	}
	return p.Func(fn)
}
