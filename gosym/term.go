package main

// Term language of the symbolic executor and its two SMT-LIB2 encodings:
//   - "int": linear integer arithmetic with Go's mod-2^k wrap made explicit (default,
//     DESIGN §1.4), floats via to_real;
//   - "bv" : bit-vectors / FloatingPoint (bitwise code, FP lemmas).

import (
	"fmt"
	"math"
	"math/big"
	"strings"
)

type Kind uint8

const (
	KBool Kind = iota
	KInt       // fixed width Go integer (bits, signed)
	KF64
	KWide // mathematical integer (int mode) / 128-bit unsigned (bv mode); only + and comparisons
)

type Op uint8

const (
	OConst Op = iota
	OVar
	OAdd
	OSub
	OMul
	ODiv // Go semantics: truncated for signed
	ORem
	ONeg
	OAnd
	OOr
	OXor
	OAndNot
	OShl
	OShr
	OBNot // bitwise complement
	OEq
	OLt
	OLe
	ONot  // boolean
	OLAnd // boolean
	OLOr  // boolean
	OIte
	OConv   // int -> int (width / signedness change), or int -> wide
	OI2F    // int -> f64 (RNE)
	OF2I    // f64 -> int (RTZ; in-range assumed, see f2iInRange)
	OFAdd
	OFSub
	OFMul
	OFDiv
	OFNeg
	OFLt
	OFLe
	OFEq
	OFIsNaN
	OUF // uninterpreted function application: name + args
	OByte // byte c (little-endian index) of integer a[0]
)

type Term struct {
	id     int
	op     Op
	kind   Kind
	bits   uint8
	signed bool
	a      []*Term
	c      uint64 // constant: raw two's complement bits (ints), 0/1 (bool), IEEE bits (f64)
	wide   *big.Int
	name   string
	store  *Store
	lo, hi *big.Int // value range (integers), nil when unknown
}

func (t *Term) isConst() bool { return t.op == OConst }

type Store struct {
	terms  map[string]*Term
	nextID int
	vars   []*Term // in creation order
	varByName map[string]*Term
	path   *Path
}

func NewStore() *Store {
	return &Store{terms: map[string]*Term{}, varByName: map[string]*Term{}}
}

func (s *Store) mk(t *Term) *Term {
	var sb strings.Builder
	fmt.Fprintf(&sb, "%d|%d|%d|%v|%d|%s|", t.op, t.kind, t.bits, t.signed, t.c, t.name)
	if t.wide != nil {
		sb.WriteString(t.wide.String())
	}
	for _, a := range t.a {
		fmt.Fprintf(&sb, ",%d", a.id)
	}
	k := sb.String()
	if e, ok := s.terms[k]; ok {
		return e
	}
	s.nextID++
	t.id = s.nextID
	t.store = s
	computeRange(t)
	s.terms[k] = t
	return t
}

func mask(bits uint8) uint64 {
	if bits >= 64 {
		return ^uint64(0)
	}
	return (uint64(1) << bits) - 1
}

// signed value of raw constant
func sval(c uint64, bits uint8) int64 {
	if bits < 64 {
		if c&(1<<(bits-1)) != 0 {
			return int64(c | ^mask(bits))
		}
		return int64(c)
	}
	return int64(c)
}

func (s *Store) Bool(b bool) *Term {
	c := uint64(0)
	if b {
		c = 1
	}
	return s.mk(&Term{op: OConst, kind: KBool, c: c})
}
func (s *Store) Int(c uint64, bits uint8, signed bool) *Term {
	return s.mk(&Term{op: OConst, kind: KInt, bits: bits, signed: signed, c: c & mask(bits)})
}
func (s *Store) F64(f float64) *Term {
	return s.mk(&Term{op: OConst, kind: KF64, c: math.Float64bits(f)})
}
func (s *Store) Wide(v *big.Int) *Term {
	return s.mk(&Term{op: OConst, kind: KWide, wide: new(big.Int).Set(v)})
}
func (s *Store) Var(name string, kind Kind, bits uint8, signed bool) *Term {
	if v, ok := s.varByName[name]; ok {
		if v.kind != kind || v.bits != bits || v.signed != signed {
			panic(unsupported("symbol " + name + " redeclared with a different type"))
		}
		return v
	}
	t := s.mk(&Term{op: OVar, kind: kind, bits: bits, signed: signed, name: name})
	s.varByName[name] = t
	s.vars = append(s.vars, t)
	return t
}

func (t *Term) boolVal() bool { return t.c != 0 }
func (t *Term) f64Val() float64 { return math.Float64frombits(t.c) }

// ---------------------------------------------------------------------------------
// construction with folding

func (s *Store) Not(x *Term) *Term {
	if x.isConst() {
		return s.Bool(!x.boolVal())
	}
	if x.op == ONot {
		return x.a[0]
	}
	return s.mk(&Term{op: ONot, kind: KBool, a: []*Term{x}})
}
func (s *Store) And(x, y *Term) *Term {
	if x.isConst() {
		if x.boolVal() {
			return y
		}
		return x
	}
	if y.isConst() {
		if y.boolVal() {
			return x
		}
		return y
	}
	if x == y {
		return x
	}
	return s.mk(&Term{op: OLAnd, kind: KBool, a: []*Term{x, y}})
}
func (s *Store) Or(x, y *Term) *Term {
	if x.isConst() {
		if x.boolVal() {
			return x
		}
		return y
	}
	if y.isConst() {
		if y.boolVal() {
			return y
		}
		return x
	}
	if x == y {
		return x
	}
	return s.mk(&Term{op: OLOr, kind: KBool, a: []*Term{x, y}})
}
func (s *Store) Ite(c, x, y *Term) *Term {
	if c.isConst() {
		if c.boolVal() {
			return x
		}
		return y
	}
	if x == y {
		return x
	}
	if x.kind == KBool && x.isConst() && y.isConst() {
		if x.boolVal() && !y.boolVal() {
			return c
		}
		if !x.boolVal() && y.boolVal() {
			return s.Not(c)
		}
	}
	return s.mk(&Term{op: OIte, kind: x.kind, bits: x.bits, signed: x.signed, a: []*Term{c, x, y}})
}

func foldInt(op Op, a, b uint64, bits uint8, signed bool) (uint64, bool) {
	m := mask(bits)
	switch op {
	case OAdd:
		return (a + b) & m, true
	case OSub:
		return (a - b) & m, true
	case OMul:
		return (a * b) & m, true
	case ODiv:
		if b == 0 {
			return 0, false
		}
		if signed {
			x, y := sval(a, bits), sval(b, bits)
			if y == -1 {
				return uint64(-x) & m, true
			}
			return uint64(x/y) & m, true
		}
		return (a / b) & m, true
	case ORem:
		if b == 0 {
			return 0, false
		}
		if signed {
			x, y := sval(a, bits), sval(b, bits)
			if y == -1 {
				return 0, true
			}
			return uint64(x%y) & m, true
		}
		return (a % b) & m, true
	case OAnd:
		return a & b, true
	case OOr:
		return a | b, true
	case OXor:
		return a ^ b, true
	case OAndNot:
		return a &^ b, true
	case OShl:
		if b >= uint64(bits) {
			return 0, true
		}
		return (a << b) & m, true
	case OShr:
		if signed {
			x := sval(a, bits)
			if b >= uint64(bits) {
				b = uint64(bits) - 1
			}
			return uint64(x>>b) & m, true
		}
		if b >= uint64(bits) {
			return 0, true
		}
		return a >> b, true
	}
	return 0, false
}

// Bin builds an integer binary operation; x and y have identical (bits, signed) except
// for shifts, whose count y is any unsigned int term.
func (s *Store) Bin(op Op, x, y *Term) *Term {
	if x.kind == KWide {
		if x.isConst() && y.isConst() {
			switch op {
			case OMul:
				return s.Wide(new(big.Int).Mul(x.wide, y.wide))
			case OAdd:
				return s.Wide(new(big.Int).Add(x.wide, y.wide))
			case OSub:
				return s.Wide(new(big.Int).Sub(x.wide, y.wide))
			}
		}
		return s.mk(&Term{op: op, kind: KWide, a: []*Term{x, y}})
	}
	if x.isConst() && y.isConst() {
		if r, ok := foldInt(op, x.c, y.c, x.bits, x.signed); ok {
			return s.Int(r, x.bits, x.signed)
		}
	}
	switch op {
	case OAdd, OOr, OXor:
		if x.isConst() && x.c == 0 {
			return y
		}
		if y.isConst() && y.c == 0 {
			return x
		}
	case OSub, OShl, OShr, OAndNot:
		if y.isConst() && y.c == 0 {
			return x
		}
	case OMul:
		if x.isConst() && x.c == 1 {
			return y
		}
		if y.isConst() && y.c == 1 {
			return x
		}
		if (x.isConst() && x.c == 0) || (y.isConst() && y.c == 0) {
			return s.Int(0, x.bits, x.signed)
		}
	case ODiv:
		if y.isConst() && y.c == 1 {
			return x
		}
	case OAnd:
		if (x.isConst() && x.c == 0) || (y.isConst() && y.c == 0) {
			return s.Int(0, x.bits, x.signed)
		}
		if y.isConst() && y.c == mask(x.bits) {
			return x
		}
		if x.isConst() && x.c == mask(x.bits) {
			return y
		}
	}
	return s.mk(&Term{op: op, kind: KInt, bits: x.bits, signed: x.signed, a: []*Term{x, y}})
}

func (s *Store) Neg(x *Term) *Term {
	if x.isConst() {
		return s.Int(-x.c, x.bits, x.signed)
	}
	return s.mk(&Term{op: ONeg, kind: KInt, bits: x.bits, signed: x.signed, a: []*Term{x}})
}
func (s *Store) BNot(x *Term) *Term {
	if x.isConst() {
		return s.Int(^x.c, x.bits, x.signed)
	}
	return s.mk(&Term{op: OBNot, kind: KInt, bits: x.bits, signed: x.signed, a: []*Term{x}})
}

func (s *Store) Eq(x, y *Term) *Term {
	if x == y && x.kind != KF64 {
		return s.Bool(true)
	}
	if x.isConst() && y.isConst() {
		switch x.kind {
		case KWide:
			return s.Bool(x.wide.Cmp(y.wide) == 0)
		case KF64:
			return s.Bool(x.f64Val() == y.f64Val())
		default:
			return s.Bool(x.c == y.c)
		}
	}
	if x.kind == KF64 {
		return s.mk(&Term{op: OFEq, kind: KBool, a: []*Term{x, y}})
	}
	if x.kind == KBool {
		// a == b  over bools
		if x.isConst() {
			if x.boolVal() {
				return y
			}
			return s.Not(y)
		}
		if y.isConst() {
			if y.boolVal() {
				return x
			}
			return s.Not(x)
		}
	}
	if x.id > y.id {
		x, y = y, x
	}
	return s.mk(&Term{op: OEq, kind: KBool, a: []*Term{x, y}})
}

func cmpConst(x, y *Term) int {
	switch x.kind {
	case KWide:
		return x.wide.Cmp(y.wide)
	}
	if x.signed {
		a, b := sval(x.c, x.bits), sval(y.c, y.bits)
		if a < b {
			return -1
		} else if a > b {
			return 1
		}
		return 0
	}
	if x.c < y.c {
		return -1
	} else if x.c > y.c {
		return 1
	}
	return 0
}

func (s *Store) Lt(x, y *Term) *Term {
	if x.kind == KF64 {
		if x.isConst() && y.isConst() {
			return s.Bool(x.f64Val() < y.f64Val())
		}
		if y.isConst() && y.f64Val() <= 0 && floatNonNeg(x) {
			return s.Bool(false) // a non-negative product / quotient is never below zero
		}
		if y.isConst() && y.f64Val() == 0 {
			if c := s.path.floatLtZero(x); c != nil {
				return c
			}
		}
		return s.mk(&Term{op: OFLt, kind: KBool, a: []*Term{x, y}})
	}
	if x.isConst() && y.isConst() {
		return s.Bool(cmpConst(x, y) < 0)
	}
	if x == y {
		return s.Bool(false)
	}
	if x.lo != nil && y.lo != nil {
		if x.hi.Cmp(y.lo) < 0 {
			return s.Bool(true)
		}
		if x.lo.Cmp(y.hi) >= 0 {
			return s.Bool(false)
		}
	}
	if x.kind == KInt && !x.signed && y.isConst() && y.c == 0 {
		return s.Bool(false)
	}
	return s.mk(&Term{op: OLt, kind: KBool, a: []*Term{x, y}})
}
func (s *Store) Le(x, y *Term) *Term {
	if x.kind == KF64 {
		if x.isConst() && y.isConst() {
			return s.Bool(x.f64Val() <= y.f64Val())
		}
		return s.mk(&Term{op: OFLe, kind: KBool, a: []*Term{x, y}})
	}
	if x.isConst() && y.isConst() {
		return s.Bool(cmpConst(x, y) <= 0)
	}
	if x == y {
		return s.Bool(true)
	}
	if x.lo != nil && y.lo != nil {
		if x.hi.Cmp(y.lo) <= 0 {
			return s.Bool(true)
		}
		if x.lo.Cmp(y.hi) > 0 {
			return s.Bool(false)
		}
	}
	if x.kind == KInt && !x.signed && x.isConst() && x.c == 0 {
		return s.Bool(true)
	}
	return s.mk(&Term{op: OLe, kind: KBool, a: []*Term{x, y}})
}

// Conv converts an int term to (bits, signed); to KWide when bits==0.
func (s *Store) Conv(x *Term, bits uint8, signed bool) *Term {
	if bits == 0 {
		if x.isConst() {
			if x.signed {
				return s.Wide(big.NewInt(sval(x.c, x.bits)))
			}
			return s.Wide(new(big.Int).SetUint64(x.c))
		}
		return s.mk(&Term{op: OConv, kind: KWide, a: []*Term{x}})
	}
	if x.bits == bits && x.signed == signed {
		return x
	}
	if x.isConst() {
		v := x.c
		if x.signed {
			v = uint64(sval(x.c, x.bits))
		}
		return s.Int(v, bits, signed)
	}
	return s.mk(&Term{op: OConv, kind: KInt, bits: bits, signed: signed, a: []*Term{x}})
}

func (s *Store) I2F(x *Term) *Term {
	if x.isConst() {
		if x.signed {
			return s.F64(float64(sval(x.c, x.bits)))
		}
		return s.F64(float64(x.c))
	}
	return s.mk(&Term{op: OI2F, kind: KF64, a: []*Term{x}})
}
func (s *Store) F2I(x *Term, bits uint8, signed bool) *Term {
	if x.isConst() {
		f := x.f64Val()
		if signed {
			return s.Int(uint64(int64(f)), bits, signed)
		}
		return s.Int(uint64(f), bits, signed)
	}
	return s.mk(&Term{op: OF2I, kind: KInt, bits: bits, signed: signed, a: []*Term{x}})
}
func (s *Store) FBin(op Op, x, y *Term) *Term {
	if x.isConst() && y.isConst() {
		a, b := x.f64Val(), y.f64Val()
		switch op {
		case OFAdd:
			return s.F64(a + b)
		case OFSub:
			return s.F64(a - b)
		case OFMul:
			return s.F64(a * b)
		case OFDiv:
			return s.F64(a / b)
		}
	}
	return s.mk(&Term{op: op, kind: KF64, a: []*Term{x, y}})
}
func (s *Store) FNeg(x *Term) *Term {
	if x.isConst() {
		return s.F64(-x.f64Val())
	}
	return s.mk(&Term{op: OFNeg, kind: KF64, a: []*Term{x}})
}
func (s *Store) FIsNaN(x *Term) *Term {
	if x.isConst() {
		return s.Bool(math.IsNaN(x.f64Val()))
	}
	if _, ok := dyadicChain(x); ok {
		return s.Bool(false) // an integer times positive finite constants is never NaN
	}
	return s.mk(&Term{op: OFIsNaN, kind: KBool, a: []*Term{x}})
}

// Byte extracts byte idx (0 = least significant) of the integer x.
func (s *Store) Byte(x *Term, idx int) *Term {
	if x.isConst() {
		return s.Int((x.c>>(8*uint(idx)))&0xff, 8, false)
	}
	if x.bits == 8 && !x.signed && idx == 0 {
		return x
	}
	return s.mk(&Term{op: OByte, kind: KInt, bits: 8, signed: false, a: []*Term{x}, c: uint64(idx)})
}

// Compose builds the integer of shape (bits, signed) from little-endian bytes.
func (s *Store) Compose(bs []*Term, bits uint8, signed bool) *Term {
	// all bytes of one term, in order: the term itself
	if len(bs) > 0 && bs[0].op == OByte && bs[0].c == 0 {
		x := bs[0].a[0]
		ok := int(x.bits) == 8*len(bs)
		for i, b := range bs {
			if b.op != OByte || b.a[0] != x || b.c != uint64(i) {
				ok = false
			}
		}
		if ok {
			return s.Conv(x, bits, signed)
		}
	}
	acc := s.Int(0, bits, false)
	for i, b := range bs {
		w := s.Conv(b, bits, false)
		acc = s.Bin(OAdd, acc, s.Bin(OMul, w, s.Int(uint64(1)<<(8*uint(i)), bits, false)))
	}
	return s.Conv(acc, bits, signed)
}

// UF applies an uninterpreted function (declared on first use from the argument sorts).
func (s *Store) UF(name string, kind Kind, bits uint8, signed bool, args ...*Term) *Term {
	return s.mk(&Term{op: OUF, kind: kind, bits: bits, signed: signed, name: name, a: args})
}

// ---------------------------------------------------------------------------------
// SMT-LIB emission

type Encoding int

const (
	EncInt Encoding = iota
	EncBV
)

func pow2(n uint8) *big.Int { return new(big.Int).Lsh(big.NewInt(1), uint(n)) }

func (t *Term) ref() string {
	switch t.op {
	case OVar:
		return "v_" + smtName(t.name)
	}
	return fmt.Sprintf("t%d", t.id)
}

func smtName(n string) string {
	var sb strings.Builder
	for _, r := range n {
		if (r >= 'a' && r <= 'z') || (r >= 'A' && r <= 'Z') || (r >= '0' && r <= '9') || r == '_' || r == '.' {
			sb.WriteRune(r)
		} else {
			fmt.Fprintf(&sb, "_%x_", r)
		}
	}
	return sb.String()
}

func sortOf(t *Term, enc Encoding) string {
	switch t.kind {
	case KBool:
		return "Bool"
	case KF64:
		return "(_ FloatingPoint 11 53)"
	case KWide:
		if enc == EncBV {
			return "(_ BitVec 128)"
		}
		return "Int"
	}
	if enc == EncBV {
		return fmt.Sprintf("(_ BitVec %d)", t.bits)
	}
	return "Int"
}

func intLit(v *big.Int) string {
	if v.Sign() < 0 {
		return "(- " + new(big.Int).Neg(v).String() + ")"
	}
	return v.String()
}

func constLit(t *Term, enc Encoding) string {
	switch t.kind {
	case KBool:
		if t.boolVal() {
			return "true"
		}
		return "false"
	case KF64:
		b := t.c
		return fmt.Sprintf("(fp #b%01b #b%011b #x%013x)", b>>63, (b>>52)&0x7ff, b&((1<<52)-1))
	case KWide:
		if enc == EncBV {
			return fmt.Sprintf("(_ bv%s 128)", t.wide.String())
		}
		return intLit(t.wide)
	}
	if enc == EncBV {
		return fmt.Sprintf("(_ bv%d %d)", t.c, t.bits)
	}
	if t.signed {
		return intLit(big.NewInt(sval(t.c, t.bits)))
	}
	return new(big.Int).SetUint64(t.c).String()
}

// Emitter writes declarations/definitions for terms into a solver session.
type Emitter struct {
	enc   Encoding
	out   func(string)
	done  map[int]bool
	ufs   map[string]bool
}

func NewEmitter(enc Encoding, out func(string)) *Emitter {
	return &Emitter{enc: enc, out: out, done: map[int]bool{}, ufs: map[string]bool{}}
}

// wrap an Int expression e into the range of (bits, signed)
func wrapInt(e string, bits uint8, signed bool) string {
	M := pow2(bits).String()
	if !signed {
		return fmt.Sprintf("(mod %s %s)", e, M)
	}
	H := pow2(bits - 1).String()
	return fmt.Sprintf("(- (mod (+ %s %s) %s) %s)", e, H, M, H)
}

func isPow2Const(t *Term) (uint8, bool) {
	if !t.isConst() || t.c == 0 || t.c&(t.c-1) != 0 {
		return 0, false
	}
	n := uint8(0)
	for c := t.c; c > 1; c >>= 1 {
		n++
	}
	return n, true
}

// Ref makes sure t (and its subterms) are defined in the session and returns its name.
func (e *Emitter) Ref(t *Term) string {
	if t.op == OConst {
		return constLit(t, e.enc)
	}
	if e.done[t.id] {
		return t.ref()
	}
	e.done[t.id] = true
	if t.op == OVar {
		e.out(fmt.Sprintf("(declare-const %s %s)", t.ref(), sortOf(t, e.enc)))
		if e.enc == EncInt && t.kind == KInt {
			if t.signed {
				H := pow2(t.bits - 1)
				e.out(fmt.Sprintf("(assert (and (>= %s %s) (< %s %s)))", t.ref(), intLit(new(big.Int).Neg(H)), t.ref(), H.String()))
			} else {
				e.out(fmt.Sprintf("(assert (and (>= %s 0) (< %s %s)))", t.ref(), t.ref(), pow2(t.bits).String()))
			}
		}
		if e.enc == EncInt && t.kind == KWide {
			// wide variables are not created by harnesses
		}
		return t.ref()
	}
	args := make([]string, len(t.a))
	for i, a := range t.a {
		args[i] = e.Ref(a)
	}
	var body string
	if e.enc == EncInt {
		body = e.bodyInt(t, args)
	} else {
		body = e.bodyBV(t, args)
	}
	e.out(fmt.Sprintf("(define-fun %s () %s %s)", t.ref(), sortOf(t, e.enc), body))
	return t.ref()
}

type encErr string

func (e encErr) Error() string { return string(e) }

func (e *Emitter) common(t *Term, a []string) (string, bool) {
	switch t.op {
	case ONot:
		return "(not " + a[0] + ")", true
	case OLAnd:
		return "(and " + a[0] + " " + a[1] + ")", true
	case OLOr:
		return "(or " + a[0] + " " + a[1] + ")", true
	case OIte:
		return "(ite " + a[0] + " " + a[1] + " " + a[2] + ")", true
	case OEq:
		return "(= " + a[0] + " " + a[1] + ")", true
	case OFAdd:
		return "(fp.add RNE " + a[0] + " " + a[1] + ")", true
	case OFSub:
		return "(fp.sub RNE " + a[0] + " " + a[1] + ")", true
	case OFMul:
		return "(fp.mul RNE " + a[0] + " " + a[1] + ")", true
	case OFDiv:
		return "(fp.div RNE " + a[0] + " " + a[1] + ")", true
	case OFNeg:
		return "(fp.neg " + a[0] + ")", true
	case OFLt:
		return "(fp.lt " + a[0] + " " + a[1] + ")", true
	case OFLe:
		return "(fp.leq " + a[0] + " " + a[1] + ")", true
	case OFEq:
		return "(fp.eq " + a[0] + " " + a[1] + ")", true
	case OFIsNaN:
		return "(fp.isNaN " + a[0] + ")", true
	case OUF:
		fn := "uf_" + smtName(t.name)
		if !e.ufs[fn] {
			e.ufs[fn] = true
			var ss []string
			for _, x := range t.a {
				ss = append(ss, sortOf(x, e.enc))
			}
			e.out(fmt.Sprintf("(declare-fun %s (%s) %s)", fn, strings.Join(ss, " "), sortOf(t, e.enc)))
		}
		if len(a) == 0 {
			return fn, true
		}
		return "(" + fn + " " + strings.Join(a, " ") + ")", true
	}
	return "", false
}

func (e *Emitter) bodyInt(t *Term, a []string) string {
	if s, ok := e.common(t, a); ok {
		if t.op == OUF && t.kind == KInt {
			// constrain the range of an integer-valued UF application
			return wrapInt(s, t.bits, t.signed)
		}
		return s
	}
	bits, signed := t.bits, t.signed
	if t.kind == KWide {
		switch t.op {
		case OAdd:
			return "(+ " + a[0] + " " + a[1] + ")"
		case OSub:
			return "(- " + a[0] + " " + a[1] + ")"
		case OConv:
			return a[0]
		case OMul:
			return "(* " + a[0] + " " + a[1] + ")"
		case ODiv:
			return "(div " + a[0] + " " + a[1] + ")"
		case ORem:
			return "(mod " + a[0] + " " + a[1] + ")"
		case OIte:
			return "(ite " + a[0] + " " + a[1] + " " + a[2] + ")"
		case OLt:
			return "(< " + a[0] + " " + a[1] + ")"
		case OLe:
			return "(<= " + a[0] + " " + a[1] + ")"
		}
		panic(encErr(fmt.Sprintf("wide op %d", t.op)))
	}
	M := pow2(bits).String()
	if noWrap(t) {
		switch t.op {
		case OAdd:
			return "(+ " + a[0] + " " + a[1] + ")"
		case OSub:
			return "(- " + a[0] + " " + a[1] + ")"
		case OMul:
			return "(* " + a[0] + " " + a[1] + ")"
		}
	}
	switch t.op {
	case OAdd:
		if !signed {
			return fmt.Sprintf("(let ((s (+ %s %s))) (ite (>= s %s) (- s %s) s))", a[0], a[1], M, M)
		}
		H := pow2(bits - 1).String()
		return fmt.Sprintf("(let ((s (+ %s %s))) (ite (>= s %s) (- s %s) (ite (< s (- %s)) (+ s %s) s)))", a[0], a[1], H, M, H, M)
	case OSub:
		if !signed {
			return fmt.Sprintf("(let ((s (- %s %s))) (ite (< s 0) (+ s %s) s))", a[0], a[1], M)
		}
		H := pow2(bits - 1).String()
		return fmt.Sprintf("(let ((s (- %s %s))) (ite (>= s %s) (- s %s) (ite (< s (- %s)) (+ s %s) s)))", a[0], a[1], H, M, H, M)
	case OMul:
		return wrapInt("(* "+a[0]+" "+a[1]+")", bits, signed)
	case ONeg:
		return wrapInt("(- "+a[0]+")", bits, signed)
	case ODiv:
		if !signed {
			return "(div " + a[0] + " " + a[1] + ")"
		}
		q := fmt.Sprintf("(ite (>= %[1]s 0) (ite (> %[2]s 0) (div %[1]s %[2]s) (- (div %[1]s (- %[2]s)))) (ite (> %[2]s 0) (- (div (- %[1]s) %[2]s)) (div (- %[1]s) (- %[2]s))))", a[0], a[1])
		return wrapInt(q, bits, signed)
	case ORem:
		if !signed {
			return "(mod " + a[0] + " " + a[1] + ")"
		}
		return fmt.Sprintf("(ite (>= %[1]s 0) (mod %[1]s (abs %[2]s)) (- (mod (- %[1]s) (abs %[2]s))))", a[0], a[1])
	case OLt:
		return "(< " + a[0] + " " + a[1] + ")"
	case OLe:
		return "(<= " + a[0] + " " + a[1] + ")"
	case OConv:
		x := t.a[0]
		if x.lo != nil && within(x.lo, x.hi, bits, signed) {
			return a[0]
		}
		if x.kind == KInt {
			// identity when the source range is inside the target range
			if !x.signed && (bits > x.bits || (bits == x.bits && !signed)) {
				return a[0]
			}
			if x.signed && signed && bits >= x.bits {
				return a[0]
			}
		}
		return wrapInt(a[0], bits, signed)
	case OShl:
		if t.a[1].isConst() {
			k := t.a[1].c
			if k >= uint64(bits) {
				return "0"
			}
			return wrapInt("(* "+a[0]+" "+pow2(uint8(k)).String()+")", bits, signed)
		}
	case OShr:
		if t.a[1].isConst() {
			k := t.a[1].c
			if k >= uint64(bits) {
				k = uint64(bits) - 1
				if !signed {
					return "0"
				}
			}
			return "(div " + a[0] + " " + pow2(uint8(k)).String() + ")" // floor division == arithmetic shift
		}
	case OAnd:
		// x & mask where mask is one contiguous run of ones [lo,hi): ((x' div 2^lo) mod 2^(hi-lo)) * 2^lo
		for k := 0; k < 2; k++ {
			if !t.a[k].isConst() {
				continue
			}
			m := t.a[k].c
			x := a[1-k]
			if m == 0 {
				return "0"
			}
			lo := uint8(0)
			for m&1 == 0 {
				m >>= 1
				lo++
			}
			if m&(m+1) != 0 {
				break // not contiguous
			}
			w := uint8(0)
			for mm := m; mm != 0; mm >>= 1 {
				w++
			}
			if signed {
				x = "(mod " + x + " " + M + ")"
			}
			res := fmt.Sprintf("(* (mod (div %s %s) %s) %s)", x, pow2(lo).String(), pow2(w).String(), pow2(lo).String())
			if signed {
				return wrapInt(res, bits, true)
			}
			return res
		}
	case OByte:
		x := t.a[0]
		u := a[0]
		if x.signed {
			u = "(mod " + a[0] + " " + pow2(x.bits).String() + ")"
		}
		return fmt.Sprintf("(mod (div %s %s) 256)", u, pow2(uint8(8*t.c)).String())
	case OI2F:
		return "((_ to_fp 11 53) RNE (to_real " + a[0] + "))"
	case OF2I:
		// truncation toward zero of an in-range value (range obligation raised by the executor)
		return "(to_int (fp.to_real (fp.roundToIntegral RTZ " + a[0] + ")))"
	}
	if t.op == OI2F {
		return "((_ to_fp 11 53) RNE (to_real " + a[0] + "))"
	}
	if t.op == OF2I {
		return "(let ((r (fp.to_real (fp.roundToIntegral RTZ " + a[0] + ")))) (to_int r))"
	}
	panic(encErr(fmt.Sprintf("operation %d on symbolic operands is not expressible in the integer encoding (use bv mode): %s", t.op, clip(t.String(), 300))))
}

func (e *Emitter) bodyBV(t *Term, a []string) string {
	if s, ok := e.common(t, a); ok {
		return s
	}
	signed := t.signed
	if t.kind == KWide {
		switch t.op {
		case OAdd:
			return "(bvadd " + a[0] + " " + a[1] + ")"
		case OSub:
			return "(bvsub " + a[0] + " " + a[1] + ")"
		case OConv:
			x := t.a[0]
			if x.signed {
				return fmt.Sprintf("((_ sign_extend %d) %s)", 128-int(x.bits), a[0])
			}
			return fmt.Sprintf("((_ zero_extend %d) %s)", 128-int(x.bits), a[0])
		}
		panic(encErr("wide op"))
	}
	shiftArg := func() string {
		y := t.a[1]
		if y.bits == t.bits {
			return a[1]
		}
		if y.bits < t.bits {
			return fmt.Sprintf("((_ zero_extend %d) %s)", int(t.bits)-int(y.bits), a[1])
		}
		// wider count: saturate
		return fmt.Sprintf("(ite (bvuge %s (_ bv%d %d)) (_ bv%d %d) ((_ extract %d 0) %s))", a[1], t.bits, y.bits, t.bits, t.bits, t.bits-1, a[1])
	}
	switch t.op {
	case OAdd:
		return "(bvadd " + a[0] + " " + a[1] + ")"
	case OSub:
		return "(bvsub " + a[0] + " " + a[1] + ")"
	case OMul:
		return "(bvmul " + a[0] + " " + a[1] + ")"
	case ONeg:
		return "(bvneg " + a[0] + ")"
	case OBNot:
		return "(bvnot " + a[0] + ")"
	case ODiv:
		if signed {
			return "(bvsdiv " + a[0] + " " + a[1] + ")"
		}
		return "(bvudiv " + a[0] + " " + a[1] + ")"
	case ORem:
		if signed {
			return "(bvsrem " + a[0] + " " + a[1] + ")"
		}
		return "(bvurem " + a[0] + " " + a[1] + ")"
	case OAnd:
		return "(bvand " + a[0] + " " + a[1] + ")"
	case OOr:
		return "(bvor " + a[0] + " " + a[1] + ")"
	case OXor:
		return "(bvxor " + a[0] + " " + a[1] + ")"
	case OAndNot:
		return "(bvand " + a[0] + " (bvnot " + a[1] + "))"
	case OShl:
		return "(bvshl " + a[0] + " " + shiftArg() + ")"
	case OShr:
		if signed {
			return "(bvashr " + a[0] + " " + shiftArg() + ")"
		}
		return "(bvlshr " + a[0] + " " + shiftArg() + ")"
	case OLt:
		x := t.a[0]
		if x.kind == KWide || !x.signed {
			return "(bvult " + a[0] + " " + a[1] + ")"
		}
		return "(bvslt " + a[0] + " " + a[1] + ")"
	case OLe:
		x := t.a[0]
		if x.kind == KWide || !x.signed {
			return "(bvule " + a[0] + " " + a[1] + ")"
		}
		return "(bvsle " + a[0] + " " + a[1] + ")"
	case OConv:
		x := t.a[0]
		if t.bits == x.bits {
			return a[0]
		}
		if t.bits < x.bits {
			return fmt.Sprintf("((_ extract %d 0) %s)", t.bits-1, a[0])
		}
		if x.signed {
			return fmt.Sprintf("((_ sign_extend %d) %s)", int(t.bits)-int(x.bits), a[0])
		}
		return fmt.Sprintf("((_ zero_extend %d) %s)", int(t.bits)-int(x.bits), a[0])
	case OByte:
		return fmt.Sprintf("((_ extract %d %d) %s)", 8*t.c+7, 8*t.c, a[0])
	case OI2F:
		if t.a[0].signed {
			return "((_ to_fp 11 53) RNE " + a[0] + ")"
		}
		return "((_ to_fp_unsigned 11 53) RNE " + a[0] + ")"
	case OF2I:
		if signed {
			return fmt.Sprintf("((_ fp.to_sbv %d) RTZ %s)", t.bits, a[0])
		}
		return fmt.Sprintf("((_ fp.to_ubv %d) RTZ %s)", t.bits, a[0])
	}
	panic(encErr(fmt.Sprintf("bv encoding: op %d", t.op)))
}

// String renders a term for evidence / debugging (compact infix).
func (t *Term) String() string {
	switch t.op {
	case OConst:
		switch t.kind {
		case KBool:
			return fmt.Sprint(t.boolVal())
		case KF64:
			return fmt.Sprint(t.f64Val())
		case KWide:
			return t.wide.String()
		}
		if t.signed {
			return fmt.Sprint(sval(t.c, t.bits))
		}
		return fmt.Sprint(t.c)
	case OVar:
		return t.name
	}
	names := map[Op]string{OAdd: "+", OSub: "-", OMul: "*", ODiv: "/", ORem: "%", OAnd: "&", OOr: "|", OXor: "^", OAndNot: "&^", OShl: "<<", OShr: ">>",
		OEq: "==", OLt: "<", OLe: "<=", OLAnd: "&&", OLOr: "||", OFAdd: "+.", OFSub: "-.", OFMul: "*.", OFDiv: "/.", OFLt: "<.", OFLe: "<=.", OFEq: "==."}
	if n, ok := names[t.op]; ok && len(t.a) == 2 {
		return "(" + t.a[0].String() + " " + n + " " + t.a[1].String() + ")"
	}
	switch t.op {
	case ONot:
		return "!" + t.a[0].String()
	case ONeg, OFNeg:
		return "-" + t.a[0].String()
	case OBNot:
		return "^" + t.a[0].String()
	case OIte:
		return "ite(" + t.a[0].String() + ", " + t.a[1].String() + ", " + t.a[2].String() + ")"
	case OConv:
		if t.kind == KWide {
			return "wide(" + t.a[0].String() + ")"
		}
		p := "u"
		if t.signed {
			p = "i"
		}
		return fmt.Sprintf("%s%d(%s)", p, t.bits, t.a[0].String())
	case OI2F:
		return "f64(" + t.a[0].String() + ")"
	case OF2I:
		return fmt.Sprintf("int%d(%s)", t.bits, t.a[0].String())
	case OFIsNaN:
		return "isNaN(" + t.a[0].String() + ")"
	case OByte:
		return fmt.Sprintf("byte%d(%s)", t.c, t.a[0].String())
	case OUF:
		var ss []string
		for _, x := range t.a {
			ss = append(ss, x.String())
		}
		return t.name + "(" + strings.Join(ss, ", ") + ")"
	}
	return fmt.Sprintf("op%d", t.op)
}

// ---- cheap interval analysis (used to drop wrap-around ite/mod when it cannot happen and
// to fold comparisons) ----

func typeRange(bits uint8, signed bool) (*big.Int, *big.Int) {
	if signed {
		h := pow2(bits - 1)
		return new(big.Int).Neg(h), new(big.Int).Sub(h, big.NewInt(1))
	}
	return big.NewInt(0), new(big.Int).Sub(pow2(bits), big.NewInt(1))
}

func within(lo, hi *big.Int, bits uint8, signed bool) bool {
	tl, th := typeRange(bits, signed)
	return lo.Cmp(tl) >= 0 && hi.Cmp(th) <= 0
}

func computeRange(t *Term) {
	if t.kind != KInt && t.kind != KWide {
		return
	}
	set := func(lo, hi *big.Int) {
		if t.kind == KInt {
			if !within(lo, hi, t.bits, t.signed) {
				lo, hi = typeRange(t.bits, t.signed)
			}
		}
		t.lo, t.hi = lo, hi
	}
	full := func() {
		if t.kind == KInt {
			t.lo, t.hi = typeRange(t.bits, t.signed)
		}
	}
	arg := func(i int) (*big.Int, *big.Int, bool) {
		a := t.a[i]
		if a.lo == nil || a.hi == nil {
			return nil, nil, false
		}
		return a.lo, a.hi, true
	}
	switch t.op {
	case OConst:
		if t.kind == KWide {
			t.lo, t.hi = t.wide, t.wide
			return
		}
		var v *big.Int
		if t.signed {
			v = big.NewInt(sval(t.c, t.bits))
		} else {
			v = new(big.Int).SetUint64(t.c)
		}
		t.lo, t.hi = v, v
	case OVar, OUF, OF2I:
		full()
	case OAdd:
		al, ah, ok1 := arg(0)
		bl, bh, ok2 := arg(1)
		if ok1 && ok2 {
			set(new(big.Int).Add(al, bl), new(big.Int).Add(ah, bh))
		} else {
			full()
		}
	case OSub:
		al, ah, ok1 := arg(0)
		bl, bh, ok2 := arg(1)
		if ok1 && ok2 {
			set(new(big.Int).Sub(al, bh), new(big.Int).Sub(ah, bl))
		} else {
			full()
		}
	case OMul:
		al, ah, ok1 := arg(0)
		bl, bh, ok2 := arg(1)
		if ok1 && ok2 && al.Sign() >= 0 && bl.Sign() >= 0 {
			set(new(big.Int).Mul(al, bl), new(big.Int).Mul(ah, bh))
		} else {
			full()
		}
	case ODiv:
		al, ah, ok1 := arg(0)
		bl, _, ok2 := arg(1)
		if ok1 && ok2 && al.Sign() >= 0 && bl.Sign() > 0 {
			set(big.NewInt(0), new(big.Int).Quo(ah, bl))
		} else {
			full()
		}
	case ORem:
		al, _, ok1 := arg(0)
		bl, bh, ok2 := arg(1)
		if ok1 && ok2 && al.Sign() >= 0 && bl.Sign() > 0 {
			set(big.NewInt(0), new(big.Int).Sub(bh, big.NewInt(1)))
		} else {
			full()
		}
	case OConv:
		al, ah, ok := arg(0)
		if ok && (t.kind == KWide || within(al, ah, t.bits, t.signed)) {
			t.lo, t.hi = al, ah
		} else {
			full()
		}
	case OIte:
		al, ah, ok1 := arg(1)
		bl, bh, ok2 := arg(2)
		if ok1 && ok2 {
			lo, hi := al, ah
			if bl.Cmp(lo) < 0 {
				lo = bl
			}
			if bh.Cmp(hi) > 0 {
				hi = bh
			}
			t.lo, t.hi = lo, hi
		} else {
			full()
		}
	case OByte:
		t.lo, t.hi = big.NewInt(0), big.NewInt(255)
	case OAnd:
		if t.a[1].isConst() && !t.signed {
			t.lo, t.hi = big.NewInt(0), new(big.Int).SetUint64(t.a[1].c)
		} else if t.a[0].isConst() && !t.signed {
			t.lo, t.hi = big.NewInt(0), new(big.Int).SetUint64(t.a[0].c)
		} else {
			full()
		}
	case OShr:
		al, ah, ok := arg(0)
		if ok && al.Sign() >= 0 && t.a[1].isConst() && t.a[1].c < 64 {
			set(big.NewInt(0), new(big.Int).Rsh(ah, uint(t.a[1].c)))
		} else {
			full()
		}
	default:
		full()
	}
}

// noWrap reports whether the exact result of op on the argument ranges fits the type.
func noWrap(t *Term) bool {
	if t.kind != KInt || len(t.a) < 1 {
		return false
	}
	for _, a := range t.a {
		if a.lo == nil {
			return false
		}
	}
	var lo, hi *big.Int
	switch t.op {
	case OAdd:
		lo, hi = new(big.Int).Add(t.a[0].lo, t.a[1].lo), new(big.Int).Add(t.a[0].hi, t.a[1].hi)
	case OSub:
		lo, hi = new(big.Int).Sub(t.a[0].lo, t.a[1].hi), new(big.Int).Sub(t.a[0].hi, t.a[1].lo)
	case OMul:
		if t.a[0].lo.Sign() < 0 || t.a[1].lo.Sign() < 0 {
			return false
		}
		lo, hi = new(big.Int).Mul(t.a[0].lo, t.a[1].lo), new(big.Int).Mul(t.a[0].hi, t.a[1].hi)
	default:
		return false
	}
	return within(lo, hi, t.bits, t.signed)
}
