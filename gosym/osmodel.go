package main

// In-memory model of the few os / file operations the block database uses. Regular-file
// semantics: Read returns as many bytes as are available (short only at EOF).

import (
	"go/types"
	"path/filepath"
	"regexp"
	"strings"
)

type memFile struct{ data []value }

type fileHandle struct {
	f      *memFile
	pos    int
	closed bool
	name   string
}

func (p *Path) fsInit() {
	if p.fs == nil {
		p.fs = map[string]*memFile{}
		p.handles = map[*value]*fileHandle{}
	}
}

func ioEOF(fr *frame) value {
	pkg := fr.i.prog.ImportedPackage("io")
	g := pkg.Var("EOF")
	return *fr.i.global(g)
}

func init() {
	extraRegs = append(extraRegs, func() {
		ext := externals
		ext["os.MkdirAll"] = func(fr *frame, args []value) value { return iface{} }
		ext["os.Remove"] = func(fr *frame, args []value) value {
			p := fr.i.p
			p.fsInit()
			name := args[0].(string)
			if _, ok := p.fs[name]; !ok {
				return fr.i.makeError("remove " + name + ": no such file or directory")
			}
			delete(p.fs, name)
			return iface{}
		}
		ext["os.OpenFile"] = func(fr *frame, args []value) value {
			p := fr.i.p
			p.fsInit()
			name := args[0].(string)
			flag := args[1].(int)
			f, ok := p.fs[name]
			if !ok {
				if flag&0x40 == 0 { // O_CREATE
					return tuple{(*value)(nil), fr.i.makeError("open " + name + ": no such file or directory")}
				}
				f = &memFile{}
				p.fs[name] = f
			}
			if flag&0x200 != 0 { // O_TRUNC
				f.data = nil
			}
			var cell value = structure{(*value)(nil)}
			h := &cell
			p.handles[h] = &fileHandle{f: f, name: name}
			return tuple{h, iface{}}
		}
		handle := func(fr *frame, v value) *fileHandle {
			h := fr.i.p.handles[v.(*value)]
			if h == nil {
				panic(unsupported("operation on an os.File that was not opened through the file model"))
			}
			return h
		}
		ext["(*os.File).Close"] = func(fr *frame, args []value) value {
			fr.i.p.fsInit()
			if args[0].(*value) == nil {
				return fr.i.makeError("invalid argument")
			}
			h := handle(fr, args[0])
			if h.closed {
				return fr.i.makeError("close " + h.name + ": file already closed")
			}
			h.closed = true
			return iface{}
		}
		ext["(*os.File).Seek"] = func(fr *frame, args []value) value {
			fr.i.p.fsInit()
			h := handle(fr, args[0])
			if isSym(args[1]) {
				v := fr.i.p.concretize(args[1].(sv).t, 0, int64(len(h.f.data)))
				args[1] = v
			}
			off := int(asInt64(args[1]))
			switch args[2].(int) {
			case 0:
				h.pos = off
			case 1:
				h.pos += off
			case 2:
				h.pos = len(h.f.data) + off
			}
			if h.pos < 0 {
				h.pos = 0
				return tuple{int64(0), fr.i.makeError("seek " + h.name + ": invalid argument")}
			}
			return tuple{int64(h.pos), iface{}}
		}
		ext["(*os.File).Write"] = func(fr *frame, args []value) value {
			fr.i.p.fsInit()
			h := handle(fr, args[0])
			if h.closed {
				return tuple{0, fr.i.makeError("write " + h.name + ": file already closed")}
			}
			b := args[1].([]value)
			for len(h.f.data) < h.pos {
				h.f.data = append(h.f.data, uint8(0))
			}
			for _, x := range b {
				if h.pos < len(h.f.data) {
					h.f.data[h.pos] = x
				} else {
					h.f.data = append(h.f.data, x)
				}
				h.pos++
			}
			return tuple{len(b), iface{}}
		}
		ext["(*os.File).Read"] = func(fr *frame, args []value) value {
			fr.i.p.fsInit()
			h := handle(fr, args[0])
			if h.closed {
				return tuple{0, fr.i.makeError("read " + h.name + ": file already closed")}
			}
			b := args[1].([]value)
			if len(b) == 0 {
				return tuple{0, iface{}}
			}
			if h.pos >= len(h.f.data) {
				return tuple{0, ioEOF(fr)}
			}
			n := copy(b, h.f.data[h.pos:])
			h.pos += n
			return tuple{n, iface{}}
		}
		ext["(*os.File).Name"] = func(fr *frame, args []value) value { return handle(fr, args[0]).name }
		ext["(*os.File).Sync"] = func(fr *frame, args []value) value { return iface{} }
		ext["path/filepath.Dir"] = bridge(filepath.Dir)
		ext["path/filepath.Join"] = func(fr *frame, args []value) value {
			var ss []string
			for _, x := range args[0].([]value) {
				ss = append(ss, x.(string))
			}
			return filepath.Join(ss...)
		}
		ext["path/filepath.Base"] = bridge(filepath.Base)
		_ = strings.TrimSpace
		_ = types.Typ
	})
}

func init() {
	extraRegs = append(extraRegs, func() {
		mk := func(fr *frame, pat string) (value, error) {
			re, err := regexp.Compile(pat)
			if err != nil {
				return (*value)(nil), err
			}
			p := fr.i.p
			if p.regexps == nil {
				p.regexps = map[*value]*regexp.Regexp{}
			}
			pkg := fr.i.prog.ImportedPackage("regexp")
			cell := zero(pkg.Type("Regexp").Type())
			c := &cell
			p.regexps[c] = re
			return c, nil
		}
		get := func(fr *frame, v value) *regexp.Regexp {
			re := fr.i.p.regexps[v.(*value)]
			if re == nil {
				panic(unsupported("regexp not created through the model"))
			}
			return re
		}
		externals["regexp.MustCompile"] = func(fr *frame, args []value) value {
			c, err := mk(fr, args[0].(string))
			if err != nil {
				panic(targetPanic{iface{nil, err.Error()}})
			}
			return c
		}
		externals["regexp.Compile"] = func(fr *frame, args []value) value {
			c, err := mk(fr, args[0].(string))
			if err != nil {
				return tuple{c, fr.i.makeError(err.Error())}
			}
			return tuple{c, iface{}}
		}
		externals["(*regexp.Regexp).MatchString"] = func(fr *frame, args []value) value {
			return get(fr, args[0]).MatchString(args[1].(string))
		}
		externals["(*regexp.Regexp).Match"] = func(fr *frame, args []value) value {
			return get(fr, args[0]).Match(valuesToBytes(args[1].([]value)))
		}
		externals["(*regexp.Regexp).FindString"] = func(fr *frame, args []value) value {
			return get(fr, args[0]).FindString(args[1].(string))
		}
		externals["(*regexp.Regexp).ReplaceAllString"] = func(fr *frame, args []value) value {
			return get(fr, args[0]).ReplaceAllString(args[1].(string), args[2].(string))
		}
		externals["(*regexp.Regexp).FindStringSubmatch"] = func(fr *frame, args []value) value {
			ss := get(fr, args[0]).FindStringSubmatch(args[1].(string))
			if ss == nil {
				return []value(nil)
			}
			out := make([]value, len(ss))
			for i := range ss {
				out[i] = ss[i]
			}
			return out
		}
	})
}
