package main

// encoding/json over interpreter values, driven by go/types (field names, tags, custom
// (Un)MarshalJSON / TextMarshaler methods are called through the interpreter). Symbolic leaves
// travel through JSON text as marker strings that Unmarshal turns back into their terms, so
// json.Unmarshal(json.Marshal(x)) preserves symbolic fields.

import (
	"bytes"
	"encoding/base64"
	"encoding/json"
	"fmt"
	"go/types"
	"reflect"
	"sort"
	"strconv"
	"strings"

	"golang.org/x/tools/go/ssa"
)

const symMarkOpen = "\x01SYM:"
const symMarkClose = "\x01"

func (p *Path) symMarker(t *Term) string {
	if p.markers == nil {
		p.markers = map[int]*Term{}
	}
	p.markers[t.id] = t
	return symMarkOpen + strconv.Itoa(t.id) + symMarkClose
}

func (p *Path) markerTerm(s string) (*Term, bool) {
	if !strings.HasPrefix(s, symMarkOpen) || !strings.HasSuffix(s, symMarkClose) || len(s) < len(symMarkOpen)+2 {
		return nil, false
	}
	id, err := strconv.Atoi(s[len(symMarkOpen) : len(s)-1])
	if err != nil {
		return nil, false
	}
	t, ok := p.markers[id]
	return t, ok
}

func findMethod(fr *frame, t types.Type, name string) *ssa.Function {
	ms := fr.i.prog.MethodSets.MethodSet(t)
	for k := 0; k < ms.Len(); k++ {
		if ms.At(k).Obj().Name() == name {
			return fr.i.prog.MethodValue(ms.At(k))
		}
	}
	return nil
}

type jsonEnc struct {
	fr  *frame
	buf bytes.Buffer
}

func jsonFieldName(st *types.Struct, i int) (name string, omitEmpty, skip, asString bool) {
	f := st.Field(i)
	if !f.Exported() {
		return "", false, true, false
	}
	name = f.Name()
	tag := reflect.StructTag(st.Tag(i)).Get("json")
	if tag == "-" {
		return "", false, true, false
	}
	if tag != "" {
		parts := strings.Split(tag, ",")
		if parts[0] != "" {
			name = parts[0]
		}
		for _, o := range parts[1:] {
			if o == "omitempty" {
				omitEmpty = true
			}
			if o == "string" {
				asString = true
			}
		}
	}
	return
}

func isEmptyValue(v value) bool {
	switch v := v.(type) {
	case bool:
		return !v
	case string:
		return v == ""
	case []value:
		return len(v) == 0
	case map[value]value:
		return len(v) == 0
	case *hashmap:
		return v.len() == 0
	case *value:
		return v == nil
	case iface:
		return v.t == nil
	case float64:
		return v == 0
	case sv:
		return false
	}
	if isZeroInt(v) {
		return true
	}
	return false
}

func (e *jsonEnc) errorf(format string, a ...interface{}) {
	panic(jsonErr(fmt.Sprintf(format, a...)))
}

type jsonErr string

func (e *jsonEnc) encode(v value, t types.Type) {
	fr := e.fr
	// custom marshalers
	if _, isPtr := t.Underlying().(*types.Pointer); isPtr {
		if p, ok := v.(*value); ok && p == nil {
			e.buf.WriteString("null")
			return
		}
	}
	if it, ok := t.Underlying().(*types.Interface); ok {
		_ = it
		x := v.(iface)
		if x.t == nil {
			e.buf.WriteString("null")
			return
		}
		e.encode(x.v, x.t)
		return
	}
	if m := findMethod(fr, t, "MarshalJSON"); m != nil {
		r := call(fr.i, fr, fr.callpos, m, []value{v}).(tuple)
		if r[1].(iface).t != nil {
			e.errorf("MarshalJSON error")
		}
		e.writeRaw(r[0].([]value))
		return
	}
	if m := findMethod(fr, t, "MarshalText"); m != nil {
		r := call(fr.i, fr, fr.callpos, m, []value{v}).(tuple)
		if r[1].(iface).t != nil {
			e.errorf("MarshalText error")
		}
		e.str(string(valuesToBytes(r[0].([]value))))
		return
	}
	switch u := t.Underlying().(type) {
	case *types.Basic:
		if s, ok := v.(sv); ok {
			e.str(fr.i.p.symMarker(s.t))
			return
		}
		switch x := v.(type) {
		case bool:
			e.buf.WriteString(strconv.FormatBool(x))
		case string:
			e.str(x)
		case float64:
			b, _ := json.Marshal(x)
			e.buf.Write(b)
		case float32:
			b, _ := json.Marshal(x)
			e.buf.Write(b)
		default:
			if u.Info()&types.IsUnsigned != 0 {
				e.buf.WriteString(strconv.FormatUint(uint64(asInt64(v)), 10))
			} else {
				e.buf.WriteString(strconv.FormatInt(asInt64(v), 10))
			}
		}
	case *types.Pointer:
		p := v.(*value)
		// pointer receiver methods
		e.encode(load(u.Elem(), p), u.Elem())
	case *types.Struct:
		s := v.(structure)
		e.buf.WriteByte('{')
		first := true
		e.structFields(s, u, &first)
		e.buf.WriteByte('}')
	case *types.Slice:
		sl, _ := v.([]value)
		if sl == nil {
			e.buf.WriteString("null")
			return
		}
		if b, ok := u.Elem().Underlying().(*types.Basic); ok && b.Kind() == types.Uint8 {
			e.str(base64.StdEncoding.EncodeToString(valuesToBytes(sl)))
			return
		}
		e.buf.WriteByte('[')
		for i, x := range sl {
			if i > 0 {
				e.buf.WriteByte(',')
			}
			e.encode(x, u.Elem())
		}
		e.buf.WriteByte(']')
	case *types.Array:
		e.buf.WriteByte('[')
		for i, x := range v.(array) {
			if i > 0 {
				e.buf.WriteByte(',')
			}
			e.encode(x, u.Elem())
		}
		e.buf.WriteByte(']')
	case *types.Map:
		type kv struct {
			k string
			v value
		}
		var kvs []kv
		add := func(k, x value) {
			ks := ""
			switch k := k.(type) {
			case string:
				ks = k
			default:
				if m := findMethod(fr, u.Key(), "MarshalText"); m != nil {
					r := call(fr.i, fr, fr.callpos, m, []value{k}).(tuple)
					ks = string(valuesToBytes(r[0].([]value)))
				} else {
					ks = fmt.Sprint(plainNative(k))
				}
			}
			kvs = append(kvs, kv{ks, x})
		}
		switch m := v.(type) {
		case map[value]value:
			if m == nil {
				e.buf.WriteString("null")
				return
			}
			for k, x := range m {
				add(k, x)
			}
		case *hashmap:
			if m == nil {
				e.buf.WriteString("null")
				return
			}
			for _, en := range m.entries() {
				for ; en != nil; en = en.next {
					add(en.key, en.value)
				}
			}
		}
		sort.Slice(kvs, func(i, j int) bool { return kvs[i].k < kvs[j].k })
		e.buf.WriteByte('{')
		for i, x := range kvs {
			if i > 0 {
				e.buf.WriteByte(',')
			}
			e.str(x.k)
			e.buf.WriteByte(':')
			e.encode(x.v, u.Elem())
		}
		e.buf.WriteByte('}')
	default:
		e.errorf("json: unsupported type %s", t)
	}
}

func (e *jsonEnc) structFields(s structure, u *types.Struct, first *bool) {
	for i := 0; i < u.NumFields(); i++ {
		f := u.Field(i)
		tag := reflect.StructTag(u.Tag(i)).Get("json")
		if f.Embedded() && (tag == "" || strings.HasPrefix(tag, ",")) {
			// flatten embedded structs
			ft := f.Type()
			fv := s[i]
			if p, ok := ft.Underlying().(*types.Pointer); ok {
				pv := fv.(*value)
				if pv == nil {
					continue
				}
				ft = p.Elem()
				fv = *pv
			}
			if st, ok := ft.Underlying().(*types.Struct); ok && findMethod(e.fr, f.Type(), "MarshalJSON") == nil {
				e.structFields(fv.(structure), st, first)
				continue
			}
		}
		name, omit, skip, asString := jsonFieldName(u, i)
		if skip {
			continue
		}
		if omit && isEmptyValue(s[i]) {
			continue
		}
		if !*first {
			e.buf.WriteByte(',')
		}
		*first = false
		e.str(name)
		e.buf.WriteByte(':')
		if asString {
			var sub jsonEnc
			sub.fr = e.fr
			sub.encode(s[i], f.Type())
			if sub.buf.Len() > 0 && sub.buf.Bytes()[0] == '"' {
				e.buf.Write(sub.buf.Bytes())
			} else {
				e.str(sub.buf.String())
			}
		} else {
			e.encode(s[i], f.Type())
		}
	}
}

func (e *jsonEnc) str(s string) {
	b, _ := json.Marshal(s)
	e.buf.Write(b)
}

func (e *jsonEnc) writeRaw(b []value) {
	e.buf.Write(valuesToBytes(b))
}

func jsonMarshal(fr *frame, x iface) (res value) {
	defer func() {
		if r := recover(); r != nil {
			if je, ok := r.(jsonErr); ok {
				res = tuple{[]value(nil), fr.i.makeError(string(je))}
				return
			}
			panic(r)
		}
	}()
	if x.t == nil {
		return tuple{bytesToValues([]byte("null")), iface{}}
	}
	e := &jsonEnc{fr: fr}
	e.encode(x.v, x.t)
	return tuple{bytesToValues(e.buf.Bytes()), iface{}}
}

// ---- decoding ----

type jsonDec struct{ fr *frame }

func (d *jsonDec) errorf(format string, a ...interface{}) {
	panic(jsonErr(fmt.Sprintf(format, a...)))
}

func rawOf(g interface{}) []byte {
	b, _ := json.Marshal(g)
	return b
}

// decodeInto stores generic JSON value g into the cell at addr of type t.
func (d *jsonDec) decodeInto(g interface{}, addr *value, t types.Type) {
	fr := d.fr
	// custom unmarshalers (pointer receiver)
	pt := types.NewPointer(t)
	if _, isIface := t.Underlying().(*types.Interface); !isIface {
		if m := findMethod(fr, pt, "UnmarshalJSON"); m != nil {
			if g == nil {
				if _, isPtr := t.Underlying().(*types.Pointer); isPtr {
					*addr = zero(t)
					return
				}
			}
			r := call(fr.i, fr, fr.callpos, m, []value{addr, bytesToValues(rawOf(g))})
			if r.(iface).t != nil {
				msg, _ := callMethodByName(fr, r.(iface), "Error")
				d.errorf("%v", msg)
			}
			return
		}
		if m := findMethod(fr, pt, "UnmarshalText"); m != nil {
			if s, ok := g.(string); ok {
				r := call(fr.i, fr, fr.callpos, m, []value{addr, bytesToValues([]byte(s))})
				if r.(iface).t != nil {
					msg, _ := callMethodByName(fr, r.(iface), "Error")
					d.errorf("%v", msg)
				}
				return
			}
		}
	}
	if g == nil {
		switch t.Underlying().(type) {
		case *types.Pointer, *types.Slice, *types.Map, *types.Interface:
			*addr = zero(t)
		}
		return
	}
	switch u := t.Underlying().(type) {
	case *types.Pointer:
		p, _ := (*addr).(*value)
		if p == nil {
			cell := zero(u.Elem())
			p = &cell
			*addr = p
		}
		d.decodeInto(g, p, u.Elem())
	case *types.Basic:
		if s, ok := g.(string); ok {
			if term, ok := fr.i.p.markerTerm(s); ok {
				kind, bits, signed, ok := shapeOf(u)
				if !ok {
					if u.Kind() == types.String {
						*addr = s
						return
					}
					d.errorf("json: symbolic value into %s", t)
				}
				switch {
				case kind == KInt && term.kind == KInt:
					*addr = sv{term.store.Conv(term, bits, signed)}
				case kind == term.kind:
					*addr = sv{term}
				default:
					d.errorf("json: symbolic kind mismatch for %s", t)
				}
				return
			}
		}
		switch {
		case u.Kind() == types.String:
			s, ok := g.(string)
			if !ok {
				d.errorf("json: cannot unmarshal %T into Go value of type %s", g, t)
			}
			*addr = s
		case u.Kind() == types.Bool:
			b, ok := g.(bool)
			if !ok {
				d.errorf("json: cannot unmarshal %T into Go value of type %s", g, t)
			}
			*addr = b
		case u.Info()&types.IsFloat != 0:
			n, ok := g.(json.Number)
			if !ok {
				d.errorf("json: cannot unmarshal %T into Go value of type %s", g, t)
			}
			f, err := n.Float64()
			if err != nil {
				d.errorf("json: %v", err)
			}
			if u.Kind() == types.Float32 {
				*addr = float32(f)
			} else {
				*addr = f
			}
		case u.Info()&types.IsInteger != 0:
			n, ok := g.(json.Number)
			if !ok {
				d.errorf("json: cannot unmarshal %T into Go value of type %s", g, t)
			}
			if u.Info()&types.IsUnsigned != 0 {
				x, err := strconv.ParseUint(string(n), 10, 64)
				if err != nil {
					d.errorf("json: cannot unmarshal number %s into Go value of type %s", n, t)
				}
				*addr = goValueOfKind(u.Kind(), x)
			} else {
				x, err := strconv.ParseInt(string(n), 10, 64)
				if err != nil {
					d.errorf("json: cannot unmarshal number %s into Go value of type %s", n, t)
				}
				*addr = goValueOfKind(u.Kind(), uint64(x))
			}
		default:
			d.errorf("json: unsupported basic type %s", t)
		}
	case *types.Struct:
		m, ok := g.(map[string]interface{})
		if !ok {
			d.errorf("json: cannot unmarshal %T into Go value of type %s", g, t)
		}
		s := (*addr).(structure)
		d.structFields(m, s, u)
	case *types.Slice:
		if b, ok := u.Elem().Underlying().(*types.Basic); ok && b.Kind() == types.Uint8 {
			if s, ok := g.(string); ok {
				raw, err := base64.StdEncoding.DecodeString(s)
				if err != nil {
					d.errorf("json: %v", err)
				}
				*addr = bytesToValues(raw)
				return
			}
		}
		arr, ok := g.([]interface{})
		if !ok {
			d.errorf("json: cannot unmarshal %T into Go value of type %s", g, t)
		}
		out := make([]value, len(arr))
		for i := range arr {
			out[i] = zero(u.Elem())
			d.decodeInto(arr[i], &out[i], u.Elem())
		}
		*addr = out
	case *types.Array:
		arr, ok := g.([]interface{})
		if !ok {
			d.errorf("json: cannot unmarshal %T into array", g)
		}
		a := (*addr).(array)
		for i := range a {
			if i < len(arr) {
				d.decodeInto(arr[i], &a[i], u.Elem())
			}
		}
	case *types.Map:
		m, ok := g.(map[string]interface{})
		if !ok {
			d.errorf("json: cannot unmarshal %T into Go value of type %s", g, t)
		}
		if isNilMap(*addr) {
			*addr = makeMap(u.Key(), int64(len(m)))
		}
		keys := make([]string, 0, len(m))
		for k := range m {
			keys = append(keys, k)
		}
		sort.Strings(keys)
		for _, k := range keys {
			var kv value
			kb, _ := u.Key().Underlying().(*types.Basic)
			switch {
			case kb != nil && kb.Kind() == types.String:
				kv = k
			case kb != nil && kb.Info()&types.IsInteger != 0:
				x, err := strconv.ParseInt(k, 10, 64)
				if err != nil {
					d.errorf("json: bad map key %q", k)
				}
				kv = goValueOfKind(kb.Kind(), uint64(x))
			default:
				d.errorf("json: unsupported map key type %s", u.Key())
			}
			cell := zero(u.Elem())
			d.decodeInto(m[k], &cell, u.Elem())
			switch mm := (*addr).(type) {
			case map[value]value:
				mm[kv] = cell
			case *hashmap:
				mm.insert(kv.(hashable), cell)
			}
		}
	case *types.Interface:
		*addr = d.generic(g)
	default:
		d.errorf("json: unsupported type %s", t)
	}
}

func isNilMap(v value) bool {
	switch m := v.(type) {
	case map[value]value:
		return m == nil
	case *hashmap:
		return m == nil
	}
	return true
}

var (
	tEmptyIface = types.NewInterfaceType(nil, nil)
	tString     = types.Typ[types.String]
	tFloat64    = types.Typ[types.Float64]
	tBool       = types.Typ[types.Bool]
)

func (d *jsonDec) generic(g interface{}) value {
	switch x := g.(type) {
	case nil:
		return iface{}
	case string:
		return iface{tString, x}
	case bool:
		return iface{tBool, x}
	case json.Number:
		f, _ := x.Float64()
		return iface{tFloat64, f}
	case []interface{}:
		out := make([]value, len(x))
		for i := range x {
			out[i] = d.generic(x[i])
		}
		return iface{types.NewSlice(tEmptyIface), out}
	case map[string]interface{}:
		m := map[value]value{}
		for k, v := range x {
			m[k] = d.generic(v)
		}
		return iface{types.NewMap(tString, tEmptyIface), m}
	}
	return iface{}
}

func (d *jsonDec) structFields(m map[string]interface{}, s structure, u *types.Struct) {
	for i := 0; i < u.NumFields(); i++ {
		f := u.Field(i)
		tag := reflect.StructTag(u.Tag(i)).Get("json")
		if f.Embedded() && (tag == "" || strings.HasPrefix(tag, ",")) {
			ft := f.Type()
			if p, ok := ft.Underlying().(*types.Pointer); ok {
				if st, ok := p.Elem().Underlying().(*types.Struct); ok {
					pv, _ := s[i].(*value)
					if pv == nil {
						cell := zero(p.Elem())
						pv = &cell
						s[i] = pv
					}
					d.structFields(m, (*pv).(structure), st)
					continue
				}
			} else if st, ok := ft.Underlying().(*types.Struct); ok {
				d.structFields(m, s[i].(structure), st)
				continue
			}
		}
		name, _, skip, asString := jsonFieldName(u, i)
		if skip {
			continue
		}
		var g interface{}
		found := false
		if x, ok := m[name]; ok {
			g, found = x, true
		} else {
			for k, x := range m {
				if strings.EqualFold(k, name) {
					g, found = x, true
					break
				}
			}
		}
		if !found {
			continue
		}
		if asString {
			if sx, ok := g.(string); ok {
				if _, isMarker := d.fr.i.p.markerTerm(sx); !isMarker {
					var inner interface{}
					dec := json.NewDecoder(strings.NewReader(sx))
					dec.UseNumber()
					if err := dec.Decode(&inner); err == nil {
						g = inner
					}
				}
			}
		}
		d.decodeInto(g, &s[i], f.Type())
	}
}

func jsonUnmarshal(fr *frame, data []value, target iface) (res value) {
	defer func() {
		if r := recover(); r != nil {
			if je, ok := r.(jsonErr); ok {
				res = fr.i.makeError(string(je))
				return
			}
			panic(r)
		}
	}()
	raw := valuesToBytes(data)
	var g interface{}
	dec := json.NewDecoder(bytes.NewReader(raw))
	dec.UseNumber()
	if err := dec.Decode(&g); err != nil {
		return fr.i.makeError(err.Error())
	}
	if dec.More() {
		return fr.i.makeError("invalid character after top-level value")
	}
	pt, ok := target.t.Underlying().(*types.Pointer)
	if !ok || target.v.(*value) == nil {
		return fr.i.makeError("json: Unmarshal(non-pointer " + fmt.Sprint(target.t) + ")")
	}
	d := &jsonDec{fr: fr}
	d.decodeInto(g, target.v.(*value), pt.Elem())
	return iface{}
}

func init() {
	extraRegs = append(extraRegs, func() {
		externals["encoding/json.Marshal"] = func(fr *frame, args []value) value { return jsonMarshal(fr, args[0].(iface)) }
		externals["encoding/json.MarshalIndent"] = func(fr *frame, args []value) value { return jsonMarshal(fr, args[0].(iface)) }
		externals["encoding/json.Unmarshal"] = func(fr *frame, args []value) value {
			return jsonUnmarshal(fr, args[0].([]value), args[1].(iface))
		}
		// common.ToJSON = json.NewEncoder(buf).Encode(entity): the JSON text plus a newline in a bytes.Buffer
		externals["0chain.net/core/common.ToJSON"] = func(fr *frame, args []value) value {
			r := jsonMarshal(fr, args[0].(iface)).(tuple)
			bp := fr.i.prog.ImportedPackage("bytes")
			if bp == nil {
				panic(unsupported("common.ToJSON: package bytes not loaded"))
			}
			if e := r[1].(iface); e.t != nil {
				var nilBuf *value
				return tuple{nilBuf, e}
			}
			data := append(append([]value{}, r[0].([]value)...), uint8('\n'))
			buf := call(fr.i, fr, fr.callpos, bp.Func("NewBuffer"), []value{data})
			return tuple{buf, iface{}}
		}
		externals["encoding/json.Valid"] = func(fr *frame, args []value) value { return json.Valid(valuesToBytes(args[0].([]value))) }
	})
}
