// Copyright 2013 The Go Authors. All rights reserved.
// Use of this source code is governed by a BSD-style
// license that can be found in the LICENSE file.

package main

// Values
//
// All interpreter values are "boxed" in the empty interface, value.
// The range of possible dynamic types within value are:
//
// - bool
// - numbers (all built-in int/float/complex types are distinguished)
// - string
// - map[value]value --- maps for which  usesBuiltinMap(keyType)
//   *hashmap        --- maps for which !usesBuiltinMap(keyType)
// - *chanv
// - []value --- slices
// - iface --- interfaces.
// - structure --- structs.  Fields are ordered and accessed by numeric indices.
// - array --- arrays.
// - *value --- pointers.  Careful: *value is a distinct type from *array etc.
// - *ssa.Function \
//   *ssa.Builtin   } --- functions.  A nil 'func' is always of type *ssa.Function.
//   *closure      /
// - tuple --- as returned by Return, Next, "value,ok" modes, etc.
// - iter --- iterators from 'range' over map or string.
// - bad --- a poison pill for locals that have gone out of scope.
// - rtype -- the interpreter's concrete implementation of reflect.Type
// - **deferred -- the address of a frame's defer stack for a Defer._Stack.
//
// Note that nil is not on this list.
//
// Pay close attention to whether or not the dynamic type is a pointer.
// The compiler cannot help you since value is an empty interface.

import (
	"bytes"
	"fmt"
	"go/types"
	"io"
	"strings"
	"sync"
	"unsafe"

	"golang.org/x/tools/go/ssa"
	"golang.org/x/tools/go/types/typeutil"
)

type value interface{}

type tuple []value

type array []value

type iface struct {
	t types.Type // never an "untyped" type
	v value
}

type structure []value

// For map, array, *array, slice, string or channel.
type iter interface {
	// next returns a Tuple (key, value, ok).
	// key and value are unaliased, e.g. copies of the sequence element.
	next() tuple
}

type closure struct {
	Fn  *ssa.Function
	Env []value
}

type bad struct{}

type rtype struct {
	t types.Type
}

// Hash functions and equivalence relation:

// hashString computes the FNV hash of s.
func hashString(s string) int {
	var h uint32
	for i := 0; i < len(s); i++ {
		h ^= uint32(s[i])
		h *= 16777619
	}
	return int(h)
}

var (
	mu     sync.Mutex
	hasher = typeutil.MakeHasher()
)

// hashType returns a hash for t such that
// types.Identical(x, y) => hashType(x) == hashType(y).
func hashType(t types.Type) int {
	mu.Lock()
	defer mu.Unlock()
	return int(hasher.Hash(t))
}

// usesBuiltinMap returns true if the built-in hash function and
// equivalence relation for type t are consistent with those of the
// interpreter's representation of type t.  Such types are: all basic
// types (bool, numbers, string), pointers and channels.
//
// usesBuiltinMap returns false for types that require a custom map
// implementation: interfaces, arrays and structs.
//
// Panic ensues if t is an invalid map key type: function, map or slice.
func usesBuiltinMap(t types.Type) bool {
	switch t := t.(type) {
	case *types.Basic, *types.Chan, *types.Pointer:
		return true
	case *types.Named, *types.Alias:
		return usesBuiltinMap(t.Underlying())
	case *types.Interface, *types.Array, *types.Struct:
		return false
	}
	panic(fmt.Sprintf("invalid map key type: %T", t))
}

func (x array) eq(t types.Type, _y interface{}) bool {
	y := _y.(array)
	tElt := t.Underlying().(*types.Array).Elem()
	for i, xi := range x {
		if !equals(tElt, xi, y[i]) {
			return false
		}
	}
	return true
}

func (x array) hash(t types.Type) int {
	h := 0
	tElt := t.Underlying().(*types.Array).Elem()
	for _, xi := range x {
		h += hash(t, tElt, xi)
	}
	return h
}

func (x structure) eq(t types.Type, _y interface{}) bool {
	y := _y.(structure)
	tStruct := t.Underlying().(*types.Struct)
	for i, n := 0, tStruct.NumFields(); i < n; i++ {
		if f := tStruct.Field(i); !f.Anonymous() {
			if !equals(f.Type(), x[i], y[i]) {
				return false
			}
		}
	}
	return true
}

func (x structure) hash(t types.Type) int {
	tStruct := t.Underlying().(*types.Struct)
	h := 0
	for i, n := 0, tStruct.NumFields(); i < n; i++ {
		if f := tStruct.Field(i); !f.Anonymous() {
			h += hash(t, f.Type(), x[i])
		}
	}
	return h
}

// nil-tolerant variant of types.Identical.
func sameType(x, y types.Type) bool {
	if x == nil {
		return y == nil
	}
	return y != nil && types.Identical(x, y)
}

func (x iface) eq(t types.Type, _y interface{}) bool {
	y := _y.(iface)
	return sameType(x.t, y.t) && (x.t == nil || equals(x.t, x.v, y.v))
}

func (x iface) hash(outer types.Type) int {
	return hashType(x.t)*8581 + hash(outer, x.t, x.v)
}

func (x rtype) hash(_ types.Type) int {
	return hashType(x.t)
}

func (x rtype) eq(_ types.Type, y interface{}) bool {
	return types.Identical(x.t, y.(rtype).t)
}

// equals returns true iff x and y are equal according to Go's
// linguistic equivalence relation for type t.
// In a well-typed program, the dynamic types of x and y are
// guaranteed equal.
func equals(t types.Type, x, y value) bool {
	switch x := x.(type) {
	case bool:
		return x == y.(bool)
	case int:
		return x == y.(int)
	case int8:
		return x == y.(int8)
	case int16:
		return x == y.(int16)
	case int32:
		return x == y.(int32)
	case int64:
		return x == y.(int64)
	case uint:
		return x == y.(uint)
	case uint8:
		return x == y.(uint8)
	case uint16:
		return x == y.(uint16)
	case uint32:
		return x == y.(uint32)
	case uint64:
		return x == y.(uint64)
	case uintptr:
		return x == y.(uintptr)
	case float32:
		return x == y.(float32)
	case float64:
		return x == y.(float64)
	case complex64:
		return x == y.(complex64)
	case complex128:
		return x == y.(complex128)
	case string:
		return x == y.(string)
	case *value:
		return x == y.(*value)
	case *chanv:
		return x == y.(*chanv)
	case structure:
		return x.eq(t, y)
	case array:
		return x.eq(t, y)
	case iface:
		return x.eq(t, y)
	case rtype:
		return x.eq(t, y)
	}
	if _, ok := x.(sv); ok {
		panic(unsupported("symbolic value used as a map key or in a Go-level comparison"))
	}

	// Since map, func and slice don't support comparison, this
	// case is only reachable if one of x or y is literally nil
	// (handled in eqnil) or via interface{} values.
	panic(fmt.Sprintf("comparing uncomparable type %s", t))
}

// Returns an integer hash of x such that equals(x, y) => hash(x) == hash(y).
// The outer type is used only for the "unhashable" panic message.
func hash(outer, t types.Type, x value) int {
	switch x := x.(type) {
	case bool:
		if x {
			return 1
		}
		return 0
	case int:
		return x
	case int8:
		return int(x)
	case int16:
		return int(x)
	case int32:
		return int(x)
	case int64:
		return int(x)
	case uint:
		return int(x)
	case uint8:
		return int(x)
	case uint16:
		return int(x)
	case uint32:
		return int(x)
	case uint64:
		return int(x)
	case uintptr:
		return int(x)
	case float32:
		return int(x)
	case float64:
		return int(x)
	case complex64:
		return int(real(x))
	case complex128:
		return int(real(x))
	case string:
		return hashString(x)
	case *value:
		return int(uintptr(unsafe.Pointer(x)))
	case *chanv:
		return int(uintptr(unsafe.Pointer(x)))
	case structure:
		return x.hash(t)
	case array:
		return x.hash(t)
	case iface:
		return x.hash(t)
	case rtype:
		return x.hash(t)
	}
	panic(fmt.Sprintf("unhashable type %v", outer))
}

// reflect.Value struct values don't have a fixed shape, since the
// payload can be a scalar or an aggregate depending on the instance.
// So store (and load) can't simply use recursion over the shape of the
// rhs value, or the lhs, to copy the value; we need the static type
// information.  (We can't make reflect.Value a new basic data type
// because its "structness" is exposed to Go programs.)

// load returns the value of type T in *addr.
func load(T types.Type, addr *value) value {
	switch T := T.Underlying().(type) {
	case *types.Struct:
		v, ok := (*addr).(structure)
		if !ok {
			return *addr // an opaque model cell standing for a library struct (e.g. a BLS signature)
		}
		a := make(structure, len(v))
		for i := range a {
			a[i] = load(T.Field(i).Type(), &v[i])
		}
		return a
	case *types.Array:
		v := (*addr).(array)
		a := make(array, len(v))
		for i := range a {
			a[i] = load(T.Elem(), &v[i])
		}
		return a
	default:
		return *addr
	}
}

// store stores value v of type T into *addr.
func store(T types.Type, addr *value, v value) {
	switch T := T.Underlying().(type) {
	case *types.Struct:
		lhs, ok1 := (*addr).(structure)
		rhs, ok2 := v.(structure)
		if !ok1 || !ok2 {
			*addr = v // opaque model cell (see load)
			return
		}
		for i := range lhs {
			store(T.Field(i).Type(), &lhs[i], rhs[i])
		}
	case *types.Array:
		lhs := (*addr).(array)
		rhs := v.(array)
		for i := range lhs {
			store(T.Elem(), &lhs[i], rhs[i])
		}
	default:
		*addr = v
	}
}

// Prints in the style of built-in println.
// (More or less; in gc println is actually a compiler intrinsic and
// can distinguish println(1) from println(interface{}(1)).)
func writeValue(buf *bytes.Buffer, v value) {
	switch v := v.(type) {
	case sv:
		buf.WriteString("<" + v.t.String() + ">")

	case nil, bool, int, int8, int16, int32, int64, uint, uint8, uint16, uint32, uint64, uintptr, float32, float64, complex64, complex128, string:
		fmt.Fprintf(buf, "%v", v)

	case map[value]value:
		buf.WriteString("map[")
		sep := ""
		for k, e := range v {
			buf.WriteString(sep)
			sep = " "
			writeValue(buf, k)
			buf.WriteString(":")
			writeValue(buf, e)
		}
		buf.WriteString("]")

	case *hashmap:
		buf.WriteString("map[")
		sep := " "
		for _, e := range v.entries() {
			for e != nil {
				buf.WriteString(sep)
				sep = " "
				writeValue(buf, e.key)
				buf.WriteString(":")
				writeValue(buf, e.value)
				e = e.next
			}
		}
		buf.WriteString("]")

	case *chanv:
		fmt.Fprintf(buf, "%v", v) // (an address)

	case *value:
		if v == nil {
			buf.WriteString("<nil>")
		} else {
			fmt.Fprintf(buf, "%p", v)
		}

	case iface:
		fmt.Fprintf(buf, "(%s, ", v.t)
		writeValue(buf, v.v)
		buf.WriteString(")")

	case structure:
		buf.WriteString("{")
		for i, e := range v {
			if i > 0 {
				buf.WriteString(" ")
			}
			writeValue(buf, e)
		}
		buf.WriteString("}")

	case array:
		buf.WriteString("[")
		for i, e := range v {
			if i > 0 {
				buf.WriteString(" ")
			}
			writeValue(buf, e)
		}
		buf.WriteString("]")

	case []value:
		buf.WriteString("[")
		for i, e := range v {
			if i > 0 {
				buf.WriteString(" ")
			}
			writeValue(buf, e)
		}
		buf.WriteString("]")

	case *ssa.Function, *ssa.Builtin, *closure:
		fmt.Fprintf(buf, "%p", v) // (an address)

	case rtype:
		buf.WriteString(v.t.String())

	case tuple:
		// Unreachable in well-formed Go programs
		buf.WriteString("(")
		for i, e := range v {
			if i > 0 {
				buf.WriteString(", ")
			}
			writeValue(buf, e)
		}
		buf.WriteString(")")

	default:
		fmt.Fprintf(buf, "<%T>", v)
	}
}

// Implements printing of Go values in the style of built-in println.
func toString(v value) string {
	var b bytes.Buffer
	writeValue(&b, v)
	return b.String()
}

// ------------------------------------------------------------------------
// Iterators

type stringIter struct {
	*strings.Reader
	i int
}

func (it *stringIter) next() tuple {
	okv := make(tuple, 3)
	ch, n, err := it.ReadRune()
	ok := err != io.EOF
	okv[0] = ok
	if ok {
		okv[1] = it.i
		okv[2] = ch
	}
	it.i += n
	return okv
}

// Map iteration is made deterministic (keys sorted by their printed form) and then
// permuted by the path's current map-order policy; see (*Path).orderKeys.
type listIter struct {
	keys []value
	vals []value
	i    int
}

func (it *listIter) next() tuple {
	if it.i >= len(it.keys) {
		return []value{false, nil, nil}
	}
	k, v := it.keys[it.i], it.vals[it.i]
	it.i++
	return []value{true, k, v}
}
