package main

// Native replay: compile the same harness sources into the real package with
// `go test -overlay` and run them on concrete vectors (solver models / cover witnesses).

import (
	"bytes"
	"context"
	"encoding/json"
	"fmt"
	"os"
	"os/exec"
	"path/filepath"
	"regexp"
	"sort"
	"strconv"
	"strings"
	"sync"
	"time"
)

type nativeResult struct {
	Ran      bool
	Failures []string
	Panic    string
	Timeout  bool
	Observed []string
}

func runNative(ld *loaded, id string, cases []ReplayCase) (map[int]nativeResult, error) {
	out := map[int]nativeResult{}
	byPkg := map[string][]int{}
	for i, c := range cases {
		byPkg[c.Pkg] = append(byPkg[c.Pkg], i)
	}
	tmp, err := os.MkdirTemp("", "verif-replay-")
	if err != nil {
		return out, err
	}
	defer os.RemoveAll(tmp)
	var firstErr error
	for pkg, idxs := range byPkg {
		sp := ld.pkgs[pkg]
		if sp == nil {
			continue
		}
		pkgName := sp.Pkg.Name()
		rel := strings.TrimPrefix(strings.TrimPrefix(pkg, "0chain.net/"), "verifh/")
		pkgDir := ld.dirs[pkg]
		if pkgDir == "" {
			pkgDir = filepath.Join(repoMod, rel)
		}
		// cases file
		var sub []ReplayCase
		for _, i := range idxs {
			sub = append(sub, cases[i])
		}
		cf := filepath.Join(tmp, "cases-"+strings.ReplaceAll(rel, "/", "_")+".json")
		data, _ := json.Marshal(sub)
		os.WriteFile(cf, data, 0o644)
		// generated test file
		hset := map[string]bool{}
		for _, c := range sub {
			hset[c.Harness] = true
		}
		var hn []string
		for h := range hset {
			hn = append(hn, h)
		}
		sort.Strings(hn)
		var tb strings.Builder
		fmt.Fprintf(&tb, "package %s\n\nimport (\n\t\"testing\"\n\t\"0chain.net/zzverif/sym\"\n)\n\nfunc TestVerifReplay(t *testing.T) {\n\tsym.RunReplays(map[string]func(){\n", pkgName)
		for _, h := range hn {
			fmt.Fprintf(&tb, "\t\t%q: %s,\n", h, h)
		}
		tb.WriteString("\t})\n}\n")
		tf := filepath.Join(tmp, "zz_verif_replay_"+strings.ReplaceAll(rel, "/", "_")+"_test.go")
		os.WriteFile(tf, []byte(tb.String()), 0o644)
		// overlay
		repl := map[string]string{}
		for virt, real := range overlaySrcPaths {
			if strings.HasSuffix(virt, "_test.go") {
				continue
			}
			repl[virt] = real
		}
		if ents, err := os.ReadDir(pkgDir); err == nil {
			for _, e := range ents {
				if strings.HasSuffix(e.Name(), "_test.go") {
					repl[filepath.Join(pkgDir, e.Name())] = ""
				}
			}
		}
		repl[filepath.Join(pkgDir, "zz_verif_replay_test.go")] = tf
		ovj, _ := json.Marshal(map[string]interface{}{"Replace": repl})
		of := filepath.Join(tmp, "overlay-"+strings.ReplaceAll(rel, "/", "_")+".json")
		os.WriteFile(of, ovj, 0o644)

		ctx, cancel := context.WithTimeout(context.Background(), 15*time.Minute)
		cmd := exec.CommandContext(ctx, "go", "test", "-overlay", of, "-vet=off", "-count=1", "-run", "^TestVerifReplay$", "-timeout", "600s", "-v", pkg)
		cmd.Dir = hmodDir
		cmd.Env = append(goEnv(), "VERIF_REPLAY="+cf)
		var buf bytes.Buffer
		cmd.Stdout = &buf
		cmd.Stderr = &buf
		err := cmd.Run()
		cancel()
		txt := buf.String()
		res := parseNative(txt, len(sub))
		ran := false
		for k, i := range idxs {
			if r, ok := res[k]; ok {
				out[i] = r
				ran = true
			}
		}
		if !ran {
			if firstErr == nil {
				firstErr = fmt.Errorf("go test %s produced no case results (err=%v): %s", pkg, err, clip(txt, 1500))
			}
		}
	}
	return out, firstErr
}

var reCase = regexp.MustCompile(`^VERIF-CASE (\d+) (BEGIN|END|TIMEOUT)(.*)$`)

func parseNative(txt string, n int) map[int]nativeResult {
	res := map[int]nativeResult{}
	cur := -1
	for _, line := range strings.Split(txt, "\n") {
		line = strings.TrimSpace(line)
		if m := reCase.FindStringSubmatch(line); m != nil {
			k, _ := strconv.Atoi(m[1])
			r := res[k]
			switch m[2] {
			case "BEGIN":
				cur = k
				r.Ran = true
			case "END":
				if strings.HasPrefix(m[3], " panic=") {
					r.Panic = strings.TrimPrefix(m[3], " panic=")
				}
				cur = -1
			case "TIMEOUT":
				r.Timeout = true
				cur = -1
			}
			res[k] = r
			continue
		}
		if cur >= 0 {
			r := res[cur]
			if strings.HasPrefix(line, "VERIF-ASSERT-FAIL ") {
				if l := strings.TrimPrefix(line, "VERIF-ASSERT-FAIL "); !contains(r.Failures, l) {
					r.Failures = append(r.Failures, l)
				}
			} else if strings.HasPrefix(line, "VERIF-OBSERVE ") {
				r.Observed = append(r.Observed, strings.TrimPrefix(line, "VERIF-OBSERVE "))
			}
			res[cur] = r
		}
	}
	return res
}

// crossCheck re-runs recorded obligation scripts on z3-new and cvc5 and reports disagreements.
func crossCheck(r *HarnessResult, enc Encoding) []string {
	type job struct {
		label, text, want string
	}
	var jobs []job
	for _, o := range r.Obligations {
		for _, s := range o.Scripts {
			jobs = append(jobs, job{o.Label, s.Text, s.Result})
		}
	}
	var mu sync.Mutex
	var diffs []string
	sem := make(chan struct{}, 8)
	var wg sync.WaitGroup
	for _, j := range jobs {
		for _, solver := range []string{"z3-new", "cvc5"} {
			wg.Add(1)
			sem <- struct{}{}
			go func(j job, solver string) {
				defer wg.Done()
				defer func() { <-sem }()
				got := runScript(solver, j.text, 30)
				mu.Lock()
				r.CrossChecked++
				if got != "unknown" && j.want != "unknown" && got != j.want {
					diffs = append(diffs, fmt.Sprintf("%s: obligation %q: z3=%s %s=%s", r.Name, j.label, j.want, solver, got))
				}
				if got == "unknown" {
					r.CrossUnknown++
				}
				mu.Unlock()
			}(j, solver)
		}
	}
	wg.Wait()
	return diffs
}

func runScript(solver, text string, secs int) string {
	var argv []string
	switch solver {
	case "z3-new":
		argv = []string{"z3-new", "-in", fmt.Sprintf("-T:%d", secs)}
	case "cvc5":
		argv = []string{"cvc5", "--lang=smt2", fmt.Sprintf("--tlimit=%d", secs*1000)}
	case "z3":
		argv = []string{"z3", "-in", fmt.Sprintf("-T:%d", secs)}
	}
	cmd := exec.Command(argv[0], argv[1:]...)
	cmd.Stdin = strings.NewReader(text)
	out, _ := cmd.CombinedOutput()
	s := string(out)
	if strings.Contains(s, "(error") {
		return "unknown"
	}
	for _, l := range strings.Split(s, "\n") {
		l = strings.TrimSpace(l)
		if l == "sat" || l == "unsat" {
			return l
		}
	}
	return "unknown"
}
