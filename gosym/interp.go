// Derived from golang.org/x/tools/go/ssa/interp (BSD-style licence, The Go Authors),
// generalised from concrete values to symbolic leaves with path forking.

package main

import (
	"fmt"
	"go/token"
	"go/types"
	"os"
	"runtime"
	"slices"
	"strings"

	"golang.org/x/tools/go/ssa"
)

type continuation int

const (
	kNext continuation = iota
	kReturn
	kJump
)

type Mode uint

const (
	DisableRecover Mode = 1 << iota
	EnableTracing
)

type methodSet map[string]*ssa.Function

// interpreter: state of one path execution.
type interpreter struct {
	prog               *ssa.Program
	skipExt            *ssa.Function
	globals            map[*ssa.Global]*value
	mode               Mode
	runtimeErrorString types.Type
	sizes              types.Sizes
	p                  *Path
	inited             map[*ssa.Package]bool
	depth              int
}

type deferred struct {
	fn    value
	args  []value
	instr *ssa.Defer
	tail  *deferred
}

type frame struct {
	i                *interpreter
	caller           *frame
	fn               *ssa.Function
	block, prevBlock *ssa.BasicBlock
	env              map[ssa.Value]value
	locals           []value
	defers           *deferred
	result           value
	panicking        bool
	panic            interface{}
	phitemps         []value
	callpos          token.Pos
}

func (fr *frame) get(key ssa.Value) value {
	switch key := key.(type) {
	case nil:
		return nil
	case *ssa.Function, *ssa.Builtin:
		return key
	case *ssa.Const:
		return constValue(key)
	case *ssa.Global:
		return fr.i.global(key)
	}
	if r, ok := fr.env[key]; ok {
		return r
	}
	panic(fmt.Sprintf("get: no value for %T: %v", key, key.Name()))
}

// global returns the cell of g, creating it (zeroed) and running the owning package's
// initialiser on first touch when that package is in the init allow-list.
func (i *interpreter) global(g *ssa.Global) *value {
	if r, ok := i.globals[g]; ok {
		return r
	}
	cell := zero(mustDeref(g.Type()))
	i.globals[g] = &cell
	i.ensureInit(g.Pkg)
	return &cell
}

func (fr *frame) runDefer(d *deferred) {
	var ok bool
	defer func() {
		if !ok {
			r := recover()
			if isAbort(r) {
				panic(r)
			}
			fr.panicking = true
			fr.panic = r
		}
	}()
	call(fr.i, fr, d.instr.Pos(), d.fn, d.args)
	ok = true
}

func (fr *frame) runDefers() {
	for d := fr.defers; d != nil; d = d.tail {
		fr.runDefer(d)
	}
	fr.defers = nil
	if fr.panicking {
		panic(fr.panic)
	}
}

func lookupMethod(i *interpreter, typ types.Type, meth *types.Func) *ssa.Function {
	return i.prog.LookupMethod(typ, meth.Pkg(), meth.Name())
}

func visitInstr(fr *frame, instr ssa.Instruction) continuation {
	p := fr.i.p
	p.steps++
	p.curInstr = instr
	if p.profile != nil {
		p.profile[fr.fn]++
	}
	if p.steps > p.stepBudget {
		panic(pathAbort{kind: "budget", msg: "step budget exceeded (possible non-termination)", pos: fr.i.prog.Fset.Position(instr.Pos()).String(), fn: fr.fn.String()})
	}
	switch instr := instr.(type) {
	case *ssa.DebugRef:
		// no-op

	case *ssa.UnOp:
		fr.env[instr] = unop(fr, instr, fr.get(instr.X))

	case *ssa.BinOp:
		x, y := fr.get(instr.X), fr.get(instr.Y)
		if xs, ok := x.(string); ok && (instr.Op == token.EQL || instr.Op == token.NEQ) {
			if ys, ok := y.(string); ok {
				r := strEqValue(fr, xs, ys)
				if instr.Op == token.NEQ {
					r = symNot(r)
				}
				fr.env[instr] = r
				break
			}
		}
		fr.env[instr] = binop(instr.Op, instr.X.Type(), x, y)

	case *ssa.Call:
		fn, args := prepareCall(fr, &instr.Call)
		fr.env[instr] = call(fr.i, fr, instr.Pos(), fn, args)

	case *ssa.ChangeInterface:
		fr.env[instr] = fr.get(instr.X)

	case *ssa.ChangeType:
		fr.env[instr] = fr.get(instr.X)

	case *ssa.Convert:
		fr.env[instr] = conv(instr.Type(), instr.X.Type(), fr.get(instr.X))

	case *ssa.SliceToArrayPointer:
		fr.env[instr] = sliceToArrayPointer(instr.Type(), instr.X.Type(), fr.get(instr.X))

	case *ssa.MakeInterface:
		fr.env[instr] = iface{t: instr.X.Type(), v: fr.get(instr.X)}

	case *ssa.Extract:
		fr.env[instr] = fr.get(instr.Tuple).(tuple)[instr.Index]

	case *ssa.Slice:
		fr.env[instr] = slice(fr.get(instr.X), fr.get(instr.Low), fr.get(instr.High), fr.get(instr.Max))

	case *ssa.Return:
		switch len(instr.Results) {
		case 0:
		case 1:
			fr.result = fr.get(instr.Results[0])
		default:
			var res []value
			for _, r := range instr.Results {
				res = append(res, fr.get(r))
			}
			fr.result = tuple(res)
		}
		fr.block = nil
		return kReturn

	case *ssa.RunDefers:
		fr.runDefers()

	case *ssa.Panic:
		panic(targetPanic{fr.get(instr.X)})

	case *ssa.Send:
		p.chanSend(fr.get(instr.Chan).(*chanv), fr.get(instr.X))

	case *ssa.Store:
		store(mustDeref(instr.Addr.Type()), fr.get(instr.Addr).(*value), fr.get(instr.Val))

	case *ssa.If:
		succ := 1
		switch c := fr.get(instr.Cond).(type) {
		case bool:
			if c {
				succ = 0
			}
		case sv:
			if p.branchAt(c.t, instr) {
				succ = 0
			}
		default:
			panic(fmt.Sprintf("If on %T", c))
		}
		fr.prevBlock, fr.block = fr.block, fr.block.Succs[succ]
		return kJump

	case *ssa.Jump:
		fr.prevBlock, fr.block = fr.block, fr.block.Succs[0]
		return kJump

	case *ssa.Defer:
		fn, args := prepareCall(fr, &instr.Call)
		defers := &fr.defers
		if into := fr.get(instr.DeferStack); into != nil {
			defers = into.(**deferred)
		}
		*defers = &deferred{fn: fn, args: args, instr: instr, tail: *defers}

	case *ssa.Go:
		// goroutines are run to completion at the spawn point (fork-join shapes only)
		fn, args := prepareCall(fr, &instr.Call)
		p.goroutines++
		func() {
			defer func() {
				if r := recover(); r != nil {
					if isAbort(r) {
						panic(r)
					}
					txt := panicText(r)
					if tp, ok := r.(targetPanic); ok {
						if it, ok := tp.v.(iface); ok && it.t != nil {
							if p, ok := it.v.(*value); ok && p != nil {
								if st, ok := (*p).(structure); ok && len(st) > 0 {
									if msg, ok := st[0].(string); ok {
										txt = "panic: " + msg
									}
								}
							}
						}
					}
					panic(pathAbort{kind: "unsupported", msg: fmt.Sprintf("panic inside goroutine: %v", txt)})
				}
			}()
			call(fr.i, nil, instr.Pos(), fn, args)
		}()

	case *ssa.MakeChan:
		fr.env[instr] = &chanv{cap: int(asInt64(fr.get(instr.Size)))}

	case *ssa.Alloc:
		var addr *value
		if instr.Heap {
			addr = new(value)
			fr.env[instr] = addr
		} else {
			addr = fr.env[instr].(*value)
		}
		*addr = zero(mustDeref(instr.Type()))

	case *ssa.MakeSlice:
		capv := concretizeIdx(fr.get(instr.Cap), 64)
		lenv := concretizeIdx(fr.get(instr.Len), 64)
		slice := make([]value, asInt64(capv))
		tElt := instr.Type().Underlying().(*types.Slice).Elem()
		for i := range slice {
			slice[i] = zero(tElt)
		}
		fr.env[instr] = slice[:asInt64(lenv)]

	case *ssa.MakeMap:
		var reserve int64
		if instr.Reserve != nil {
			if r, ok := fr.get(instr.Reserve).(sv); ok {
				_ = r
			} else {
				reserve = asInt64(fr.get(instr.Reserve))
			}
		}
		fr.env[instr] = makeMap(instr.Type().Underlying().(*types.Map).Key(), reserve)

	case *ssa.Range:
		fr.env[instr] = rangeIter(fr, fr.get(instr.X), instr.X.Type())

	case *ssa.Next:
		fr.env[instr] = fr.get(instr.Iter).(iter).next()

	case *ssa.FieldAddr:
		ptr := fr.get(instr.X).(*value)
		if ptr == nil {
			panic(runtimeError("invalid memory address or nil pointer dereference"))
		}
		fr.env[instr] = &(*ptr).(structure)[instr.Field]

	case *ssa.Field:
		fr.env[instr] = fr.get(instr.X).(structure)[instr.Field]

	case *ssa.IndexAddr:
		x := fr.get(instr.X)
		var n int
		switch x := x.(type) {
		case []value:
			n = len(x)
		case *value:
			if x == nil {
				panic(runtimeError("invalid memory address or nil pointer dereference"))
			}
			n = len((*x).(array))
		}
		idx := indexValue(fr, fr.get(instr.Index), n)
		switch x := x.(type) {
		case []value:
			fr.env[instr] = &x[idx]
		case *value: // *array
			fr.env[instr] = &(*x).(array)[idx]
		default:
			panic(fmt.Sprintf("unexpected x type in IndexAddr: %T", x))
		}

	case *ssa.Index:
		x := fr.get(instr.X)
		switch x := x.(type) {
		case array:
			fr.env[instr] = x[indexValue(fr, fr.get(instr.Index), len(x))]
		case string:
			fr.env[instr] = x[indexValue(fr, fr.get(instr.Index), len(x))]
		default:
			panic(fmt.Sprintf("unexpected x type in Index: %T", x))
		}

	case *ssa.Lookup:
		fr.env[instr] = lookup(instr, fr.get(instr.X), fr.get(instr.Index))

	case *ssa.MapUpdate:
		m := fr.get(instr.Map)
		key := fr.get(instr.Key)
		v := fr.get(instr.Value)
		switch m := m.(type) {
		case map[value]value:
			if m == nil {
				panic(runtimeError("assignment to entry in nil map"))
			}
			if k, found := mapFindKey(m, key); found {
				m[k] = v
			} else {
				m[key] = v
			}
		case *hashmap:
			if m == nil {
				panic(runtimeError("assignment to entry in nil map"))
			}
			m.insert(key.(hashable), v)
		default:
			panic(fmt.Sprintf("illegal map type: %T", m))
		}

	case *ssa.TypeAssert:
		fr.env[instr] = typeAssert(fr.i, instr, fr.get(instr.X).(iface))

	case *ssa.MakeClosure:
		var bindings []value
		for _, binding := range instr.Bindings {
			bindings = append(bindings, fr.get(binding))
		}
		fr.env[instr] = &closure{instr.Fn.(*ssa.Function), bindings}

	case *ssa.Phi:
		panic("unreachable: phi")

	case *ssa.Select:
		fr.env[instr] = p.doSelect(fr, instr)

	default:
		panic(fmt.Sprintf("unexpected instruction: %T", instr))
	}
	return kNext
}

// indexValue returns a concrete in-range index, forking over the possibilities when the
// index is symbolic; out-of-range is a run-time panic of the target.
func indexValue(fr *frame, idx value, n int) int {
	if s, ok := idx.(sv); ok {
		v := fr.i.p.concretize(s.t, 0, int64(n)-1)
		return int(asInt64(v))
	}
	i := asInt64(idx)
	if i < 0 || i >= int64(n) {
		panic(runtimeError(fmt.Sprintf("index out of range [%d] with length %d", i, n)))
	}
	return int(i)
}

func prepareCall(fr *frame, call *ssa.CallCommon) (fn value, args []value) {
	v := fr.get(call.Value)
	if call.Method == nil {
		fn = v
	} else {
		recv := v.(iface)
		if recv.t == nil {
			panic(runtimeError("invalid memory address or nil pointer dereference (method call on nil interface)"))
		}
		if f := lookupMethod(fr.i, recv.t, call.Method); f == nil {
			panic(fmt.Sprintf("method set for dynamic type %v does not contain %s", recv.t, call.Method))
		} else {
			fn = f
		}
		args = append(args, recv.v)
	}
	for _, arg := range call.Args {
		args = append(args, fr.get(arg))
	}
	return
}

func call(i *interpreter, caller *frame, callpos token.Pos, fn value, args []value) value {
	switch fn := fn.(type) {
	case *ssa.Function:
		if fn == nil {
			panic(runtimeError("call of nil function"))
		}
		return callSSA(i, caller, callpos, fn, args, nil)
	case *closure:
		return callSSA(i, caller, callpos, fn.Fn, args, fn.Env)
	case *ssa.Builtin:
		return callBuiltin(caller, callpos, fn, args)
	}
	panic(fmt.Sprintf("cannot call %T", fn))
}

func loc(fset *token.FileSet, pos token.Pos) string {
	if pos == token.NoPos {
		return ""
	}
	return " at " + fset.Position(pos).String()
}

// callBody lets an external fall through to the real body of the function it intercepts.
func callBody(fr *frame, args []value) value {
	fr.i.skipExt = fr.fn
	return callSSA(fr.i, fr.caller, fr.callpos, fr.fn, args, nil)
}

func callSSA(i *interpreter, caller *frame, callpos token.Pos, fn *ssa.Function, args []value, env []value) value {
	if i.mode&EnableTracing != 0 {
		fmt.Fprintf(os.Stderr, "%sEntering %s\n", strings.Repeat(" ", i.depth), fn)
	}
	fr := &frame{i: i, caller: caller, fn: fn, callpos: callpos}
	if caller != nil && fn.Synthetic == "package initializer" {
		// dependency initialisers are run lazily, on first touch of the package (ensureInit)
		return nil
	}
	if i.skipExt == fn {
		i.skipExt = nil // an external asked for the function's own body (callBody)
	} else if ext := findExternal(fn); ext != nil {
		return ext(fr, args)
	}
	if fn.Parent() != nil {
		if ce, ok := closureExternals[fn.String()]; ok {
			return ce(fr, args, env)
		}
	}
	if fn.Pkg != nil {
		buildPkg(fn.Pkg)
	} else if o := fn.Origin(); o != nil && o.Pkg != nil {
		buildPkg(o.Pkg)
	}
	if fn.Blocks == nil {
		if fn.Blocks == nil && fn.Pkg != nil && fn.Pkg.Pkg.Path() == "math/big" {
			// assembly kernels of math/big: run the package's own portable Go versions
			if g := fn.Pkg.Func(fn.Name() + "_g"); g != nil {
				return callSSA(i, caller, callpos, g, args, env)
			}
		}
		if fn.Blocks == nil {
			panic(unsupported("no code for function: " + fn.String()))
		}
	}
	if fn.TypeParams().Len() > 0 && len(fn.TypeArgs()) == 0 {
		panic(unsupported("uninstantiated generic function " + fn.String()))
	}
	if fn.Pkg != nil {
		i.ensureInit(fn.Pkg)
	}
	i.depth++
	if i.depth > 400 {
		panic(pathAbort{kind: "budget", msg: "call depth exceeded in " + fn.String()})
	}
	defer func() { i.depth-- }()
	i.p.noteFn(fn)

	fr.env = make(map[ssa.Value]value)
	fr.block = fn.Blocks[0]
	fr.locals = make([]value, len(fn.Locals))
	for i, l := range fn.Locals {
		fr.locals[i] = zero(mustDeref(l.Type()))
		fr.env[l] = &fr.locals[i]
	}
	for i, p := range fn.Params {
		fr.env[p] = args[i]
	}
	for i, fv := range fn.FreeVars {
		fr.env[fv] = env[i]
	}
	for fr.block != nil {
		runFrame(fr)
	}
	return fr.result
}

func runFrame(fr *frame) {
	defer func() {
		if fr.block == nil {
			return // normal return
		}
		r := recover()
		if isAbort(r) {
			panic(r)
		}
		if fr.i.mode&EnableTracing != 0 {
			fmt.Fprintf(os.Stderr, "Panicking in %s: %v\n", fr.fn, panicText(r))
		}
		if fr.i.p.internalAt == "" || fr.i.p.lastPanic != r2s(r) {
			// remember where the panic originated (innermost frame sees it first)
			fr.i.p.lastPanic = r2s(r)
			st := ""
			for f, n := fr, 0; f != nil && n < 6; f, n = f.caller, n+1 {
				pos := ""
				if n == 0 && fr.i.p.curInstr != nil {
					pos = posString(fr.i.prog.Fset, fr.i.p.curInstr.Pos())
				} else if f != fr {
					pos = ""
				}
				st += f.fn.String() + " " + pos + " <- "
			}
			fr.i.p.internalAt = st
		}
		fr.panicking = true
		fr.panic = r
		fr.runDefers()
		fr.block = fr.fn.Recover
	}()

	for {
		nonPhis := executePhis(fr)
		for _, instr := range nonPhis {
			if fr.i.mode&EnableTracing != 0 {
				if v, ok := instr.(ssa.Value); ok {
					fmt.Fprintln(os.Stderr, strings.Repeat(" ", fr.i.depth), v.Name(), "=", instr)
				} else {
					fmt.Fprintln(os.Stderr, strings.Repeat(" ", fr.i.depth), instr)
				}
			}
			if visitInstr(fr, instr) == kReturn {
				return
			}
		}
	}
}

func executePhis(fr *frame) []ssa.Instruction {
	firstNonPhi := -1
	for i, instr := range fr.block.Instrs {
		if _, ok := instr.(*ssa.Phi); !ok {
			firstNonPhi = i
			break
		}
	}
	nonPhis := fr.block.Instrs[firstNonPhi:]
	if firstNonPhi > 0 {
		phis := fr.block.Instrs[:firstNonPhi]
		predIndex := slices.Index(fr.block.Preds, fr.prevBlock)
		fr.phitemps = fr.phitemps[:0]
		for _, phi := range phis {
			phi := phi.(*ssa.Phi)
			fr.phitemps = append(fr.phitemps, fr.get(phi.Edges[predIndex]))
		}
		for i, phi := range phis {
			fr.env[phi.(*ssa.Phi)] = fr.phitemps[i]
		}
	}
	return nonPhis
}

// doRecover implements the recover() built-in.
func doRecover(caller *frame) value {
	if caller != nil && !caller.panicking &&
		caller.caller != nil && caller.caller.panicking {
		caller.caller.panicking = false
		p := caller.caller.panic
		caller.caller.panic = nil
		switch p := p.(type) {
		case targetPanic:
			return p.v
		case runtimeError:
			return iface{caller.i.runtimeErrorString, string("runtime error: " + string(p))}
		case runtime.Error:
			return iface{caller.i.runtimeErrorString, p.Error()}
		case string:
			return iface{caller.i.runtimeErrorString, p}
		default:
			panic(fmt.Sprintf("unexpected panic type %T in target call to recover()", p))
		}
	}
	return iface{}
}

func panicText(r interface{}) string {
	switch r := r.(type) {
	case targetPanic:
		return "panic: " + toString(r.v)
	case error:
		return r.Error()
	case string:
		return r
	}
	return fmt.Sprintf("%v", r)
}

// ensureInit runs the (SSA) initialiser of pkg once per path when pkg is in the allow-list.
func (i *interpreter) ensureInit(pkg *ssa.Package) {
	if pkg == nil || i.inited[pkg] {
		return
	}
	i.inited[pkg] = true
	if !initAllowed(pkg.Pkg.Path()) {
		return
	}
	buildPkg(pkg)
	initFn := pkg.Func("init")
	if initFn == nil {
		return
	}
	func() {
		defer func() {
			if r := recover(); r != nil {
				if pa, ok := r.(pathAbort); ok && pa.kind != "unsupported" {
					panic(r)
				}
				i.p.initFailures = append(i.p.initFailures, pkg.Pkg.Path()+": "+panicText(r))
			}
		}()
		saved := i.depth
		callSSA(i, nil, token.NoPos, initFn, nil, nil)
		i.depth = saved
	}()
}

func initAllowed(path string) bool {
	for _, p := range []string{"0chain.net/", "github.com/0chain/common/", "github.com/0chain/errors", "github.com/pkg/errors", "github.com/koding/cache", "github.com/shopspring/decimal", "math/big"} {
		if strings.HasPrefix(path, p) {
			return true
		}
	}
	switch path {
	case "io", "sort", "strconv", "unicode/utf8", "math", "math/bits", "io/fs", "context", "bytes", "strings", "container/heap", "container/list", "encoding/hex":
		return true
	}
	return false
}

func r2s(r interface{}) string { return fmt.Sprintf("%T:%v", r, panicText(r)) }
