package main

import (
	"fmt"
	"go/types"
	"sort"
	"strings"

	"golang.org/x/tools/go/ssa"
	"golang.org/x/tools/go/ssa/ssautil"
)

// listMapRanges prints every function of the given packages (and of every 0chain.net package
// they depend on) that iterates over a map: the static inventory behind the C06 harness list.
func listMapRanges(patterns []string) int {
	ld, err := loadProgram(patterns)
	if err != nil {
		fmt.Println(err)
		return 2
	}
	var out []string
	for fn := range ssautil.AllFunctions(ld.prog) {
		if fn.Pkg == nil || !strings.HasPrefix(fn.Pkg.Pkg.Path(), "0chain.net/") || strings.Contains(fn.Pkg.Pkg.Path(), "zzverif") {
			continue
		}
		if fn.Name() == "Msgsize" || strings.HasPrefix(fn.Name(), "Verif") || strings.HasPrefix(fn.Name(), "vC") {
			continue
		}
		n := 0
		for _, b := range fn.Blocks {
			for _, in := range b.Instrs {
				if r, ok := in.(*ssa.Range); ok {
					if _, ok := r.X.Type().Underlying().(*types.Map); ok {
						n++
					}
				}
			}
		}
		if n > 0 {
			pos := ld.prog.Fset.Position(fn.Pos())
			out = append(out, fmt.Sprintf("%s\t%d\t%s:%d", fn.String(), n, pos.Filename, pos.Line))
		}
	}
	sort.Strings(out)
	for _, l := range out {
		fmt.Println(l)
	}
	return 0
}
