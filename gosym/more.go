package main

import (
	"encoding/hex"
	"go/token"
	"strings"
	"go/types"

	"golang.org/x/crypto/sha3"
)

var extraRegs []func()

func tokenOf(s string) token.Token {
	switch s {
	case "+":
		return token.ADD
	}
	panic("tokenOf")
}

func registerMoreExternals() {
	registerMsgp()
	for _, f := range extraRegs {
		f()
	}
}

func init() {
	extraRegs = append(extraRegs, func() {
		rawHash := func(fr *frame, args []value) []byte {
			it := args[0].(iface)
			var data []byte
			switch v := it.v.(type) {
			case string:
				data = []byte(v)
			case []value:
				data = valuesToBytes(v)
			case array:
				data = valuesToBytes([]value(v))
			default:
				panic(targetPanic{iface{nil, "unknown type"}})
			}
			h := sha3.Sum256(data)
			return h[:]
		}
		for _, pk := range []string{"0chain.net/core/encryption", "github.com/0chain/common/core/encryption"} {
			externals[pk+".RawHash"] = func(fr *frame, args []value) value { return bytesToValues(rawHash(fr, args)) }
			externals[pk+".Hash"] = func(fr *frame, args []value) value {
				h := hex.EncodeToString(rawHash(fr, args))
				it := args[0].(iface)
				switch v := it.v.(type) {
				case string:
					fr.i.p.recordHash(h, v)
				case []value:
					fr.i.p.recordHash(h, string(valuesToBytes(v)))
				}
				return h
			}
		}
		externals["golang.org/x/crypto/sha3.Sum256"] = func(fr *frame, args []value) value {
			h := sha3.Sum256(valuesToBytes(args[0].([]value)))
			out := make(array, 32)
			for i := range out {
				out[i] = h[i]
			}
			return out
		}
	})
}

func valuesToBytes(v []value) []byte {
	out := make([]byte, len(v))
	for i, x := range v {
		b, ok := x.(uint8)
		if !ok {
			panic(unsupported("hash / byte operation over symbolic data"))
		}
		out[i] = b
	}
	return out
}

func typesPointer(t types.Type) types.Type { return types.NewPointer(t) }

func init() {
	extraRegs = append(extraRegs, func() {
		// chain.CreateTxnMPT over the model trie: a child copy merged back by MergeMPTChanges
		name := "0chain.net/chaincore/chain.CreateTxnMPT"
		externals[name] = func(fr *frame, args []value) value {
			it := args[0].(iface)
			if it.t != nil && strings.Contains(it.t.String(), "symstate.ModelMPT") {
				fn, ok := callMethodLookup(fr, it, "ChildWithCache")
				if !ok {
					panic(unsupported("ModelMPT.ChildWithCache missing"))
				}
				return call(fr.i, fr, fr.callpos, fn, []value{it.v, args[1]})
			}
			panic(unsupported("CreateTxnMPT over a real trie inside the executor"))
		}
	})
}

func init() {
	extraRegs = append(extraRegs, func() {
		// partitions.setPartitionItems fills *[]T from raw items through reflection
		// (reflect.New(T).Interface().(PartitionItem).UnmarshalMsg, reflect.Value.Set); the same
		// effect is produced here type-directed, calling the real UnmarshalMsg of *T.
		externals["0chain.net/smartcontract/partitions.setPartitionItems"] = func(fr *frame, args []value) value {
			items, _ := args[0].([]value)
			vs := args[1].(iface)
			pt, ok := vs.t.Underlying().(*types.Pointer)
			if !ok {
				return fr.i.makeError("invalid return value type, it must be a pointer of slice")
			}
			st, ok := pt.Elem().Underlying().(*types.Slice)
			if !ok {
				return fr.i.makeError("invalid return value type, it must be a pointer of slice")
			}
			et := st.Elem()
			out := make([]value, 0, len(items))
			for _, it := range items {
				var cell value = zero(et)
				ptr := &cell
				pi := iface{t: types.NewPointer(et), v: ptr}
				fn, ok := callMethodLookup(fr, pi, "UnmarshalMsg")
				if !ok {
					return fr.i.makeError("invalid value type, the item does not meet PartitionItem interface")
				}
				data := it.(structure)[1]
				res := call(fr.i, fr, fr.callpos, fn, []value{ptr, data}).(tuple)
				if e := res[1].(iface); e.t != nil {
					return e
				}
				out = append(out, *ptr)
			}
			*vs.v.(*value) = out
			return iface{}
		}
	})
}

// minimal reflect shim: reflect.ValueOf(x).IsNil() for pointers, maps, slices, interfaces
type reflVal struct{ x iface }

func init() {
	extraRegs = append(extraRegs, func() {
		externals["reflect.ValueOf"] = func(fr *frame, args []value) value {
			return reflVal{args[0].(iface)}
		}
		externals["(reflect.Value).Pointer"] = func(fr *frame, args []value) value { return uintptr(0) }
		externals["runtime.FuncForPC"] = func(fr *frame, args []value) value { var nilf *value; return nilf }
		externals["(*runtime.Func).Name"] = func(fr *frame, args []value) value { return "" }
		externals["(reflect.Value).IsNil"] = func(fr *frame, args []value) value {
			rv, ok := args[0].(reflVal)
			if !ok {
				panic(unsupported("reflect.Value.IsNil on an unmodelled value"))
			}
			switch v := rv.x.v.(type) {
			case nil:
				return true
			case *value:
				return v == nil
			case []value:
				return v == nil
			case map[value]value:
				return v == nil
			case *hashmap:
				return v == nil
			}
			return false
		}
	})
}
