package main

import "go/token"

func tokenOf(s string) token.Token {
	switch s {
	case "+":
		return token.ADD
	}
	panic("tokenOf")
}

func registerMoreExternals() {}
