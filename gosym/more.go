package main

import (
	"encoding/hex"
	"fmt"
	"reflect"
	"sort"
	"go/token"
	"strings"
	"go/types"

	"golang.org/x/crypto/sha3"
)

var extraRegs []func()

func tokenOf(s string) token.Token {
	switch s {
	case "+":
		return token.ADD
	}
	panic("tokenOf")
}

func registerMoreExternals() {
	registerMsgp()
	for _, f := range extraRegs {
		f()
	}
}

func init() {
	extraRegs = append(extraRegs, func() {
		// storagesc.emitUpdateBlobberReadStatEvent converts the marker's read size through
		// math/big.Float (bit-level float manipulation) only to fill a statistics event: with a
		// symbolic read size the event is cut (not emitted); with a concrete one the body runs.
		externals["0chain.net/smartcontract/storagesc.emitUpdateBlobberReadStatEvent"] = func(fr *frame, args []value) value {
			if rm, ok := args[0].(*value); ok && rm != nil {
				if st, ok := (*rm).(structure); ok {
					for _, f := range st {
						if _, isF := f.(sv); isF {
							fr.i.p.notes = append(fr.i.p.notes, "cut: TagUpdateBlobberStat event of a symbolic read size not emitted")
							return nil
						}
					}
				}
			}
			return callBody(fr, args)
		}
	})
}

func init() {
	extraRegs = append(extraRegs, func() {
		rawHash := func(fr *frame, args []value) []byte {
			it := args[0].(iface)
			var data []byte
			switch v := it.v.(type) {
			case string:
				data = []byte(v)
			case []value:
				data = valuesToBytes(v)
			case array:
				data = valuesToBytes([]value(v))
			default:
				panic(targetPanic{iface{nil, "unknown type"}})
			}
			h := sha3.Sum256(data)
			return h[:]
		}
		for _, pk := range []string{"0chain.net/core/encryption", "github.com/0chain/common/core/encryption"} {
			externals[pk+".RawHash"] = func(fr *frame, args []value) value { return bytesToValues(rawHash(fr, args)) }
			externals[pk+".Hash"] = func(fr *frame, args []value) value {
				h := hex.EncodeToString(rawHash(fr, args))
				it := args[0].(iface)
				switch v := it.v.(type) {
				case string:
					fr.i.p.recordHash(h, v)
				case []value:
					fr.i.p.recordHash(h, string(valuesToBytes(v)))
				}
				return h
			}
		}
		externals["golang.org/x/crypto/sha3.Sum256"] = func(fr *frame, args []value) value {
			h := sha3.Sum256(valuesToBytes(args[0].([]value)))
			out := make(array, 32)
			for i := range out {
				out[i] = h[i]
			}
			return out
		}
	})
}

func valuesToBytes(v []value) []byte {
	out := make([]byte, len(v))
	for i, x := range v {
		b, ok := x.(uint8)
		if !ok {
			panic(unsupported("hash / byte operation over symbolic data"))
		}
		out[i] = b
	}
	return out
}

func typesPointer(t types.Type) types.Type { return types.NewPointer(t) }

func init() {
	extraRegs = append(extraRegs, func() {
		// chain.CreateTxnMPT over the model trie: a child copy merged back by MergeMPTChanges
		name := "0chain.net/chaincore/chain.CreateTxnMPT"
		externals[name] = func(fr *frame, args []value) value {
			it := args[0].(iface)
			if it.t != nil && strings.Contains(it.t.String(), "symstate.ModelMPT") {
				fn, ok := callMethodLookup(fr, it, "ChildWithCache")
				if !ok {
					panic(unsupported("ModelMPT.ChildWithCache missing"))
				}
				return call(fr.i, fr, fr.callpos, fn, []value{it.v, args[1]})
			}
			panic(unsupported("CreateTxnMPT over a real trie inside the executor"))
		}
	})
}

func init() {
	extraRegs = append(extraRegs, func() {
		// partitions.setPartitionItems fills *[]T from raw items through reflection
		// (reflect.New(T).Interface().(PartitionItem).UnmarshalMsg, reflect.Value.Set); the same
		// effect is produced here type-directed, calling the real UnmarshalMsg of *T.
		externals["0chain.net/smartcontract/partitions.setPartitionItems"] = func(fr *frame, args []value) value {
			items, _ := args[0].([]value)
			vs := args[1].(iface)
			pt, ok := vs.t.Underlying().(*types.Pointer)
			if !ok {
				return fr.i.makeError("invalid return value type, it must be a pointer of slice")
			}
			st, ok := pt.Elem().Underlying().(*types.Slice)
			if !ok {
				return fr.i.makeError("invalid return value type, it must be a pointer of slice")
			}
			et := st.Elem()
			out := make([]value, 0, len(items))
			for _, it := range items {
				var cell value = zero(et)
				ptr := &cell
				pi := iface{t: types.NewPointer(et), v: ptr}
				fn, ok := callMethodLookup(fr, pi, "UnmarshalMsg")
				if !ok {
					return fr.i.makeError("invalid value type, the item does not meet PartitionItem interface")
				}
				data := it.(structure)[1]
				res := call(fr.i, fr, fr.callpos, fn, []value{ptr, data}).(tuple)
				if e := res[1].(iface); e.t != nil {
					return e
				}
				out = append(out, *ptr)
			}
			*vs.v.(*value) = out
			return iface{}
		}
	})
}

// minimal reflect shim: reflect.ValueOf(x).IsNil() for pointers, maps, slices, interfaces
type reflVal struct{ x iface }
type reflTyp struct{ t types.Type }

func reflectKindOf(t types.Type) reflect.Kind {
	switch u := t.Underlying().(type) {
	case *types.Basic:
		switch u.Kind() {
		case types.Bool:
			return reflect.Bool
		case types.Int:
			return reflect.Int
		case types.Int8:
			return reflect.Int8
		case types.Int16:
			return reflect.Int16
		case types.Int32:
			return reflect.Int32
		case types.Int64:
			return reflect.Int64
		case types.Uint:
			return reflect.Uint
		case types.Uint8:
			return reflect.Uint8
		case types.Uint16:
			return reflect.Uint16
		case types.Uint32:
			return reflect.Uint32
		case types.Uint64:
			return reflect.Uint64
		case types.Uintptr:
			return reflect.Uintptr
		case types.Float32:
			return reflect.Float32
		case types.Float64:
			return reflect.Float64
		case types.String:
			return reflect.String
		}
	case *types.Slice:
		return reflect.Slice
	case *types.Array:
		return reflect.Array
	case *types.Struct:
		return reflect.Struct
	case *types.Pointer:
		return reflect.Ptr
	case *types.Map:
		return reflect.Map
	case *types.Interface:
		return reflect.Interface
	case *types.Signature:
		return reflect.Func
	case *types.Chan:
		return reflect.Chan
	}
	return reflect.Invalid
}

func init() {
	extraRegs = append(extraRegs, func() {
		externals["reflect.ValueOf"] = func(fr *frame, args []value) value {
			return reflVal{args[0].(iface)}
		}
		// reflect.TypeOf(x).Kind(): the dynamic type's kind (used by the event merger to tell a
		// slice payload from a single one)
		externals["reflect.TypeOf"] = func(fr *frame, args []value) value {
			a := args[0].(iface)
			if a.t == nil {
				return iface{}
			}
			rp := fr.i.prog.ImportedPackage("reflect")
			if rp == nil || rp.Type("rtype") == nil {
				panic(unsupported("reflect.TypeOf: reflect.rtype not loaded"))
			}
			var cell value = reflTyp{a.t}
			return iface{t: types.NewPointer(rp.Type("rtype").Type()), v: &cell}
		}
		externals["(*reflect.rtype).Kind"] = func(fr *frame, args []value) value {
			rt, ok := (*args[0].(*value)).(reflTyp)
			if !ok {
				panic(unsupported("reflect.Type.Kind on an unmodelled type"))
			}
			return uint(reflectKindOf(rt.t))
		}
		externals["(*reflect.rtype).String"] = func(fr *frame, args []value) value {
			rt, ok := (*args[0].(*value)).(reflTyp)
			if !ok {
				return "?"
			}
			return rt.t.String()
		}
		externals["(reflect.Value).Pointer"] = func(fr *frame, args []value) value { return uintptr(0) }
		externals["runtime.FuncForPC"] = func(fr *frame, args []value) value { var nilf *value; return nilf }
		externals["(*runtime.Func).Name"] = func(fr *frame, args []value) value { return "" }
		externals["(reflect.Value).IsNil"] = func(fr *frame, args []value) value {
			rv, ok := args[0].(reflVal)
			if !ok {
				panic(unsupported("reflect.Value.IsNil on an unmodelled value"))
			}
			switch v := rv.x.v.(type) {
			case nil:
				return true
			case *value:
				return v == nil
			case []value:
				return v == nil
			case map[value]value:
				return v == nil
			case *hashmap:
				return v == nil
			}
			return false
		}
	})
}

// ---- sym.Havoc / sym.DeepEqual ----

// havocWalk replaces every integer / bool leaf reachable from the value at addr (through
// struct fields, arrays, slices, pointers and map values; strings and floats are left alone)
// by a fresh symbol named "hv". The traversal order (field order, index order, sorted map
// keys) is the same as the native implementation's, so replay vectors line up.
func havocWalk(fr *frame, t types.Type, addr *value, depth int) {
	if depth > 12 {
		return
	}
	fresh := func(kind Kind, bits uint8, signed bool, gk types.BasicKind) value {
		return mkVar(kind, bits, signed, gk)(fr, []value{"hv"})
	}
	switch ut := t.Underlying().(type) {
	case *types.Basic:
		switch ut.Kind() {
		case types.Bool:
			*addr = fresh(KBool, 0, false, types.Bool)
		case types.Int, types.Int64:
			*addr = fresh(KInt, 64, true, ut.Kind())
		case types.Int32:
			*addr = fresh(KInt, 32, true, ut.Kind())
		case types.Int16:
			*addr = fresh(KInt, 16, true, ut.Kind())
		case types.Int8:
			*addr = fresh(KInt, 8, true, ut.Kind())
		case types.Uint, types.Uint64, types.Uintptr:
			*addr = fresh(KInt, 64, false, ut.Kind())
		case types.Uint32:
			*addr = fresh(KInt, 32, false, ut.Kind())
		case types.Uint16:
			*addr = fresh(KInt, 16, false, ut.Kind())
		case types.Uint8:
			*addr = fresh(KInt, 8, false, ut.Kind())
		}
	case *types.Struct:
		s, ok := (*addr).(structure)
		if !ok {
			return
		}
		for i := 0; i < ut.NumFields(); i++ {
			f := ut.Field(i)
			if f.Name() == "_" || isSyncType(f.Type()) || notPersisted(ut.Tag(i)) {
				continue
			}
			havocWalk(fr, f.Type(), &s[i], depth+1)
		}
	case *types.Array:
		a, ok := (*addr).(array)
		if !ok {
			return
		}
		for i := range a {
			havocWalk(fr, ut.Elem(), &a[i], depth+1)
		}
	case *types.Slice:
		s, ok := (*addr).([]value)
		if !ok {
			return
		}
		if b, isB := ut.Elem().Underlying().(*types.Basic); isB && b.Kind() == types.Uint8 {
			return // byte strings are left alone
		}
		for i := range s {
			havocWalk(fr, ut.Elem(), &s[i], depth+1)
		}
	case *types.Pointer:
		p, ok := (*addr).(*value)
		if !ok || p == nil {
			return
		}
		havocWalk(fr, ut.Elem(), p, depth+1)
	case *types.Map:
		m, ok := (*addr).(map[value]value)
		if !ok {
			return
		}
		keys := make([]string, 0, len(m))
		byName := map[string]value{}
		for k := range m {
			ks := fmt.Sprint(k)
			keys = append(keys, ks)
			byName[ks] = k
		}
		sort.Strings(keys)
		for _, ks := range keys {
			k := byName[ks]
			v := m[k]
			havocWalk(fr, ut.Elem(), &v, depth+1)
			m[k] = v
		}
	}
}

// notPersisted: fields tagged msg:"-" are transient by declaration (not part of the stored form).
func notPersisted(tag string) bool {
	return reflect.StructTag(tag).Get("msg") == "-"
}

func isSyncType(t types.Type) bool {
	s := t.String()
	// sync primitives, and time.Time (an opaque value: its internal words are not data)
	return strings.HasPrefix(s, "sync.") || strings.HasPrefix(s, "*sync.") || s == "time.Time"
}

// deepEqualV: structural equality with nil == empty for slices and maps.
func deepEqualV(fr *frame, t types.Type, x, y value, depth int) value {
	if depth > 16 {
		return true
	}
	switch ut := t.Underlying().(type) {
	case *types.Basic:
		if ut.Kind() == types.String {
			xs, ok1 := x.(string)
			ys, ok2 := y.(string)
			if ok1 && ok2 {
				return strEqValue(fr, xs, ys)
			}
		}
		return symEq(t, x, y)
	case *types.Struct:
		xs, ok1 := x.(structure)
		ys, ok2 := y.(structure)
		if !ok1 || !ok2 {
			return symEq(t, x, y)
		}
		var r value = true
		for i := 0; i < ut.NumFields(); i++ {
			f := ut.Field(i)
			if f.Name() == "_" || isSyncType(f.Type()) || notPersisted(ut.Tag(i)) {
				continue
			}
			r = andV(r, deepEqualV(fr, f.Type(), xs[i], ys[i], depth+1))
			if rb, ok := r.(bool); ok && !rb {
				return false
			}
		}
		return r
	case *types.Array:
		xa, ya := x.(array), y.(array)
		var r value = true
		for i := range xa {
			r = andV(r, deepEqualV(fr, ut.Elem(), xa[i], ya[i], depth+1))
		}
		return r
	case *types.Slice:
		xs, _ := x.([]value)
		ys, _ := y.([]value)
		if len(xs) != len(ys) {
			return false
		}
		var r value = true
		for i := range xs {
			if tx, ok := xs[i].(tok); ok {
				ty, ok2 := ys[i].(tok)
				if !ok2 || tx.kind != ty.kind {
					return false
				}
				r = andV(r, symEq(nil, tx.v, ty.v))
				continue
			}
			if cx, ok := xs[i].(timeCell); ok {
				cy, ok2 := ys[i].(timeCell)
				if !ok2 {
					return false
				}
				r = andV(r, deepEq(nil, cx.t, cy.t))
				continue
			}
			if bx, ok := xs[i].(binCell); ok {
				by, ok2 := ys[i].(binCell)
				if !ok2 {
					return false
				}
				r = andV(r, deepEqualV(fr, t, bx.cells, by.cells, depth+1))
				continue
			}
			r = andV(r, deepEqualV(fr, ut.Elem(), xs[i], ys[i], depth+1))
			if rb, ok := r.(bool); ok && !rb {
				return false
			}
		}
		return r
	case *types.Pointer:
		xp, _ := x.(*value)
		yp, _ := y.(*value)
		if xp == nil || yp == nil {
			return xp == nil && yp == nil
		}
		return deepEqualV(fr, ut.Elem(), *xp, *yp, depth+1)
	case *types.Map:
		xm, _ := x.(map[value]value)
		ym, _ := y.(map[value]value)
		if len(xm) != len(ym) {
			return false
		}
		var r value = true
		for k, xv := range xm {
			yv, ok := ym[k]
			if !ok {
				return false
			}
			r = andV(r, deepEqualV(fr, ut.Elem(), xv, yv, depth+1))
		}
		return r
	case *types.Interface:
		xi, yi := x.(iface), y.(iface)
		if xi.t == nil || yi.t == nil {
			return xi.t == nil && yi.t == nil
		}
		if !types.Identical(xi.t, yi.t) {
			return false
		}
		return deepEqualV(fr, xi.t, xi.v, yi.v, depth+1)
	}
	return symEq(t, x, y)
}

func init() {
	extraRegs = append(extraRegs, func() {
		externals[symPkg+".Havoc"] = func(fr *frame, args []value) value {
			it := args[0].(iface)
			pt, ok := it.t.Underlying().(*types.Pointer)
			if !ok {
				panic(unsupported("sym.Havoc needs a pointer"))
			}
			havocWalk(fr, pt.Elem(), it.v.(*value), 0)
			return nil
		}
		externals[symPkg+".DeepEqual"] = func(fr *frame, args []value) value {
			a, b := args[0].(iface), args[1].(iface)
			if a.t == nil || b.t == nil {
				return a.t == nil && b.t == nil
			}
			if !types.Identical(a.t, b.t) {
				return false
			}
			return deepEqualV(fr, a.t, a.v, b.v, 0)
		}
	})
}

// closures of the repo that use reflection, replaced by type-directed equivalents
var closureExternals = map[string]func(fr *frame, args []value, env []value) value{
	// entitywrapper.RegisterWrapper: func() EntityI { return reflect.New(reflect.TypeOf(e).Elem()).Interface().(EntityI) }
	"0chain.net/core/util/entitywrapper.RegisterWrapper$1$1": func(fr *frame, args []value, env []value) value {
		e := env[0]
		if p, ok := e.(*value); ok {
			e = *p
		}
		it, ok := e.(iface)
		if !ok || it.t == nil {
			panic(unsupported("entitywrapper creator: unexpected captured entity"))
		}
		pt, ok := it.t.Underlying().(*types.Pointer)
		if !ok {
			panic(unsupported("entitywrapper creator: entity is not a pointer"))
		}
		var cell value = zero(pt.Elem())
		return iface{t: it.t, v: &cell}
	},
}
