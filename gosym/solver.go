package main

// Persistent SMT solver sessions (z3 -in / z3-new -in / cvc5 --incremental).

import (
	"bufio"
	"fmt"
	"io"
	"math"
	"math/big"
	"os"
	"os/exec"
	"strconv"
	"strings"
	"time"
)

type Solver struct {
	name   string
	cmd    *exec.Cmd
	in     io.WriteCloser
	out    *bufio.Reader
	log    []string // everything sent since the last reset (for standalone query dumps)
	Queries int
	Time    time.Duration
	timeoutMs int
	dead   bool
}

func solverArgv(name string, timeoutMs int) []string {
	switch name {
	case "z3":
		return []string{"z3", "-in", fmt.Sprintf("-t:%d", timeoutMs)}
	case "z3-new":
		return []string{"z3-new", "-in", fmt.Sprintf("-t:%d", timeoutMs)}
	case "cvc5":
		return []string{"cvc5", "--incremental", "--lang=smt2", "--produce-models", fmt.Sprintf("--tlimit-per=%d", timeoutMs)}
	case "cvc5-bvint":
		return []string{"cvc5", "--incremental", "--lang=smt2", "--produce-models", "--solve-bv-as-int=sum", fmt.Sprintf("--tlimit-per=%d", timeoutMs)}
	}
	panic("unknown solver " + name)
}

func NewSolver(name string, timeoutMs int) (*Solver, error) {
	argv := solverArgv(name, timeoutMs)
	cmd := exec.Command(argv[0], argv[1:]...)
	in, err := cmd.StdinPipe()
	if err != nil {
		return nil, err
	}
	outp, err := cmd.StdoutPipe()
	if err != nil {
		return nil, err
	}
	cmd.Stderr = cmd.Stdout
	if err := cmd.Start(); err != nil {
		return nil, err
	}
	s := &Solver{name: name, cmd: cmd, in: in, out: bufio.NewReaderSize(outp, 1<<16), timeoutMs: timeoutMs}
	s.preamble()
	return s, nil
}

func (s *Solver) preamble() {
	s.log = s.log[:0]
	if strings.HasPrefix(s.name, "cvc5") {
		s.Send("(set-logic ALL)")
	}
	s.Send("(set-option :produce-models true)")
}

func (s *Solver) Send(line string) {
	if s.dead {
		return
	}
	s.log = append(s.log, line)
	if _, err := io.WriteString(s.in, line+"\n"); err != nil {
		s.dead = true
	}
}

// raw send that is not part of the session log (push/pop/check queries)
func (s *Solver) sendRaw(line string) {
	if s.dead {
		return
	}
	if _, err := io.WriteString(s.in, line+"\n"); err != nil {
		s.dead = true
	}
}

func (s *Solver) Reset() {
	s.sendRaw("(reset)")
	s.preamble()
}

func (s *Solver) Close() {
	if s.cmd != nil && s.cmd.Process != nil {
		s.in.Close()
		s.cmd.Process.Kill()
		s.cmd.Wait()
	}
}

type Result int

const (
	Unsat Result = iota
	Sat
	Unknown
)

func (r Result) String() string { return [...]string{"unsat", "sat", "unknown"}[r] }

// readAnswer reads lines until sat/unsat/unknown; an (error line makes it Unknown.
func (s *Solver) readAnswer() Result {
	sawErr := false
	for {
		line, err := s.out.ReadString('\n')
		if err != nil {
			s.dead = true
			return Unknown
		}
		line = strings.TrimSpace(line)
		switch {
		case line == "sat":
			if sawErr {
				return Unknown
			}
			return Sat
		case line == "unsat":
			if sawErr {
				return Unknown
			}
			return Unsat
		case line == "unknown" || line == "timeout":
			return Unknown
		case strings.HasPrefix(line, "(error"):
			sawErr = true
			lastSolverError = line
		}
	}
}

var lastSolverError string

// Check runs check-sat under the extra assumption lines (asserted inside push/pop).
func (s *Solver) Check(extra ...string) Result {
	if s.dead {
		return Unknown
	}
	t0 := time.Now()
	s.sendRaw("(push 1)")
	for _, e := range extra {
		s.sendRaw(e)
	}
	s.sendRaw("(check-sat)")
	r := s.readAnswer()
	s.sendRaw("(pop 1)")
	s.Queries++
	s.Time += time.Since(t0)
	if d := time.Since(t0); d > 3*time.Second && os.Getenv("VERIF_SLOWQ") != "" {
		os.WriteFile(fmt.Sprintf("/tmp/slowq-%d.smt2", s.Queries), []byte(s.Script(extra...)), 0o644)
		fmt.Fprintf(os.Stderr, "slow query %v -> %v (%d)\n", d, r, s.Queries)
	}
	return r
}

// CheckModel is Check that, when sat, also returns the values of the given names.
func (s *Solver) CheckModel(names []string, extra ...string) (Result, map[string]string) {
	if s.dead {
		return Unknown, nil
	}
	t0 := time.Now()
	defer func() { s.Time += time.Since(t0); s.Queries++ }()
	s.sendRaw("(push 1)")
	for _, e := range extra {
		s.sendRaw(e)
	}
	s.sendRaw("(check-sat)")
	r := s.readAnswer()
	var m map[string]string
	if r == Sat && len(names) > 0 {
		s.sendRaw("(get-value (" + strings.Join(names, " ") + "))")
		txt := s.readSexp()
		m = parseGetValue(txt)
	}
	s.sendRaw("(pop 1)")
	return r, m
}

// Script returns a standalone SMT-LIB script of the current session plus the extra lines.
func (s *Solver) Script(extra ...string) string {
	var sb strings.Builder
	sb.WriteString("(set-logic ALL)\n")
	for _, l := range s.log {
		if strings.HasPrefix(l, "(set-logic") {
			continue
		}
		sb.WriteString(l)
		sb.WriteByte('\n')
	}
	for _, e := range extra {
		sb.WriteString(e)
		sb.WriteByte('\n')
	}
	sb.WriteString("(check-sat)\n")
	return sb.String()
}

// readSexp reads one balanced s-expression from the solver output.
func (s *Solver) readSexp() string {
	var sb strings.Builder
	depth := 0
	started := false
	for {
		b, err := s.out.ReadByte()
		if err != nil {
			s.dead = true
			return sb.String()
		}
		if !started {
			if b == '(' {
				started = true
			} else {
				continue
			}
		}
		sb.WriteByte(b)
		if b == '(' {
			depth++
		} else if b == ')' {
			depth--
			if depth == 0 {
				return sb.String()
			}
		}
	}
}

// --- minimal s-expression parsing for get-value answers

type sexp struct {
	atom string
	list []*sexp
}

func parseSexp(s string) *sexp {
	pos := 0
	var parse func() *sexp
	skip := func() {
		for pos < len(s) && (s[pos] == ' ' || s[pos] == '\n' || s[pos] == '\t' || s[pos] == '\r') {
			pos++
		}
	}
	parse = func() *sexp {
		skip()
		if pos >= len(s) {
			return nil
		}
		if s[pos] == '(' {
			pos++
			n := &sexp{list: []*sexp{}}
			for {
				skip()
				if pos >= len(s) {
					return n
				}
				if s[pos] == ')' {
					pos++
					return n
				}
				n.list = append(n.list, parse())
			}
		}
		st := pos
		for pos < len(s) && !strings.ContainsRune(" \n\t\r()", rune(s[pos])) {
			pos++
		}
		return &sexp{atom: s[st:pos]}
	}
	return parse()
}

func (x *sexp) String() string {
	if x == nil {
		return ""
	}
	if x.list == nil {
		return x.atom
	}
	var ss []string
	for _, e := range x.list {
		ss = append(ss, e.String())
	}
	return "(" + strings.Join(ss, " ") + ")"
}

func parseGetValue(txt string) map[string]string {
	m := map[string]string{}
	root := parseSexp(txt)
	if root == nil {
		return m
	}
	for _, p := range root.list {
		if len(p.list) == 2 {
			m[p.list[0].String()] = p.list[1].String()
		}
	}
	return m
}

// valueToBig interprets a model value (Int literal, (- n), #x.., #b.., (_ bvN w)).
func valueToBig(v string) (*big.Int, bool) {
	v = strings.TrimSpace(v)
	if strings.HasPrefix(v, "#x") {
		n, ok := new(big.Int).SetString(v[2:], 16)
		return n, ok
	}
	if strings.HasPrefix(v, "#b") {
		n, ok := new(big.Int).SetString(v[2:], 2)
		return n, ok
	}
	x := parseSexp(v)
	if x == nil {
		return nil, false
	}
	if x.list == nil {
		n, ok := new(big.Int).SetString(x.atom, 10)
		return n, ok
	}
	if len(x.list) == 2 && x.list[0].atom == "-" {
		n, ok := valueToBig(x.list[1].String())
		if !ok {
			return nil, false
		}
		return n.Neg(n), true
	}
	if len(x.list) == 3 && x.list[0].atom == "_" && strings.HasPrefix(x.list[1].atom, "bv") {
		n, ok := new(big.Int).SetString(x.list[1].atom[2:], 10)
		return n, ok
	}
	return nil, false
}

// valueToF64 interprets an FP model value.
func valueToF64(v string) (float64, bool) {
	x := parseSexp(v)
	if x == nil {
		return 0, false
	}
	if len(x.list) == 4 && x.list[0].atom == "fp" {
		sg, ok1 := valueToBig(x.list[1].atom)
		ex, ok2 := valueToBig(x.list[2].atom)
		mn, ok3 := valueToBig(x.list[3].atom)
		if ok1 && ok2 && ok3 {
			bits := sg.Uint64()<<63 | ex.Uint64()<<52 | mn.Uint64()
			return math.Float64frombits(bits), true
		}
	}
	if len(x.list) == 4 && x.list[0].atom == "_" {
		switch x.list[1].atom {
		case "+zero":
			return 0, true
		case "-zero":
			return math.Copysign(0, -1), true
		case "+oo":
			return math.Inf(1), true
		case "-oo":
			return math.Inf(-1), true
		case "NaN":
			return math.NaN(), true
		}
	}
	if x.list == nil {
		f, err := strconv.ParseFloat(x.atom, 64)
		return f, err == nil
	}
	return 0, false
}
