package main

// Floating-point cut (DESIGN §1.3/1.4): a float64 value computed as (unsigned integer term)
// × (concrete constants, via * and /) is enclosed by exact rational bounds
//      x·lo <= value <= x·hi        (each IEEE operation adds a relative error <= 2^-53),
// and its conversion back to an integer becomes a fresh integer r with the linear
// constraints  x·lo − 1 < r <= x·hi.  The enclosure is sound for every rounding the
// hardware can perform, so obligations proved under it hold for the real float result;
// a model that depends on the slack is replayed natively before it is reported.

import (
	"fmt"
	"math"
	"math/big"
)

type fenc struct {
	x      *Term    // nil: pure constant interval
	lo, hi *big.Rat // value in [x*lo, x*hi] (x >= 0), or [lo, hi] when x == nil
}

var ratU = new(big.Rat).SetFrac(big.NewInt(1), new(big.Int).Lsh(big.NewInt(1), 53))

func oneMinusU() *big.Rat { return new(big.Rat).Sub(big.NewRat(1, 1), ratU) }
func onePlusU() *big.Rat  { return new(big.Rat).Add(big.NewRat(1, 1), ratU) }

func encloseFloat(t *Term) (fenc, bool) {
	switch t.op {
	case OConst:
		f := t.f64Val()
		if math.IsNaN(f) || math.IsInf(f, 0) || f < 0 {
			return fenc{}, false
		}
		r := new(big.Rat)
		r.SetFloat64(f)
		return fenc{nil, r, new(big.Rat).Set(r)}, true
	case OI2F:
		x := t.a[0]
		if x.kind != KInt || x.signed {
			return fenc{}, false
		}
		return fenc{x, oneMinusU(), onePlusU()}, true
	case OFMul:
		a, ok1 := encloseFloat(t.a[0])
		b, ok2 := encloseFloat(t.a[1])
		if !ok1 || !ok2 {
			return fenc{}, false
		}
		if a.x != nil && b.x != nil {
			return fenc{}, false
		}
		x := a.x
		if x == nil {
			x = b.x
		}
		lo := new(big.Rat).Mul(a.lo, b.lo)
		hi := new(big.Rat).Mul(a.hi, b.hi)
		return fenc{x, lo.Mul(lo, oneMinusU()), hi.Mul(hi, onePlusU())}, true
	case OFDiv:
		a, ok1 := encloseFloat(t.a[0])
		b, ok2 := encloseFloat(t.a[1])
		if !ok1 || !ok2 || b.x != nil || b.lo.Sign() <= 0 {
			return fenc{}, false
		}
		lo := new(big.Rat).Quo(a.lo, b.hi)
		hi := new(big.Rat).Quo(a.hi, b.lo)
		return fenc{a.x, lo.Mul(lo, oneMinusU()), hi.Mul(hi, onePlusU())}, true
	}
	return fenc{}, false
}

// f2iCut returns a fresh integer for trunc(x) constrained by the enclosure, or nil.
func (p *Path) f2iCut(x *Term, bits uint8, signed bool) *Term {
	if p.enc != EncInt {
		return nil
	}
	e, ok := encloseFloat(x)
	if !ok || e.x == nil {
		return nil
	}
	st := p.store
	p.nondetSeq["fpcut"]++
	r := st.Var(fmt.Sprintf("fpcut_%d", p.nondetSeq["fpcut"]), KInt, bits, signed)
	// wide arithmetic: r*D <= x*N  and  r*D' > x*N' - D'
	xw := st.Conv(e.x, 0, false)
	rw := st.Conv(r, 0, false)
	mulc := func(t *Term, c *big.Int) *Term {
		return st.mk(&Term{op: OMul, kind: KWide, a: []*Term{t, st.Wide(c)}})
	}
	up := st.Le(mulc(rw, e.hi.Denom()), mulc(xw, e.hi.Num()))
	// x*lo - 1 < r   <=>   x*Nl < (r+1)*Dl
	rp1 := st.Bin(OAdd, rw, st.Wide(big.NewInt(1)))
	lowc := st.Lt(mulc(xw, e.lo.Num()), mulc(rp1, e.lo.Denom()))
	// only meaningful while the value stays inside the integer range
	limit := new(big.Int).Lsh(big.NewInt(1), uint(bits))
	if signed {
		limit = new(big.Int).Lsh(big.NewInt(1), uint(bits-1))
	}
	inRange := st.Lt(mulc(xw, e.hi.Num()), st.Wide(new(big.Int).Mul(limit, e.hi.Denom())))
	c := st.Or(st.Not(inRange), st.And(up, lowc))
	p.assertPC(c)
	p.fpCuts++
	return r
}

// floatSign decides comparisons of an enclosed (non-negative) float against zero.
func floatNonNeg(t *Term) bool {
	_, ok := encloseFloat(t)
	return ok
}
