package main

// Floating-point cut (DESIGN §1.3/1.4): a float64 value computed as (unsigned integer term)
// × (concrete constants, via * and /) is enclosed by exact rational bounds
//      x·lo <= value <= x·hi        (each IEEE operation adds a relative error <= 2^-53),
// and its conversion back to an integer becomes a fresh integer r with the linear
// constraints  x·lo − 1 < r <= x·hi.  The enclosure is sound for every rounding the
// hardware can perform, so obligations proved under it hold for the real float result;
// a model that depends on the slack is replayed natively before it is reported.

import (
	"fmt"
	"math"
	"math/big"
)

type fenc struct {
	x      *Term    // nil: pure constant interval
	lo, hi *big.Rat // value in [x*lo, x*hi] (x >= 0), or [lo, hi] when x == nil
}

var ratU = new(big.Rat).SetFrac(big.NewInt(1), new(big.Int).Lsh(big.NewInt(1), 53))

func oneMinusU() *big.Rat { return new(big.Rat).Sub(big.NewRat(1, 1), ratU) }
func onePlusU() *big.Rat  { return new(big.Rat).Add(big.NewRat(1, 1), ratU) }

func encloseFloat(t *Term) (fenc, bool) {
	switch t.op {
	case OConst:
		f := t.f64Val()
		if math.IsNaN(f) || math.IsInf(f, 0) || f < 0 {
			return fenc{}, false
		}
		r := new(big.Rat)
		r.SetFloat64(f)
		return fenc{nil, r, new(big.Rat).Set(r)}, true
	case OI2F:
		x := t.a[0]
		if x.kind != KInt || x.signed {
			return fenc{}, false
		}
		return fenc{x, oneMinusU(), onePlusU()}, true
	case OFMul:
		a, ok1 := encloseFloat(t.a[0])
		b, ok2 := encloseFloat(t.a[1])
		if !ok1 || !ok2 {
			return fenc{}, false
		}
		if a.x != nil && b.x != nil {
			return fenc{}, false
		}
		x := a.x
		if x == nil {
			x = b.x
		}
		lo := new(big.Rat).Mul(a.lo, b.lo)
		hi := new(big.Rat).Mul(a.hi, b.hi)
		return fenc{x, lo.Mul(lo, oneMinusU()), hi.Mul(hi, onePlusU())}, true
	case OFDiv:
		a, ok1 := encloseFloat(t.a[0])
		b, ok2 := encloseFloat(t.a[1])
		if !ok1 || !ok2 || b.x != nil || b.lo.Sign() <= 0 {
			return fenc{}, false
		}
		lo := new(big.Rat).Quo(a.lo, b.hi)
		hi := new(big.Rat).Quo(a.hi, b.lo)
		return fenc{a.x, lo.Mul(lo, oneMinusU()), hi.Mul(hi, onePlusU())}, true
	}
	return fenc{}, false
}

// f2iCut returns a fresh integer for trunc(x) constrained by the enclosure, or nil.
func (p *Path) f2iCut(x *Term, bits uint8, signed bool) *Term {
	if p.enc != EncInt {
		return nil
	}
	// the conversion is a function of its operand: the same float term converts to the same integer
	type key struct {
		t      *Term
		bits   uint8
		signed bool
	}
	if p.f2iMemo == nil {
		p.f2iMemo = map[interface{}]*Term{}
	}
	k := key{x, bits, signed}
	if r, ok := p.f2iMemo[k]; ok {
		return r
	}
	r := p.f2iCutNew(x, bits, signed)
	if r != nil {
		p.f2iMemo[k] = r
	}
	return r
}

func (p *Path) f2iCutNew(x *Term, bits uint8, signed bool) *Term {
	if r := p.f2iQuot(x, bits, signed); r != nil {
		return r
	}
	if r := p.f2iDyadic(x, bits, signed); r != nil {
		return r
	}
	e, ok := encloseFloat(x)
	if !ok || e.x == nil {
		return nil
	}
	st := p.store
	// float64(x) * 1.0 (or float64(x) alone) is fl(x): exactly x below 2^53
	if one := isTimesOne(x); one != nil && !signed {
		p.nondetSeq["fpcut"]++
		r := st.Var(fmt.Sprintf("fpcut_%d", p.nondetSeq["fpcut"]), KInt, bits, signed)
		rw := st.Conv(r, 0, false)
		p.assertPC(st.Eq(rw, p.exactFl(one)))
		p.fpCuts++
		return r
	}
	// float64(x) * 2^-k is exact for x < 2^53: the conversion is floor(x / 2^k)
	if xi, kpow, ok := timesPow2(x); ok && !signed {
		p.nondetSeq["fpcut"]++
		r := st.Var(fmt.Sprintf("fpcut_%d", p.nondetSeq["fpcut"]), KInt, bits, signed)
		xw, rw := st.Conv(xi, 0, false), st.Conv(r, 0, false)
		two53 := st.Wide(new(big.Int).Lsh(big.NewInt(1), 53))
		d := new(big.Int).Lsh(big.NewInt(1), uint(kpow))
		mulc := func(t *Term, c *big.Int) *Term { return st.mk(&Term{op: OMul, kind: KWide, a: []*Term{t, st.Wide(c)}}) }
		imp := func(h, c *Term) *Term { return st.Or(st.Not(h), c) }
		// r*d <= x < (r+1)*d
		exact := st.And(st.Le(mulc(rw, d), xw), st.Lt(xw, mulc(st.Bin(OAdd, rw, st.Wide(big.NewInt(1))), d)))
		p.assertPC(imp(st.Lt(xw, two53), exact))
		// above 2^53 fall back to the enclosure
		e2, _ := encloseFloat(x)
		up := st.Le(mulc(rw, e2.hi.Denom()), mulc(xw, e2.hi.Num()))
		low := st.Lt(mulc(xw, e2.lo.Num()), mulc(st.Bin(OAdd, rw, st.Wide(big.NewInt(1))), e2.lo.Denom()))
		p.assertPC(imp(st.Not(st.Lt(xw, two53)), st.And(up, low)))
		p.fpCuts++
		return r
	}
	p.nondetSeq["fpcut"]++
	r := st.Var(fmt.Sprintf("fpcut_%d", p.nondetSeq["fpcut"]), KInt, bits, signed)
	// wide arithmetic: r*D <= x*N  and  r*D' > x*N' - D'
	xw := st.Conv(e.x, 0, false)
	rw := st.Conv(r, 0, false)
	mulc := func(t *Term, c *big.Int) *Term {
		return st.mk(&Term{op: OMul, kind: KWide, a: []*Term{t, st.Wide(c)}})
	}
	up := st.Le(mulc(rw, e.hi.Denom()), mulc(xw, e.hi.Num()))
	// x*lo - 1 < r   <=>   x*Nl < (r+1)*Dl
	rp1 := st.Bin(OAdd, rw, st.Wide(big.NewInt(1)))
	lowc := st.Lt(mulc(xw, e.lo.Num()), mulc(rp1, e.lo.Denom()))
	// only meaningful while the value stays inside the integer range
	limit := new(big.Int).Lsh(big.NewInt(1), uint(bits))
	if signed {
		limit = new(big.Int).Lsh(big.NewInt(1), uint(bits-1))
	}
	inRange := st.Lt(mulc(xw, e.hi.Num()), st.Wide(new(big.Int).Mul(limit, e.hi.Denom())))
	c := st.Or(st.Not(inRange), st.And(up, lowc))
	p.assertPC(c)
	// model preference (never part of the claim): counterexamples and witnesses are first sought
	// where the product is well inside an integer interval, so that they do not hinge on the
	// enclosure's slack and replay natively
	mid := new(big.Rat).Add(e.lo, e.hi)
	mid.Quo(mid, big.NewRat(2, 1))
	k := big.NewInt(1024)
	xm := mulc(xw, mid.Num())
	rd := mulc(rw, mid.Denom())
	rd1 := mulc(rp1, mid.Denom())
	wsub := func(a, b *Term) *Term { return st.mk(&Term{op: OSub, kind: KWide, a: []*Term{a, b}}) }
	p.prefs = append(p.prefs,
		st.Le(st.Wide(mid.Denom()), mulc(wsub(xm, rd), k)),
		st.Le(st.Wide(mid.Denom()), mulc(wsub(rd1, xm), k)))
	p.fpCuts++
	return r
}

// floatSign decides comparisons of an enclosed (non-negative) float against zero.
func floatNonNeg(t *Term) bool {
	_, ok := encloseFloat(t)
	return ok
}

// fdivCut abstracts q = fl(float64(x) / float64(y)) for integer terms x, y by a fresh binary64
// variable that never reaches the solver: its uses are intercepted and replaced by INTEGER
// facts that hold for every IEEE-754 correctly rounded division / multiplication and monotone
// integer->float conversion (the range lemma 0<=x<=y, y>0 => 0<=q<=1 was discharged at full
// width by z3 and cvc5, DESIGN 1.3):
//   q < 0                      <=>  x < 0 <= y (y == 0 gives -Inf) or y < 0 < x
//   r = uint64(float64(L) * q)  with L unsigned:
//        0 <= x <= y, y > 0  =>  0 <= r <= L            (L < 2^53; else r <= L(1+2^-52))
//        x == y > 0          =>  r == L                 (L < 2^53; else r within 2^-53 of L)
//        x == 0, y > 0       =>  r == 0
//        x > y > 0           =>  r >= L                 (L < 2^53)
// Nothing else is assumed, so every obligation proved this way holds for the real floats; a
// model that depends on the freedom left is replayed natively before it is reported.
func (p *Path) fdivCut(a, b *Term) *Term {
	if p == nil || p.concrete != nil || a.op != OI2F || b.op != OI2F {
		return nil
	}
	x, y := a.a[0], b.a[0]
	if x.kind != KInt || y.kind != KInt {
		return nil
	}
	st := p.store
	p.nondetSeq["fdivcut"]++
	q := st.Var(fmt.Sprintf("fdivcut_%d", p.nondetSeq["fdivcut"]), KF64, 0, false)
	if p.fdivInfo == nil {
		p.fdivInfo = map[*Term][2]*Term{}
	}
	p.fdivInfo[q] = [2]*Term{st.Conv(x, 0, false), st.Conv(y, 0, false)}
	p.fpCuts++
	p.notes = append(p.notes, "float quotient of two integers abstracted by IEEE range facts (fdivCut)")
	return q
}

// quotNegative: the integer condition under which the abstract quotient q is negative.
func (p *Path) quotNegative(q *Term) *Term {
	st := p.store
	xy := p.fdivInfo[q]
	zero := st.Wide(big.NewInt(0))
	// x<0, y>=0 (y == 0: -Inf)  or  x>0, y<0
	return st.Or(st.And(st.Lt(xy[0], zero), st.Le(zero, xy[1])), st.And(st.Lt(zero, xy[0]), st.Lt(xy[1], zero)))
}

// quotProduct matches float64(L) * q (either order) with L unsigned and q an abstract quotient.
func (p *Path) quotProduct(t *Term) (L, q *Term, ok bool) {
	if p == nil || p.fdivInfo == nil || t.op != OFMul {
		return nil, nil, false
	}
	for k := 0; k < 2; k++ {
		l, r := t.a[k], t.a[1-k]
		if _, isQ := p.fdivInfo[r]; isQ && l.op == OI2F && l.a[0].kind == KInt && !l.a[0].signed {
			return l.a[0], r, true
		}
	}
	return nil, nil, false
}

// floatLtZero decides t < 0.0 for the intercepted shapes; nil when t is not one of them.
func (p *Path) floatLtZero(t *Term) *Term {
	if p == nil {
		return nil
	}
	if c := p.dyadicLtZero(t); c != nil {
		return c
	}
	if p.fdivInfo == nil {
		return nil
	}
	st := p.store
	if _, isQ := p.fdivInfo[t]; isQ {
		return p.quotNegative(t)
	}
	if L, q, ok := p.quotProduct(t); ok {
		return st.And(st.Lt(st.Wide(big.NewInt(0)), st.Conv(L, 0, false)), p.quotNegative(q))
	}
	return nil
}

// f2iQuot: uint conversion of float64(L) * q.
func (p *Path) f2iQuot(t *Term, bits uint8, signed bool) *Term {
	L, q, ok := p.quotProduct(t)
	if !ok || signed {
		return nil
	}
	st := p.store
	xy := p.fdivInfo[q]
	x, y := xy[0], xy[1]
	p.nondetSeq["fpcut"]++
	r := st.Var(fmt.Sprintf("fpcut_%d", p.nondetSeq["fpcut"]), KInt, bits, signed)
	rw, lw := st.Conv(r, 0, false), st.Conv(L, 0, false)
	zero := st.Wide(big.NewInt(0))
	two53 := st.Wide(new(big.Int).Lsh(big.NewInt(1), 53))
	small := st.Lt(lw, two53)
	mulc := func(t *Term, c *big.Int) *Term { return st.mk(&Term{op: OMul, kind: KWide, a: []*Term{t, st.Wide(c)}}) }
	imp := func(h, c *Term) *Term { return st.Or(st.Not(h), c) }
	ypos := st.Lt(zero, y)
	unit := st.And(ypos, st.And(st.Le(zero, x), st.Le(x, y)))
	fl := p.exactFl(L) // fl(L) as an exact integer
	_ = small
	_ = mulc
	p.assertPC(imp(unit, st.Le(rw, fl)))
	p.assertPC(imp(st.And(ypos, st.Eq(x, y)), st.Eq(rw, fl)))
	p.assertPC(imp(st.And(ypos, st.Eq(x, zero)), st.Eq(rw, zero)))
	p.assertPC(imp(st.And(ypos, st.Lt(y, x)), st.Le(fl, rw)))
	p.fpCuts++
	return r
}

// isTimesOne matches float64(x) and float64(x) * 1.0 for an unsigned integer term x.
func isTimesOne(t *Term) *Term {
	if t.op == OI2F && t.a[0].kind == KInt && !t.a[0].signed {
		return t.a[0]
	}
	if t.op == OFMul {
		for k := 0; k < 2; k++ {
			if c := t.a[1-k]; c.isConst() && c.f64Val() == 1.0 {
				if x := isTimesOne(t.a[k]); x != nil {
					return x
				}
			}
		}
	}
	return nil
}

// exactFl returns the mathematical integer fl(L): the binary64 nearest to the unsigned integer
// term L (round half to even), exact for every L < 2^64, as a piecewise-linear wide term.
func (p *Path) exactFl(L *Term) *Term {
	st := p.store
	lw := st.Conv(L, 0, false)
	if p.flMemo == nil {
		p.flMemo = map[*Term]*Term{}
	}
	if r, ok := p.flMemo[lw]; ok {
		return r
	}
	wide := func(op Op, a, b *Term) *Term { return st.mk(&Term{op: op, kind: KWide, a: []*Term{a, b}}) }
	ite := func(c, a, b *Term) *Term { return st.mk(&Term{op: OIte, kind: KWide, a: []*Term{c, a, b}}) }
	one, zero := st.Wide(big.NewInt(1)), st.Wide(big.NewInt(0))
	res := lw // for L >= 2^64 never used
	for j := 10; j >= 0; j-- {
		sBig := new(big.Int).Lsh(big.NewInt(1), uint(j+1))
		sT := st.Wide(sBig)
		half := st.Wide(new(big.Int).Lsh(big.NewInt(1), uint(j)))
		m := wide(ODiv, lw, sT)
		rem := wide(ORem, lw, sT)
		odd := st.Eq(wide(ORem, m, st.Wide(big.NewInt(2))), one)
		up := st.Or(st.Lt(half, rem), st.And(st.Eq(rem, half), odd))
		fl := wide(OMul, wide(OAdd, m, ite(up, one, zero)), sT)
		bound := st.Wide(new(big.Int).Lsh(big.NewInt(1), uint(54+j)))
		res = ite(st.Lt(lw, bound), fl, res)
	}
	res = ite(st.Lt(lw, st.Wide(new(big.Int).Lsh(big.NewInt(1), 53))), lw, res)
	p.flMemo[lw] = res
	return res
}

// timesPow2 matches float64(x) * c (either order) with x an unsigned integer term and
// c = 2^-k, 1 <= k <= 32.
func timesPow2(t *Term) (*Term, int, bool) {
	if t.op != OFMul {
		return nil, 0, false
	}
	for i := 0; i < 2; i++ {
		a, c := t.a[i], t.a[1-i]
		if a.op == OI2F && a.a[0].kind == KInt && !a.a[0].signed && c.isConst() {
			f := c.f64Val()
			for k := 1; k <= 32; k++ {
				if f == math.Ldexp(1, -k) {
					return a.a[0], k, true
				}
			}
		}
	}
	return nil, 0, false
}

// ---- exact dyadic chains ----
//
// A float64 built from ONE integer term x (signed or unsigned) by float64(x) and then
// multiplications by positive finite constants and divisions by positive powers of two is,
// while |x|*M < 2^53 (M = product of the odd parts of the multipliers), computed without any
// rounding: every intermediate value is x * (odd integer <= M) * 2^e, which has at most 53
// significant bits (no overflow / underflow for the exponents that occur: |e| <= 600 is
// required). Its value is then exactly x*N/D with D a power of two, its sign is the sign of x,
// it is never NaN, and truncation to an integer is integer division. Outside the hypothesis
// nothing is asserted about the conversion result (sound, weaker).

type dyadic struct {
	x    *Term
	N, D *big.Int // value = x*N/D
	M    *big.Int // odd-part product
}

// splitDyadic writes a positive finite constant as m * 2^e with m an odd integer.
func splitDyadic(f float64) (m *big.Int, e int, ok bool) {
	if !(f > 0) || math.IsInf(f, 0) || math.IsNaN(f) {
		return nil, 0, false
	}
	fr, ex := math.Frexp(f) // f = fr * 2^ex, 0.5 <= fr < 1
	mi := uint64(fr * (1 << 53))
	ex -= 53
	for mi%2 == 0 {
		mi /= 2
		ex++
	}
	return new(big.Int).SetUint64(mi), ex, true
}

func dyadicChain(t *Term) (dyadic, bool) {
	switch t.op {
	case OI2F:
		x := t.a[0]
		if x.kind != KInt {
			return dyadic{}, false
		}
		return dyadic{x, big.NewInt(1), big.NewInt(1), big.NewInt(1)}, true
	case OFMul:
		for k := 0; k < 2; k++ {
			c := t.a[1-k]
			if !c.isConst() {
				continue
			}
			d, ok := dyadicChain(t.a[k])
			if !ok {
				return dyadic{}, false
			}
			m, e, ok := splitDyadic(c.f64Val())
			if !ok || e > 600 || e < -600 {
				return dyadic{}, false
			}
			N, D := new(big.Int).Mul(d.N, m), new(big.Int).Set(d.D)
			if e >= 0 {
				N.Lsh(N, uint(e))
			} else {
				D.Lsh(D, uint(-e))
			}
			return dyadic{d.x, N, D, new(big.Int).Mul(d.M, m)}, true
		}
	case OFDiv:
		c := t.a[1]
		if !c.isConst() {
			return dyadic{}, false
		}
		d, ok := dyadicChain(t.a[0])
		if !ok {
			return dyadic{}, false
		}
		m, e, ok := splitDyadic(c.f64Val())
		if !ok || m.Cmp(big.NewInt(1)) != 0 || e > 600 || e < -600 {
			return dyadic{}, false
		}
		N, D := new(big.Int).Set(d.N), new(big.Int).Set(d.D)
		if e >= 0 {
			D.Lsh(D, uint(e))
		} else {
			N.Lsh(N, uint(-e))
		}
		return dyadic{d.x, N, D, d.M}, true
	}
	return dyadic{}, false
}

// reduce cancels common powers of two.
func (d dyadic) reduce() dyadic {
	g := new(big.Int).GCD(nil, nil, d.N, d.D)
	return dyadic{d.x, new(big.Int).Quo(d.N, g), new(big.Int).Quo(d.D, g), d.M}
}

// f2iDyadic: exact conversion of a dyadic chain over a SIGNED integer term (unsigned terms
// keep the older rules, which also cover values above 2^53).
func (p *Path) f2iDyadic(t *Term, bits uint8, signed bool) *Term {
	d, ok := dyadicChain(t)
	if !ok || t.op == OI2F {
		return nil
	}
	if !d.x.signed {
		// unsigned terms: float64(x), float64(x)*1 and float64(x)*2^-k keep their older rules
		// (exact also above 2^53); other chains are handled here
		if isTimesOne(t) != nil {
			return nil
		}
		if _, _, ok := timesPow2(t); ok {
			return nil
		}
	}
	d = d.reduce()
	if d.M.BitLen() > 40 || d.N.BitLen() > 700 || d.D.BitLen() > 700 {
		return nil
	}
	st := p.store
	p.nondetSeq["fpcut"]++
	r := st.Var(fmt.Sprintf("fpcut_%d", p.nondetSeq["fpcut"]), KInt, bits, signed)
	xw, rw := st.Conv(d.x, 0, false), st.Conv(r, 0, false)
	mulc := func(t *Term, c *big.Int) *Term { return st.mk(&Term{op: OMul, kind: KWide, a: []*Term{t, st.Wide(c)}}) }
	imp := func(h, c *Term) *Term { return st.Or(st.Not(h), c) }
	two53 := new(big.Int).Lsh(big.NewInt(1), 53)
	xm := mulc(xw, d.M)
	exact := st.And(st.Lt(xm, st.Wide(two53)), st.Lt(st.Wide(new(big.Int).Neg(two53)), xm))
	xn := mulc(xw, d.N)
	zero, one := st.Wide(big.NewInt(0)), st.Wide(big.NewInt(1))
	limit := new(big.Int).Lsh(big.NewInt(1), uint(bits))
	lower := new(big.Int).Neg(d.D) // value > -1
	if signed {
		limit = new(big.Int).Lsh(big.NewInt(1), uint(bits-1))
		lower = new(big.Int).Neg(new(big.Int).Add(new(big.Int).Mul(limit, d.D), d.D)) // value > -2^(bits-1) - 1
	}
	inRange := st.And(st.Lt(xn, st.Wide(new(big.Int).Mul(limit, d.D))), st.Lt(st.Wide(lower), xn))
	// truncation toward zero
	pos := st.And(st.Le(mulc(rw, d.D), xn), st.Lt(xn, mulc(st.Bin(OAdd, rw, one), d.D)))
	neg := st.And(st.Lt(mulc(st.Bin(OSub, rw, one), d.D), xn), st.Le(xn, mulc(rw, d.D)))
	trunc := st.And(imp(st.Le(zero, xn), pos), imp(st.Lt(xn, zero), neg))
	p.assertPC(imp(st.And(exact, inRange), trunc))
	if !d.x.signed {
		// above the exactness bound fall back to the rational enclosure
		if e, ok := encloseFloat(t); ok && e.x != nil {
			up := st.Le(mulc(rw, e.hi.Denom()), mulc(xw, e.hi.Num()))
			low := st.Lt(mulc(xw, e.lo.Num()), mulc(st.Bin(OAdd, rw, one), e.lo.Denom()))
			lim := st.Lt(mulc(xw, e.hi.Num()), st.Wide(new(big.Int).Mul(limit, e.hi.Denom())))
			p.assertPC(imp(st.And(st.Not(exact), lim), st.And(up, low)))
		}
	}
	p.fpCuts++
	p.notes = append(p.notes, "float chain int*dyadic constants converted exactly while |x|*M < 2^53 (f2iDyadic)")
	return r
}

// dyadicLtZero: the sign of a dyadic chain is the sign of its integer.
func (p *Path) dyadicLtZero(t *Term) *Term {
	d, ok := dyadicChain(t)
	if !ok || !d.x.signed {
		return nil
	}
	st := p.store
	return st.Lt(st.Conv(d.x, 0, false), st.Wide(big.NewInt(0)))
}
