package main

// Symbolic content inside (otherwise concrete) Go strings.
//
// A symbolic integer rendered into a string (strconv.FormatInt/FormatUint/Itoa, %v / %d in
// fmt) becomes a marker "\x01SYM:<term id>\x01". A hash (encryption.Hash) of a string that
// contains markers is the concrete SHA3 of the marker text — a well-formed 64-hex string that
// the code under test can carry around — and is recorded in the path's hash registry together
// with its preimage. String equality then is decided semantically:
//
//	strEq(a, b) = conjunction of equalities between aligned symbolic parts, or false
//
// under two stated assumptions: (1) the hash is collision free (H(x)=H(y) => x=y) and a hash
// with a symbolic preimage never equals a 64-hex constant that is not itself a recorded hash;
// (2) decimal renderings are canonical (no leading zeros, '-' only for negatives). Where the
// alignment of a symbolic decimal is ambiguous (it touches a digit or another symbolic
// decimal without a separator) the comparison is reported as such: ambiguity is an
// injectivity defect of the format when two symbolic parts touch, and the harness can ask
// for it through sym.StrAmbiguous.

import (
	"math/big"
	"strconv"
	"strings"
)

type strTok struct {
	kind int // 0 literal, 1 symbolic decimal, 2 hash with symbolic preimage
	lit  string
	term *Term
	pre  string // preimage of a hash token
	known, symbolic bool
}

const (
	tokLit = iota
	tokSym
	tokHash
)

func isHexRun64(s string, i int) bool {
	if i+64 > len(s) {
		return false
	}
	for k := i; k < i+64; k++ {
		c := s[k]
		if !(c >= '0' && c <= '9' || c >= 'a' && c <= 'f') {
			return false
		}
	}
	if i > 0 && isHexByte(s[i-1]) {
		return false
	}
	if i+64 < len(s) && isHexByte(s[i+64]) {
		return false
	}
	return true
}

// hexRunAt returns the length of the maximal hex run that starts exactly at i (0 if i is
// inside a run or not hex).
func hexRunAt(s string, i int) int {
	if i >= len(s) || !isHexByte(s[i]) || (i > 0 && isHexByte(s[i-1])) {
		return 0
	}
	j := i
	for j < len(s) && isHexByte(s[j]) {
		j++
	}
	return j - i
}

func isHexByte(c byte) bool { return c >= '0' && c <= '9' || c >= 'a' && c <= 'f' }

func hasSymContent(p *Path, s string) bool {
	if strings.Contains(s, symMarkOpen) {
		return true
	}
	if len(p.hashPre) == 0 || len(s) < 64 {
		return false
	}
	for i := 0; i+64 <= len(s); i++ {
		if n := hexRunAt(s, i); n > 0 {
			if n%64 == 0 {
				for k := i; k < i+n; k += 64 {
					if pre, ok := p.hashPre[s[k:k+64]]; ok && hasSymContent(p, pre) {
						return true
					}
				}
			}
			i += n - 1
		}
	}
	return false
}

// recordHash remembers the preimage of a computed hash (hex form).
func (p *Path) recordHash(hexHash, pre string) {
	if p.hashPre == nil {
		p.hashPre = map[string]string{}
	}
	p.hashPre[hexHash] = pre
}

func tokenize(p *Path, s string) []strTok {
	var out []strTok
	lit := strings.Builder{}
	flush := func() {
		if lit.Len() > 0 {
			out = append(out, strTok{kind: tokLit, lit: lit.String()})
			lit.Reset()
		}
	}
	for i := 0; i < len(s); {
		if strings.HasPrefix(s[i:], symMarkOpen) {
			j := strings.Index(s[i+len(symMarkOpen):], symMarkClose)
			if j >= 0 {
				id, err := strconv.Atoi(s[i+len(symMarkOpen) : i+len(symMarkOpen)+j])
				if err == nil {
					if t, ok := p.markers[id]; ok {
						flush()
						out = append(out, strTok{kind: tokSym, term: t})
						i += len(symMarkOpen) + j + len(symMarkClose)
						continue
					}
				}
			}
		}
		if n := hexRunAt(s, i); n > 0 {
			if n%64 == 0 {
				flush()
				for k := i; k < i+n; k += 64 {
					h := s[k : k+64]
					pre, ok := p.hashPre[h]
					out = append(out, strTok{kind: tokHash, lit: h, pre: pre, known: ok, symbolic: ok && hasSymContent(p, pre)})
				}
			} else {
				lit.WriteString(s[i : i+n])
			}
			i += n
			continue
		}
		lit.WriteByte(s[i])
		i++
	}
	flush()
	return out
}

type strAmbiguous struct{ why string }

func isDigit(c byte) bool { return c >= '0' && c <= '9' }

// symDelimited checks that the symbolic decimal toks[i] is followed by a non-digit (or the end)
// and not preceded by a digit or '-'.
func symDelimited(toks []strTok, i int, off int) bool {
	if i+1 < len(toks) {
		n := toks[i+1]
		if n.kind == tokSym {
			return false
		}
		if n.kind == tokLit && len(n.lit) > 0 && isDigit(n.lit[0]) {
			return false
		}
		if n.kind == tokHash {
			return false
		}
	}
	if i > 0 {
		pr := toks[i-1]
		if pr.kind == tokSym || pr.kind == tokHash {
			return false
		}
		if pr.kind == tokLit && len(pr.lit) > 0 {
			c := pr.lit[len(pr.lit)-1]
			if isDigit(c) || c == '-' {
				return false
			}
		}
	}
	return true
}

func wideOf(st *Store, t *Term) *Term {
	if t.kind == KWide {
		return t
	}
	return st.Conv(t, 0, false)
}

// strEqTerm decides a == b for strings with symbolic content. It returns a Term (possibly
// constant) or panics with strAmbiguous.
func strEqTerm(p *Path, a, b string, depth int) *Term {
	st := p.store
	if depth > 8 {
		panic(unsupported("string equality: hash nesting too deep"))
	}
	ta, tb := tokenize(p, a), tokenize(p, b)
	for i, t := range ta {
		if t.kind == tokSym && (t.term.kind != KInt && t.term.kind != KWide) {
			panic(unsupported("string equality over a non-integer symbolic part"))
		}
		if t.kind == tokSym && !symDelimited(ta, i, 0) {
			panic(strAmbiguous{"a symbolic number touches a digit, '-' or another symbolic part without a separator"})
		}
	}
	for i, t := range tb {
		if t.kind == tokSym && (t.term.kind != KInt && t.term.kind != KWide) {
			panic(unsupported("string equality over a non-integer symbolic part"))
		}
		if t.kind == tokSym && !symDelimited(tb, i, 0) {
			panic(strAmbiguous{"a symbolic number touches a digit, '-' or another symbolic part without a separator"})
		}
	}
	res := st.Bool(true)
	ia, ib := 0, 0   // token index
	oa, ob := 0, 0   // offset inside current literal
	for {
		// skip exhausted literals
		for ia < len(ta) && ta[ia].kind == tokLit && oa >= len(ta[ia].lit) {
			ia++
			oa = 0
		}
		for ib < len(tb) && tb[ib].kind == tokLit && ob >= len(tb[ib].lit) {
			ib++
			ob = 0
		}
		if ia >= len(ta) || ib >= len(tb) {
			if ia >= len(ta) && ib >= len(tb) {
				return res
			}
			return st.Bool(false) // the rest is non-empty (a decimal or hash renders non-empty)
		}
		x, y := ta[ia], tb[ib]
		switch {
		case x.kind == tokLit && y.kind == tokLit:
			lx, ly := x.lit[oa:], y.lit[ob:]
			n := len(lx)
			if len(ly) < n {
				n = len(ly)
			}
			if lx[:n] != ly[:n] {
				return st.Bool(false)
			}
			oa += n
			ob += n
		case x.kind == tokSym && y.kind == tokSym:
			res = st.And(res, st.Eq(wideOf(st, x.term), wideOf(st, y.term)))
			ia++
			ib++
		case x.kind == tokSym && y.kind == tokLit, x.kind == tokLit && y.kind == tokSym:
			symT, lit, off := x, y.lit, ob
			if x.kind == tokLit {
				symT, lit, off = y, x.lit, oa
			}
			// maximal decimal run in the literal
			j := off
			if j < len(lit) && lit[j] == '-' {
				j++
			}
			ds := j
			for j < len(lit) && isDigit(lit[j]) {
				j++
			}
			if j == ds {
				return st.Bool(false)
			}
			run := lit[off:j]
			digits := lit[ds:j]
			if (len(digits) > 1 && digits[0] == '0') || run == "-0" {
				return st.Bool(false)
			}
			if off > 0 && (isDigit(lit[off-1])) {
				panic(strAmbiguous{"a symbolic number aligns with the middle of a digit run"})
			}
			v, ok := new(big.Int).SetString(run, 10)
			if !ok {
				return st.Bool(false)
			}
			res = st.And(res, st.Eq(wideOf(st, symT.term), st.Wide(v)))
			if x.kind == tokLit {
				oa = j
				ib++
			} else {
				ob = j
				ia++
			}
		case x.kind == tokHash && y.kind == tokHash:
			if x.lit != y.lit {
				if x.known && y.known && (x.symbolic || y.symbolic) {
					res = st.And(res, strEqTerm(p, x.pre, y.pre, depth+1))
				} else {
					return st.Bool(false) // distinct constants, or assumption (1)
				}
			}
			ia++
			ib++
		case x.kind == tokHash && y.kind == tokLit, x.kind == tokLit && y.kind == tokHash:
			lit, off := y.lit, ob
			litToks, li, hashToks, hi := tb, ib, ta, ia
			if x.kind == tokLit {
				lit, off = x.lit, oa
				litToks, li, hashToks, hi = ta, ia, tb, ib
			}
			// the literal side is not a run of whole hashes here (those were split into hash
			// tokens): compare the lengths of the two maximal hex runs
			r := 0
			for off+r < len(lit) && isHexByte(lit[off+r]) {
				r++
			}
			if off+r == len(lit) && li+1 < len(litToks) && litToks[li+1].kind == tokSym {
				panic(strAmbiguous{"hex text continues into a symbolic number"})
			}
			m := 0
			for hi+m < len(hashToks) && hashToks[hi+m].kind == tokHash {
				m++
			}
			if hi+m < len(hashToks) && hashToks[hi+m].kind == tokSym {
				panic(strAmbiguous{"a hash is followed by a symbolic number without a separator"})
			}
			if r != 64*m {
				return st.Bool(false)
			}
			panic(strAmbiguous{"a hash aligns with the middle of a hex run"})
		default: // hash vs symbolic decimal: a decimal of <= 20 digits is never a 64-hex string
			return st.Bool(false)
		}
		if res.isConst() && !res.boolVal() {
			return res
		}
	}
}

// strEqValue is the interpreter entry: concrete bool when nothing symbolic is involved.
func strEqValue(fr *frame, a, b string) value {
	p := fr.i.p
	if a == b {
		return true
	}
	if !hasSymContent(p, a) && !hasSymContent(p, b) {
		return false
	}
	var out value
	func() {
		defer func() {
			if r := recover(); r != nil {
				if amb, ok := r.(strAmbiguous); ok {
					p.notes = append(p.notes, "ambiguous string comparison: "+amb.why)
					panic(unsupported("ambiguous comparison of strings with symbolic parts: " + amb.why))
				}
				panic(r)
			}
		}()
		out = lower(strEqTerm(p, a, b, 0), nil)
	}()
	return out
}

// strAmbiguousValue reports whether comparing a with b is ambiguous (sym.StrAmbiguous).
func strAmbiguousValue(fr *frame, a string) (amb bool) {
	p := fr.i.p
	defer func() {
		if r := recover(); r != nil {
			if _, ok := r.(strAmbiguous); ok {
				amb = true
				return
			}
			panic(r)
		}
	}()
	strEqTerm(p, a, a+"", 0)
	toks := tokenize(p, a)
	for i, t := range toks {
		if t.kind == tokSym && !symDelimited(toks, i, 0) {
			return true
		}
	}
	return false
}

// humanMarkers replaces markers by readable text (observations, notes).
func humanMarkers(p *Path, s string) string {
	if !strings.Contains(s, symMarkOpen) {
		return s
	}
	var b strings.Builder
	for _, t := range tokenize(p, s) {
		switch t.kind {
		case tokLit:
			b.WriteString(t.lit)
		case tokSym:
			b.WriteString("<sym " + t.term.String() + ">")
		case tokHash:
			b.WriteString(t.lit)
		}
	}
	return b.String()
}
