package main

// math/rand model: a generator seeded with a concrete seed is the real generator (exact);
// with a symbolic seed each draw is an arbitrary result (all permutations of n <= 4 are
// explored; an index is case-split) that is functionally determined by (seed, call index, n).

import (
	"fmt"
	"math/rand"
	"sort"

	"golang.org/x/tools/go/ssa"
)

type randState struct {
	seed   value
	native *rand.Rand
	calls  int
}

func (p *Path) randOf(r *value) *randState {
	if p.rands == nil {
		p.rands = map[*value]*randState{}
	}
	rs := p.rands[r]
	if rs == nil {
		panic(unsupported("math/rand generator not created through rand.New(rand.NewSource(seed))"))
	}
	return rs
}

func (p *Path) symPerm(rs *randState, n int) []int {
	rs.calls++
	if n <= 1 {
		out := make([]int, n)
		return out
	}
	if n > 4 {
		panic(unsupported("permutation of more than 4 elements under a symbolic seed"))
	}
	key := fmt.Sprintf("perm|%v|%d|%d", toString(rs.seed), rs.calls, n)
	if p.randMemo == nil {
		p.randMemo = map[string][]int{}
	}
	if v, ok := p.randMemo[key]; ok {
		return v
	}
	perms := permutations(n)
	d := p.decide(make([]*Term, len(perms)), "rand-perm")
	p.randMemo[key] = perms[d]
	return perms[d]
}

func (p *Path) symIntn(rs *randState, n int) int {
	rs.calls++
	if n <= 1 {
		return 0
	}
	if n > 8 {
		panic(unsupported("Intn above 8 under a symbolic seed"))
	}
	key := fmt.Sprintf("intn|%v|%d|%d", toString(rs.seed), rs.calls, n)
	if p.randMemo == nil {
		p.randMemo = map[string][]int{}
	}
	if v, ok := p.randMemo[key]; ok {
		return v[0]
	}
	d := p.decide(make([]*Term, n), "rand-intn")
	p.randMemo[key] = []int{d}
	return d
}

func intsToValues(xs []int) []value {
	out := make([]value, len(xs))
	for i, x := range xs {
		out[i] = x
	}
	return out
}

func init() {
	extraRegs = append(extraRegs, func() {
		ext := externals
		ext["math/rand.NewSource"] = func(fr *frame, args []value) value {
			p := fr.i.p
			var cell value = structure{}
			c := &cell
			if p.rands == nil {
				p.rands = map[*value]*randState{}
			}
			rs := &randState{seed: args[0]}
			if s, ok := args[0].(int64); ok {
				rs.native = rand.New(rand.NewSource(s))
			}
			p.rands[c] = rs
			pkg := fr.i.prog.ImportedPackage("math/rand")
			t := pkg.Type("rngSource").Type()
			return iface{t: typesPointer(t), v: c}
		}
		ext["math/rand.New"] = func(fr *frame, args []value) value {
			p := fr.i.p
			src := args[0].(iface)
			rs := p.randOf(src.v.(*value))
			pkg := fr.i.prog.ImportedPackage("math/rand")
			cell := zero(pkg.Type("Rand").Type())
			c := &cell
			p.rands[c] = rs
			return c
		}
		ext["(*math/rand.Rand).Perm"] = func(fr *frame, args []value) value {
			p := fr.i.p
			rs := p.randOf(args[0].(*value))
			n := int(asInt64(concretizeIdx(args[1], 16)))
			if rs.native != nil {
				return intsToValues(rs.native.Perm(n))
			}
			return intsToValues(p.symPerm(rs, n))
		}
		ext["(*math/rand.Rand).Intn"] = func(fr *frame, args []value) value {
			p := fr.i.p
			rs := p.randOf(args[0].(*value))
			n := int(asInt64(concretizeIdx(args[1], 64)))
			if n <= 0 {
				panic(targetPanic{iface{nil, "invalid argument to Intn"}})
			}
			if rs.native != nil {
				return rs.native.Intn(n)
			}
			return p.symIntn(rs, n)
		}
		ext["(*math/rand.Rand).Int63"] = func(fr *frame, args []value) value {
			rs := fr.i.p.randOf(args[0].(*value))
			if rs.native != nil {
				return rs.native.Int63()
			}
			panic(unsupported("Int63 under a symbolic seed"))
		}
		ext["(*math/rand.Rand).Int63n"] = func(fr *frame, args []value) value {
			rs := fr.i.p.randOf(args[0].(*value))
			if rs.native != nil {
				return rs.native.Int63n(asInt64(args[1]))
			}
			return int64(fr.i.p.symIntn(rs, int(asInt64(args[1]))))
		}
		ext["(*math/rand.Rand).Float64"] = func(fr *frame, args []value) value {
			rs := fr.i.p.randOf(args[0].(*value))
			if rs.native != nil {
				return rs.native.Float64()
			}
			panic(unsupported("Float64 under a symbolic seed"))
		}
		ext["(*math/rand.Rand).Shuffle"] = func(fr *frame, args []value) value {
			p := fr.i.p
			rs := p.randOf(args[0].(*value))
			n := int(asInt64(args[1]))
			swap := args[2]
			if rs.native != nil {
				rs.native.Shuffle(n, func(i, j int) { call(fr.i, fr, fr.callpos, swap, []value{i, j}) })
				return nil
			}
			// arbitrary permutation realised by selection swaps
			perm := p.symPerm(rs, n)
			cur := make([]int, n)
			for i := range cur {
				cur[i] = i
			}
			for i := 0; i < n; i++ {
				// find position of perm[i] in cur
				j := i
				for k := i; k < n; k++ {
					if cur[k] == perm[i] {
						j = k
					}
				}
				if j != i {
					call(fr.i, fr, fr.callpos, swap, []value{i, j})
					cur[i], cur[j] = cur[j], cur[i]
				}
			}
			return nil
		}
		// the process-wide source (rand.Shuffle, rand.Intn, rand.Perm): an arbitrary result
		global := func(p *Path) *randState {
			if p.globalRand == nil {
				p.globalRand = &randState{seed: "process-wide source"}
			}
			p.globalRand.calls++
			return p.globalRand
		}
		ext["math/rand.Intn"] = func(fr *frame, args []value) value {
			n := int(asInt64(concretizeIdx(args[0], 64)))
			if n <= 0 {
				panic(targetPanic{iface{nil, "invalid argument to Intn"}})
			}
			if n == 1 {
				return 0
			}
			return fr.i.p.symIntn(global(fr.i.p), n)
		}
		ext["math/rand.Perm"] = func(fr *frame, args []value) value {
			n := int(asInt64(concretizeIdx(args[0], 16)))
			return intsToValues(fr.i.p.symPerm(global(fr.i.p), n))
		}
		ext["math/rand.Shuffle"] = func(fr *frame, args []value) value {
			p := fr.i.p
			n := int(asInt64(args[0]))
			if n <= 1 {
				return nil
			}
			swap := args[1]
			perm := p.symPerm(global(p), n)
			cur := make([]int, n)
			for i := range cur {
				cur[i] = i
			}
			for i := 0; i < n; i++ {
				j := i
				for k := i; k < n; k++ {
					if cur[k] == perm[i] {
						j = k
					}
				}
				if j != i {
					call(fr.i, fr, fr.callpos, swap, []value{i, j})
					cur[i], cur[j] = cur[j], cur[i]
				}
			}
			return nil
		}
		_ = sort.Ints
		var _ *ssa.Function
	})
}
