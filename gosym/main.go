package main

import (
	"flag"
	"fmt"
	"os"
	"strings"
	"time"
)

func main() {
	run := flag.String("run", "", "dev: pkgpath:Func to explore")
	enc := flag.String("enc", "int", "int|bv")
	solver := flag.String("solver", "z3", "z3|z3-new|cvc5")
	workers := flag.Int("workers", 0, "")
	maxPaths := flag.Int("maxpaths", 20000, "")
	trace := flag.Bool("trace", false, "")
	id := flag.String("id", "", "property id")
	tier := flag.String("tier", "quick", "")
	replay := flag.String("replay", "", "replay file")
	mapRanges := flag.String("mapranges", "", "list functions iterating over maps in the given comma-separated packages")
	flag.Parse()
	if *mapRanges != "" {
		os.Exit(listMapRanges(strings.Split(*mapRanges, ",")))
	}
	if *run != "" {
		parts := strings.SplitN(*run, ":", 2)
		ld, err := loadProgram([]string{parts[0]})
		if err != nil {
			fmt.Fprintln(os.Stderr, err)
			os.Exit(2)
		}
		fn := ld.lookup(parts[0], parts[1])
		if fn == nil {
			fmt.Fprintln(os.Stderr, "no such function")
			os.Exit(2)
		}
		cfg := ExploreConfig{Solver: *solver, Workers: *workers, MaxPaths: *maxPaths, StepBudget: 5_000_000, TimeoutMs: 20000, Trace: *trace}
		if *enc == "bv" {
			cfg.Enc = EncBV
		}
		t0 := time.Now()
		r := explore(ld.prog, fn, cfg)
		printResult(r)
		fmt.Printf("wall %v\n", time.Since(t0))
		return
	}
	os.Exit(runCheck(*id, *tier, *replay))
}

func printResult(r *HarnessResult) {
	fmt.Printf("== %s: paths=%d infeasible=%d branches=%d steps=%d queries=%d solver=%v wall=%v incomplete=%q\n", r.Name, r.Paths, r.Infeasible, r.Branches, r.Steps, r.SolverQueries, r.SolverTime, r.Wall, r.Incomplete)
	for _, k := range sortedKeys(r.Aborted) {
		fmt.Printf("  ABORTED x%d: %s\n", r.Aborted[k], k)
	}
	for _, k := range sortedKeys(r.Obligations) {
		o := r.Obligations[k]
		fmt.Printf("  OBL [%s] %q at %s: unsat=%d sat=%d unknown=%d %s\n", o.Kind, o.Label, o.Pos, o.Unsat, o.Sat, o.Unknown, o.Detail)
		if o.Model != nil {
			fmt.Printf("      model: %v decisions=%v\n", o.Model, o.Decisions)
		}
	}
	for _, k := range sortedKeys(r.Covers) {
		fmt.Printf("  COVER %s: %v\n", k, r.Covers[k])
	}
	for k := range r.InitFailures {
		fmt.Printf("  INITFAIL %s\n", k)
	}
	for k, v := range r.Observes {
		fmt.Printf("  OBS %s: %v\n", k, v)
	}
}
