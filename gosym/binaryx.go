package main

// encoding/binary.Write / Read for fixed-size integers (incl. named integer types, which the
// library handles by reflection), symbolic-aware.

import (
	"fmt"
	"go/types"
	"strings"
)

func isLittle(order value) bool {
	it, ok := order.(iface)
	if !ok || it.t == nil {
		panic(unsupported("binary byte order"))
	}
	return strings.Contains(strings.ToLower(it.t.String()), "littleendian")
}

func intBytes(st *Store, v value, nbytes int, little bool) []value {
	out := make([]value, nbytes)
	if s, ok := v.(sv); ok {
		for i := 0; i < nbytes; i++ {
			b := fromTerm(st.Byte(s.t, i), nil)
			if little {
				out[i] = b
			} else {
				out[nbytes-1-i] = b
			}
		}
		return out
	}
	var raw uint64
	if bv, ok := v.(bool); ok {
		if bv {
			raw = 1
		}
	} else {
		raw = uint64(asInt64(v))
	}
	for i := 0; i < nbytes; i++ {
		b := uint8(raw >> (8 * uint(i)))
		if little {
			out[i] = b
		} else {
			out[nbytes-1-i] = b
		}
	}
	return out
}

func basicSize(b *types.Basic) int {
	switch b.Kind() {
	case types.Int8, types.Uint8, types.Bool:
		return 1
	case types.Int16, types.Uint16:
		return 2
	case types.Int32, types.Uint32:
		return 4
	case types.Int64, types.Uint64:
		return 8
	}
	return 0
}

func writeToWriter(fr *frame, w iface, data []value) value {
	fn, ok := callMethodLookup(fr, w, "Write")
	if !ok || fn == nil {
		panic(unsupported("binary.Write: writer without Write"))
	}
	r := call(fr.i, fr, fr.callpos, fn, []value{w.v, data}).(tuple)
	return r[1]
}

// readFull reads exactly n bytes through r.Read (io.ReadFull semantics).
func readFull(fr *frame, r iface, n int) ([]value, value) {
	fn, ok := callMethodLookup(fr, r, "Read")
	if !ok || fn == nil {
		panic(unsupported("binary.Read: reader without Read"))
	}
	buf := make([]value, n)
	for i := range buf {
		buf[i] = uint8(0)
	}
	got := 0
	for got < n {
		res := call(fr.i, fr, fr.callpos, fn, []value{r.v, buf[got:]}).(tuple)
		k := res[0].(int)
		got += k
		if e := res[1].(iface); e.t != nil {
			if got >= n {
				break
			}
			if got > 0 && symEq(e.t, e, ioEOF(fr)) == true {
				pkg := fr.i.prog.ImportedPackage("io")
				return buf, *fr.i.global(pkg.Var("ErrUnexpectedEOF"))
			}
			return buf, e
		}
		if k == 0 {
			panic(unsupported("reader returned 0, nil"))
		}
	}
	return buf, iface{}
}

func init() {
	extraRegs = append(extraRegs, func() {
		externals["encoding/binary.Write"] = func(fr *frame, args []value) value {
			w := args[0].(iface)
			little := isLittle(args[1])
			d := args[2].(iface)
			st := fr.i.p.store
			var out []value
			var enc func(v value, t types.Type)
			enc = func(v value, t types.Type) {
				switch u := t.Underlying().(type) {
				case *types.Basic:
					n := basicSize(u)
					if n == 0 {
						panic(unsupported("binary.Write of " + t.String()))
					}
					out = append(out, intBytes(st, v, n, little)...)
				case *types.Pointer:
					enc(load(u.Elem(), v.(*value)), u.Elem())
				case *types.Slice:
					for _, x := range v.([]value) {
						enc(x, u.Elem())
					}
				case *types.Array:
					for _, x := range v.(array) {
						enc(x, u.Elem())
					}
				case *types.Struct:
					for i, x := range v.(structure) {
						enc(x, u.Field(i).Type())
					}
				default:
					panic(unsupported("binary.Write of " + t.String()))
				}
			}
			enc(d.v, d.t)
			return writeToWriter(fr, w, out)
		}
		externals["encoding/binary.Read"] = func(fr *frame, args []value) value {
			r := args[0].(iface)
			little := isLittle(args[1])
			d := args[2].(iface)
			pt, ok := d.t.Underlying().(*types.Pointer)
			if !ok {
				panic(unsupported("binary.Read into " + fmt.Sprint(d.t)))
			}
			st := fr.i.p.store
			var errOut value = iface{}
			var dec func(addr *value, t types.Type) bool
			dec = func(addr *value, t types.Type) bool {
				switch u := t.Underlying().(type) {
				case *types.Basic:
					n := basicSize(u)
					if n == 0 {
						panic(unsupported("binary.Read of " + t.String()))
					}
					bs, e := readFull(fr, r, n)
					if e.(iface).t != nil {
						errOut = e
						return false
					}
					_, bits, signed, _ := shapeOf(u)
					if u.Kind() == types.Bool {
						bits, signed = 8, false
					}
					terms := make([]*Term, n)
					for i := 0; i < n; i++ {
						j := i
						if !little {
							j = n - 1 - i
						}
						terms[i] = toTerm(st, bs[j])
					}
					res := st.Compose(terms, bits, signed)
					if u.Kind() == types.Bool {
						*addr = lower(st.Not(st.Eq(res, st.Int(0, 8, false))), nil)
					} else {
						*addr = lower(res, u)
					}
				case *types.Slice:
					sl := (*addr).([]value)
					for i := range sl {
						if !dec(&sl[i], u.Elem()) {
							return false
						}
					}
				case *types.Array:
					a := (*addr).(array)
					for i := range a {
						if !dec(&a[i], u.Elem()) {
							return false
						}
					}
				case *types.Struct:
					s := (*addr).(structure)
					for i := range s {
						if !dec(&s[i], u.Field(i).Type()) {
							return false
						}
					}
				default:
					panic(unsupported("binary.Read of " + t.String()))
				}
				return true
			}
			dec(d.v.(*value), pt.Elem())
			return errOut
		}
	})
}
