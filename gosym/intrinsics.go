package main

// Intrinsics: the nondet/assert API of the harness package `sym`, and models of library
// functions the interpreter cannot or should not execute from source. Each model is part of
// the claim; the ones a harness actually hit are listed in its evidence.

import (
	"bytes"
	"encoding/hex"
	"fmt"
	"go/types"
	"math"
	"math/big"
	"sort"
	"strconv"
	"strings"
	"sync"
	"time"
	"unicode"
	"unicode/utf8"

	"golang.org/x/tools/go/ssa"
)

type externalFn func(fr *frame, args []value) value

var externals = map[string]externalFn{}
var extOnce sync.Once
var extMu sync.Mutex
var extCache = map[*ssa.Function]externalFn{}
var extMiss = map[*ssa.Function]bool{}

const symPkg = "0chain.net/zzverif/sym"

// packages whose functions are no-ops returning zero values
var noopPkgs = []string{
	"go.uber.org/zap",
	"github.com/0chain/common/core/logging",
	"0chain.net/core/metric",
	"0chain.net/core/viper",
	"github.com/spf13/viper",
	"log",
}

func zeroResults(fr *frame) value {
	res := fr.fn.Signature.Results()
	switch res.Len() {
	case 0:
		return nil
	case 1:
		return zero(res.At(0).Type())
	}
	t := make(tuple, res.Len())
	for i := range t {
		t[i] = zero(res.At(i).Type())
	}
	return t
}

func fnPkgPath(fn *ssa.Function) string {
	if fn.Pkg != nil {
		return fn.Pkg.Pkg.Path()
	}
	if o := fn.Origin(); o != nil && o.Pkg != nil {
		return o.Pkg.Pkg.Path()
	}
	if fn.Signature.Recv() != nil {
		t := fn.Signature.Recv().Type()
		if p, ok := t.(*types.Pointer); ok {
			t = p.Elem()
		}
		if n, ok := t.(*types.Named); ok && n.Obj().Pkg() != nil {
			return n.Obj().Pkg().Path()
		}
	}
	return ""
}

func findExternal(fn *ssa.Function) externalFn {
	extOnce.Do(registerExternals)
	extMu.Lock()
	defer extMu.Unlock()
	if e, ok := extCache[fn]; ok {
		return e
	}
	if extMiss[fn] {
		return nil
	}
	var e externalFn
	name := fn.String()
	if fn.Parent() == nil {
		if x, ok := externals[name]; ok {
			e = x
		} else if o := fn.Origin(); o != nil {
			if x, ok := externals[o.String()]; ok {
				e = x
			}
		}
		if e == nil {
			pp := fnPkgPath(fn)
			for _, np := range noopPkgs {
				if pp == np || strings.HasPrefix(pp, np+"/") {
					e = func(fr *frame, args []value) value { return zeroResults(fr) }
					break
				}
			}
		}
		if e == nil && fnPkgPath(fn) == "github.com/rcrowley/go-metrics" {
			e = metricsExternal(fn)
		}
		if e == nil && strings.HasPrefix(name, "(*sync/atomic.Pointer[") {
			e = atomicPointerMethod(fn.Name())
		}
	}
	if e != nil {
		extCache[fn] = e
	} else {
		extMiss[fn] = true
	}
	return e
}

func (p *Path) symName(fr *frame, args []value) string {
	return args[0].(string)
}

func mkVar(kind Kind, bits uint8, signed bool, gk types.BasicKind) externalFn {
	return func(fr *frame, args []value) value {
		p := fr.i.p
		name := args[0].(string)
		p.nondetSeq[name]++
		if n := p.nondetSeq[name]; n > 1 {
			name = fmt.Sprintf("%s#%d", name, n)
		}
		t := p.store.Var(name, kind, bits, signed)
		if p.concrete != nil {
			c := p.evalConcrete(t)
			return lowerKind(c, gk)
		}
		return sv{t}
	}
}

func lowerKind(c *Term, gk types.BasicKind) value {
	switch c.kind {
	case KBool:
		return c.boolVal()
	case KF64:
		return c.f64Val()
	}
	raw := c.c
	if c.signed {
		raw = uint64(sval(c.c, c.bits))
	}
	return goValueOfKind(gk, raw)
}

func boolTerm(st *Store, v value) *Term {
	switch v := v.(type) {
	case bool:
		return st.Bool(v)
	case sv:
		return v.t
	}
	panic(fmt.Sprintf("boolTerm: %T", v))
}

func registerExternals() {
	S := symPkg + "."
	ext := externals
	ext[S+"U64"] = mkVar(KInt, 64, false, types.Uint64)
	ext[S+"I64"] = mkVar(KInt, 64, true, types.Int64)
	ext[S+"Int"] = mkVar(KInt, 64, true, types.Int)
	ext[S+"U32"] = mkVar(KInt, 32, false, types.Uint32)
	ext[S+"I32"] = mkVar(KInt, 32, true, types.Int32)
	ext[S+"U8"] = mkVar(KInt, 8, false, types.Uint8)
	ext[S+"Bool"] = mkVar(KBool, 0, false, types.Bool)
	ext[S+"F64"] = mkVar(KF64, 0, false, types.Float64)
	ext[S+"Symbolic"] = func(fr *frame, args []value) value { return true }
	ext[S+"Assume"] = func(fr *frame, args []value) value {
		p := fr.i.p
		p.assume(boolTerm(p.store, args[0]), posString(fr.i.prog.Fset, fr.callpos))
		return nil
	}
	ext[S+"Assert"] = func(fr *frame, args []value) value {
		p := fr.i.p
		p.check(boolTerm(p.store, args[0]), args[1].(string), "assert", posString(fr.i.prog.Fset, fr.callpos))
		return nil
	}
	ext[S+"Cover"] = func(fr *frame, args []value) value {
		fr.i.p.cover(args[0].(string))
		return nil
	}
	ext[S+"Note"] = func(fr *frame, args []value) value {
		fr.i.p.notes = append(fr.i.p.notes, args[0].(string))
		return nil
	}
	ext[S+"Observe"] = func(fr *frame, args []value) value {
		p := fr.i.p
		var sb strings.Builder
		sb.WriteString(args[0].(string))
		sb.WriteString("=")
		for i, a := range args[1].([]value) {
			if i > 0 {
				sb.WriteString(",")
			}
			x := a.(iface).v
			if s, ok := x.(sv); ok {
				if p.concrete != nil {
					sb.WriteString(p.evalConcrete(s.t).String())
				} else {
					sb.WriteString("<" + s.t.String() + ">")
				}
			} else {
				sb.WriteString(obsString(fr, a.(iface)))
			}
		}
		p.observes = append(p.observes, sb.String())
		return nil
	}
	// Choice(name, lo, hi): a symbolic int in [lo,hi], immediately case-split (shape choice).
	ext[S+"Choice"] = func(fr *frame, args []value) value {
		p := fr.i.p
		name := args[0].(string)
		lo, hi := int64(args[1].(int)), int64(args[2].(int))
		p.nondetSeq[name]++
		if n := p.nondetSeq[name]; n > 1 {
			name = fmt.Sprintf("%s#%d", name, n)
		}
		t := p.store.Var(name, KInt, 64, true)
		if p.concrete != nil {
			return lowerKind(p.evalConcrete(t), types.Int)
		}
		st := p.store
		if lo > hi {
			panic(pathAbort{kind: "infeasible", msg: "empty choice range"})
		}
		// a fresh variable constrained to a non-empty range is always feasible: no query needed
		p.assertPC(st.And(st.Le(st.Int(uint64(lo), 64, true), t), st.Le(t, st.Int(uint64(hi), 64, true))))
		v := p.concretize(t, lo, hi)
		return int(asInt64(v))
	}
	ext[S+"MapOrder"] = func(fr *frame, args []value) value {
		fr.i.p.mapOrder = args[0].(int)
		return nil
	}
	// SumEq(a, b []uint64) bool: Σa == Σb over the mathematical integers.
	ext[S+"SumEq"] = func(fr *frame, args []value) value {
		p := fr.i.p
		return lower(p.store.Eq(wideSum(p.store, args[0]), wideSum(p.store, args[1])), nil)
	}
	ext[S+"SumLe"] = func(fr *frame, args []value) value {
		p := fr.i.p
		return lower(p.store.Le(wideSum(p.store, args[0]), wideSum(p.store, args[1])), nil)
	}
	lin := func(st *Store, cs, xs value) *Term {
		acc := st.Wide(big.NewInt(0))
		c := cs.([]value)
		x := xs.([]value)
		for i := range c {
			ct := toTerm(st, c[i])
			xt := st.Conv(toTerm(st, x[i]), 0, false)
			var prod *Term
			if ct.isConst() {
				prod = st.mk(&Term{op: OMul, kind: KWide, a: []*Term{xt, st.Wide(new(big.Int).SetUint64(ct.c))}})
			} else if xt.isConst() {
				prod = st.mk(&Term{op: OMul, kind: KWide, a: []*Term{st.Conv(ct, 0, false), xt}})
			} else {
				prod = st.mk(&Term{op: OMul, kind: KWide, a: []*Term{st.Conv(ct, 0, false), xt}})
			}
			acc = st.Bin(OAdd, acc, prod)
		}
		return acc
	}
	ext[S+"LinLe"] = func(fr *frame, args []value) value {
		st := fr.i.p.store
		return lower(st.Le(lin(st, args[0], args[1]), lin(st, args[2], args[3])), nil)
	}
	ext[S+"LinEq"] = func(fr *frame, args []value) value {
		st := fr.i.p.store
		return lower(st.Eq(lin(st, args[0], args[1]), lin(st, args[2], args[3])), nil)
	}
	// Ite(c, a, b uint64) uint64
	ext[S+"IteU64"] = func(fr *frame, args []value) value {
		return symIte(args[0], args[1], args[2])
	}
	ext[S+"Stub"] = func(fr *frame, args []value) value {
		fr.i.p.stubs[args[0].(string)] = args[1].(iface).v
		return nil
	}
	ext[S+"LockBalance"] = func(fr *frame, args []value) value {
		// number of mutexes currently held (lock leak detection)
		n := 0
		for _, l := range fr.i.p.locks {
			n += l.w + l.r
		}
		return n
	}
	ext[S+"StepLimit"] = func(fr *frame, args []value) value {
		fr.i.p.stepBudget = fr.i.p.steps + int64(args[0].(int))
		fr.i.p.stepLimitObligation = true
		return nil
	}
	ext[S+"TempDir"] = func(fr *frame, args []value) value { return "/symfs/tmp" }
	ext[S+"Fail"] = func(fr *frame, args []value) value {
		p := fr.i.p
		p.check(p.store.Bool(false), args[0].(string), "assert", posString(fr.i.prog.Fset, fr.callpos))
		return nil
	}
	ext[S+"UF1"] = func(fr *frame, args []value) value {
		p := fr.i.p
		return sv{p.store.UF(args[0].(string), KInt, 64, false, toTerm(p.store, args[1]))}
	}
	ext[S+"UF2"] = func(fr *frame, args []value) value {
		p := fr.i.p
		return sv{p.store.UF(args[0].(string), KInt, 64, false, toTerm(p.store, args[1]), toTerm(p.store, args[2]))}
	}

	// ---- sync ----
	lock := func(write bool) externalFn {
		return func(fr *frame, args []value) value {
			p := fr.i.p
			m := args[0].(*value)
			if m == nil {
				panic(runtimeError("invalid memory address or nil pointer dereference (lock of a nil mutex)"))
			}
			ls := p.locks[m]
			if ls == nil {
				ls = &lockState{}
				p.locks[m] = ls
			}
			if ls.w > 0 || (write && ls.r > 0) {
				pos := posString(fr.i.prog.Fset, fr.callpos)
				p.check(p.store.Bool(false), "deadlock: lock acquired while already held (single thread of control)", "deadlock", pos)
				panic(pathAbort{kind: "infeasible", msg: "deadlock"})
			}
			if write {
				ls.w++
			} else {
				ls.r++
			}
			return nil
		}
	}
	unlock := func(write bool) externalFn {
		return func(fr *frame, args []value) value {
			p := fr.i.p
			m := args[0].(*value)
			if m == nil {
				panic(runtimeError("invalid memory address or nil pointer dereference (unlock of a nil mutex)"))
			}
			ls := p.locks[m]
			if ls == nil || (write && ls.w == 0) || (!write && ls.r == 0) {
				panic(targetPanic{iface{types.Typ[types.String], "sync: unlock of unlocked mutex"}})
			}
			if write {
				ls.w--
			} else {
				ls.r--
			}
			return nil
		}
	}
	ext["(*sync.Mutex).Lock"] = lock(true)
	ext["(*sync.Mutex).Unlock"] = unlock(true)
	ext["(*sync.RWMutex).Lock"] = lock(true)
	ext["(*sync.RWMutex).Unlock"] = unlock(true)
	ext["(*sync.RWMutex).RLock"] = lock(false)
	ext["(*sync.RWMutex).RUnlock"] = unlock(false)
	ext["(*sync.Mutex).TryLock"] = func(fr *frame, args []value) value {
		p := fr.i.p
		m := args[0].(*value)
		ls := p.locks[m]
		if ls == nil {
			ls = &lockState{}
			p.locks[m] = ls
		}
		if ls.w > 0 {
			return false
		}
		ls.w++
		return true
	}
	ext["(*sync.WaitGroup).Add"] = func(fr *frame, args []value) value { return nil }
	ext["(*sync.WaitGroup).Done"] = func(fr *frame, args []value) value { return nil }
	ext["(*sync.WaitGroup).Wait"] = func(fr *frame, args []value) value { return nil }
	ext["(*sync.Once).Do"] = func(fr *frame, args []value) value {
		o := args[0].(*value)
		s := (*o).(structure)
		// field 0 is `done atomic.Uint32` (struct{_ noCopy; v uint32}) in go1.23: use a side marker
		if fr.i.p.onceDone == nil {
			fr.i.p.onceDone = map[*value]bool{}
		}
		_ = s
		if fr.i.p.onceDone[o] {
			return nil
		}
		fr.i.p.onceDone[o] = true
		call(fr.i, fr, fr.callpos, args[1], nil)
		return nil
	}
	ext["(*sync.Pool).Get"] = func(fr *frame, args []value) value {
		s := (*args[0].(*value)).(structure)
		newFn := s[len(s)-1]
		if f, ok := newFn.(*ssa.Function); ok && f == nil {
			return iface{}
		}
		return call(fr.i, fr, fr.callpos, newFn, nil)
	}
	ext["(*sync.Pool).Put"] = func(fr *frame, args []value) value { return nil }
	// sync.Map as a side table
	ext["(*sync.Map).Load"] = func(fr *frame, args []value) value {
		m := fr.i.p.syncMap(args[0].(*value))
		v := m.lookup(args[1].(iface))
		if v == nil {
			return tuple{iface{}, false}
		}
		return tuple{v, true}
	}
	ext["(*sync.Map).Store"] = func(fr *frame, args []value) value {
		fr.i.p.syncMap(args[0].(*value)).insert(args[1].(iface), args[2])
		return nil
	}
	ext["(*sync.Map).LoadOrStore"] = func(fr *frame, args []value) value {
		m := fr.i.p.syncMap(args[0].(*value))
		if v := m.lookup(args[1].(iface)); v != nil {
			return tuple{v, true}
		}
		m.insert(args[1].(iface), args[2])
		return tuple{args[2], false}
	}
	ext["(*sync.Map).Delete"] = func(fr *frame, args []value) value {
		fr.i.p.syncMap(args[0].(*value)).delete(args[1].(iface))
		return nil
	}
	ext["(*sync.Map).Range"] = func(fr *frame, args []value) value {
		m := fr.i.p.syncMap(args[0].(*value))
		type kv struct{ k, v value }
		var arr []kv
		for _, e := range m.entries() {
			for ; e != nil; e = e.next {
				arr = append(arr, kv{e.key, e.value})
			}
		}
		sort.SliceStable(arr, func(a, b int) bool { return toString(arr[a].k) < toString(arr[b].k) })
		for _, e := range arr {
			r := call(fr.i, fr, fr.callpos, args[1], []value{e.k, e.v})
			if b, ok := r.(bool); ok && !b {
				break
			}
		}
		return nil
	}

	// ---- sync/atomic ----
	for _, ty := range []string{"Int32", "Int64", "Uint32", "Uint64", "Uintptr", "Pointer"} {
		ext["sync/atomic.Load"+ty] = func(fr *frame, args []value) value { return *args[0].(*value) }
		ext["sync/atomic.Store"+ty] = func(fr *frame, args []value) value { *args[0].(*value) = args[1]; return nil }
		ext["sync/atomic.Swap"+ty] = func(fr *frame, args []value) value {
			old := *args[0].(*value)
			*args[0].(*value) = args[1]
			return old
		}
		ext["sync/atomic.CompareAndSwap"+ty] = func(fr *frame, args []value) value {
			cur := *args[0].(*value)
			eq := symEq(nil, cur, args[1])
			switch e := eq.(type) {
			case bool:
				if e {
					*args[0].(*value) = args[2]
				}
				return e
			case sv:
				if fr.i.p.branch(e.t) {
					*args[0].(*value) = args[2]
					return true
				}
				return false
			}
			return false
		}
		if ty != "Pointer" {
			ext["sync/atomic.Add"+ty] = func(fr *frame, args []value) value {
				nv := binop(tokenADD, nil, *args[0].(*value), args[1])
				*args[0].(*value) = nv
				return nv
			}
		}
	}
	ext["(*sync/atomic.Value).Load"] = func(fr *frame, args []value) value {
		s := (*args[0].(*value)).(structure)
		if it, ok := s[0].(iface); ok {
			return it
		}
		return iface{}
	}
	ext["(*sync/atomic.Value).Store"] = func(fr *frame, args []value) value {
		s := (*args[0].(*value)).(structure)
		s[0] = args[1]
		return nil
	}

	// ---- errors / fmt ----
	ext["errors.Is"] = func(fr *frame, args []value) value { return errorsIs(fr, args[0].(iface), args[1].(iface)) }
	ext["errors.As"] = extErrorsAs
	ext["errors.Unwrap"] = func(fr *frame, args []value) value { return errUnwrap(fr, args[0].(iface)) }
	ext["fmt.Sprintf"] = func(fr *frame, args []value) value {
		return fmt.Sprintf(args[0].(string), fmtArgs(fr, args[1])...)
	}
	ext["fmt.Errorf"] = func(fr *frame, args []value) value {
		f := strings.ReplaceAll(args[0].(string), "%w", "%v")
		msg := fmt.Sprintf(f, fmtArgs(fr, args[1])...)
		// keep the wrapped error reachable for errors.Is
		var wrapped iface
		if strings.Contains(args[0].(string), "%w") {
			for _, a := range args[1].([]value) {
				if it, ok := a.(iface); ok && it.t != nil {
					if _, ok := callMethodLookup(fr, it, "Error"); ok {
						wrapped = it
					}
				}
			}
		}
		e := fr.i.makeError(msg).(iface)
		if wrapped.t != nil {
			fr.i.p.wraps[e.v.(*value)] = wrapped
		}
		return e
	}
	ext["fmt.Sprint"] = func(fr *frame, args []value) value { return fmt.Sprint(fmtArgs(fr, args[0])...) }
	ext["fmt.Sprintln"] = func(fr *frame, args []value) value { return fmt.Sprintln(fmtArgs(fr, args[0])...) }
	for _, n := range []string{"fmt.Println", "fmt.Printf", "fmt.Print", "fmt.Fprintf", "fmt.Fprintln", "fmt.Fprint"} {
		ext[n] = func(fr *frame, args []value) value { return zeroResults(fr) }
	}

	// ---- sort ----
	ext["sort.Slice"] = extSortSlice
	ext["sort.SliceStable"] = extSortSlice
	ext["sort.Strings"] = func(fr *frame, args []value) value {
		x := args[0].([]value)
		sort.SliceStable(x, func(i, j int) bool { return x[i].(string) < x[j].(string) })
		return nil
	}
	ext["sort.Ints"] = func(fr *frame, args []value) value {
		x := args[0].([]value)
		sort.SliceStable(x, func(i, j int) bool { return x[i].(int) < x[j].(int) })
		return nil
	}
	ext["sort.Sort"] = extSortSort
	ext["sort.Stable"] = extSortSort

	// ---- math ----
	m1 := func(f func(float64) float64) externalFn {
		return func(fr *frame, args []value) value {
			if isSym(args[0]) {
				panic(unsupported("math function on a symbolic float: " + fr.fn.String()))
			}
			return f(args[0].(float64))
		}
	}
	ext["math.Floor"] = m1(math.Floor)
	ext["math.Ceil"] = m1(math.Ceil)
	ext["math.Trunc"] = m1(math.Trunc)
	ext["math.Sqrt"] = m1(math.Sqrt)
	ext["math.Abs"] = m1(math.Abs)
	ext["math.Round"] = m1(math.Round)
	ext["math.RoundToEven"] = m1(math.RoundToEven)
	ext["math.Log"] = m1(math.Log)
	ext["math.Log2"] = m1(math.Log2)
	ext["math.Log10"] = m1(math.Log10)
	ext["math.Exp"] = m1(math.Exp)
	ext["math.Pow"] = bridge(math.Pow)
	ext["math.Mod"] = bridge(math.Mod)
	ext["math.Max"] = bridge(math.Max)
	ext["math.Min"] = bridge(math.Min)
	ext["math.Inf"] = bridge(math.Inf)
	ext["math.NaN"] = bridge(math.NaN)
	ext["math.IsNaN"] = func(fr *frame, args []value) value {
		if s, ok := args[0].(sv); ok {
			return lower(s.t.store.FIsNaN(s.t), nil)
		}
		return math.IsNaN(args[0].(float64))
	}
	ext["math.IsInf"] = bridge(math.IsInf)
	ext["math.Float64bits"] = bridge(math.Float64bits)
	ext["math.Float64frombits"] = bridge(math.Float64frombits)
	ext["math.Float32bits"] = bridge(math.Float32bits)
	ext["math.Float32frombits"] = bridge(math.Float32frombits)

	// ---- strings / strconv / bytes / hex / unicode: pure functions on concrete data ----
	for n, f := range map[string]interface{}{
		"strings.Contains": strings.Contains, "strings.HasPrefix": strings.HasPrefix, "strings.HasSuffix": strings.HasSuffix,
		"strings.Index": strings.Index, "strings.IndexByte": strings.IndexByte, "strings.LastIndex": strings.LastIndex,
		"strings.Split": strings.Split, "strings.SplitN": strings.SplitN, "strings.Join": strings.Join, "strings.ToLower": strings.ToLower,
		"strings.ToUpper": strings.ToUpper, "strings.TrimSpace": strings.TrimSpace, "strings.Trim": strings.Trim,
		"strings.TrimPrefix": strings.TrimPrefix, "strings.TrimSuffix": strings.TrimSuffix, "strings.TrimLeft": strings.TrimLeft,
		"strings.TrimRight": strings.TrimRight, "strings.Replace": strings.Replace, "strings.ReplaceAll": strings.ReplaceAll,
		"strings.Repeat": strings.Repeat, "strings.EqualFold": strings.EqualFold, "strings.Count": strings.Count,
		"strings.Fields": strings.Fields, "strings.Compare": strings.Compare, "strings.Title": strings.Title,
		"strings.ContainsRune": strings.ContainsRune, "strings.ContainsAny": strings.ContainsAny, "strings.IndexRune": strings.IndexRune,
		"strings.IndexAny": strings.IndexAny, "strings.LastIndexByte": strings.LastIndexByte,
		"strconv.Itoa": strconv.Itoa, "strconv.Atoi": strconv.Atoi, "strconv.ParseInt": strconv.ParseInt, "strconv.ParseUint": strconv.ParseUint,
		"strconv.ParseFloat": strconv.ParseFloat, "strconv.ParseBool": strconv.ParseBool, "strconv.FormatBool": strconv.FormatBool,
		"strconv.Quote": strconv.Quote, "strconv.Unquote": strconv.Unquote,
		"strconv.AppendInt": strconv.AppendInt, "strconv.AppendUint": strconv.AppendUint, "strconv.AppendQuote": strconv.AppendQuote,
		"bytes.Compare": bytes.Compare, "bytes.HasPrefix": bytes.HasPrefix, "bytes.Contains": bytes.Contains,
		"bytes.Index": bytes.Index, "bytes.IndexByte": bytes.IndexByte, "bytes.TrimSpace": bytes.TrimSpace,
		"encoding/hex.EncodeToString": hex.EncodeToString, "encoding/hex.DecodeString": hex.DecodeString,
		"encoding/hex.EncodedLen": hex.EncodedLen, "encoding/hex.DecodedLen": hex.DecodedLen,
		"unicode.IsSpace": unicode.IsSpace, "unicode.IsDigit": unicode.IsDigit, "unicode.IsLetter": unicode.IsLetter,
		"unicode.IsUpper": unicode.IsUpper, "unicode.IsLower": unicode.IsLower, "unicode.ToLower": unicode.ToLower, "unicode.ToUpper": unicode.ToUpper,
		"unicode/utf8.RuneCountInString": utf8.RuneCountInString, "unicode/utf8.ValidString": utf8.ValidString,
		"unicode/utf8.RuneLen": utf8.RuneLen,
	} {
		ext[n] = bridge(f)
	}
	ext["bytes.Equal"] = func(fr *frame, args []value) value {
		a, _ := args[0].([]value)
		b, _ := args[1].([]value)
		if len(a) != len(b) {
			return false
		}
		var r value = true
		for i := range a {
			r = andV(r, symEq(nil, a[i], b[i]))
			if rb, ok := r.(bool); ok && !rb {
				return false
			}
		}
		return r
	}
	ext["strconv.Itoa"] = func(fr *frame, args []value) value {
		if s, ok := args[0].(sv); ok {
			return symDecimal(fr, s)
		}
		return strconv.Itoa(args[0].(int))
	}
	// parsing a string that is exactly one rendered symbolic integer gives the integer back
	parseMarker := func(fr *frame, s string, bits uint8, signed bool) (value, bool) {
		t, ok := fr.i.p.markerTerm(s)
		if !ok || t.kind != KInt {
			return nil, false
		}
		st := fr.i.p.store
		w := st.Conv(t, 0, false)
		lo := new(big.Int)
		hi := new(big.Int).Lsh(big.NewInt(1), uint(bits))
		if signed {
			hi = new(big.Int).Lsh(big.NewInt(1), uint(bits-1))
			lo = new(big.Int).Neg(hi)
		}
		inRange := st.And(st.Le(st.Wide(lo), w), st.Lt(w, st.Wide(hi)))
		if !fr.i.p.branch(inRange) {
			return nil, true // out of range: the caller returns its range error
		}
		return lower(st.Conv(t, bits, signed), nil), true
	}
	atoiOrig := ext["strconv.Atoi"]
	ext["strconv.Atoi"] = func(fr *frame, args []value) value {
		if s, ok := args[0].(string); ok && strings.HasPrefix(s, symMarkOpen) {
			if v, ok := parseMarker(fr, s, 64, true); ok {
				if v == nil {
					return tuple{0, fr.i.makeError("strconv.Atoi: value out of range")}
				}
				if sv_, isS := v.(sv); isS {
					return tuple{sv_, iface{}}
				}
				return tuple{int(v.(int64)), iface{}}
			}
		}
		return atoiOrig(fr, args)
	}
	pintOrig := ext["strconv.ParseInt"]
	ext["strconv.ParseInt"] = func(fr *frame, args []value) value {
		if s, ok := args[0].(string); ok && strings.HasPrefix(s, symMarkOpen) {
			bits := args[2].(int)
			if bits == 0 {
				bits = 64
			}
			if bits == 8 || bits == 16 || bits == 32 {
				// the result is an int64 holding a value of the narrower range, or a range error
				if v, ok := parseMarker(fr, s, uint8(bits), true); ok {
					if v == nil {
						return tuple{int64(0), fr.i.makeError("strconv.ParseInt: value out of range")}
					}
					if w, ok2 := parseMarker(fr, s, 64, true); ok2 && w != nil {
						return tuple{w, iface{}}
					}
				}
			}
			if v, ok := parseMarker(fr, s, 64, true); ok && bits == 64 {
				if v == nil {
					return tuple{int64(0), fr.i.makeError("strconv.ParseInt: value out of range")}
				}
				return tuple{v, iface{}}
			}
		}
		return pintOrig(fr, args)
	}
	puintOrig := ext["strconv.ParseUint"]
	ext["strconv.ParseUint"] = func(fr *frame, args []value) value {
		if s, ok := args[0].(string); ok && strings.HasPrefix(s, symMarkOpen) {
			bits := args[2].(int)
			if bits == 0 {
				bits = 64
			}
			if v, ok := parseMarker(fr, s, 64, false); ok && bits == 64 {
				if v == nil {
					return tuple{uint64(0), fr.i.makeError("strconv.ParseUint: value out of range")}
				}
				return tuple{v, iface{}}
			}
		}
		return puintOrig(fr, args)
	}
	ext["strconv.FormatInt"] = func(fr *frame, args []value) value {
		if s, ok := args[0].(sv); ok {
			return symDecimal(fr, s)
		}
		return strconv.FormatInt(args[0].(int64), args[1].(int))
	}
	ext["strconv.FormatUint"] = func(fr *frame, args []value) value {
		if s, ok := args[0].(sv); ok {
			return symDecimal(fr, s)
		}
		return strconv.FormatUint(args[0].(uint64), args[1].(int))
	}
	ext["strconv.FormatFloat"] = func(fr *frame, args []value) value {
		if s, ok := args[0].(sv); ok {
			return symDecimal(fr, s)
		}
		return strconv.FormatFloat(args[0].(float64), args[1].(byte), args[2].(int), args[3].(int))
	}
	ext["unicode/utf8.DecodeRuneInString"] = func(fr *frame, args []value) value {
		r, n := utf8.DecodeRuneInString(args[0].(string))
		return tuple{r, n}
	}
	ext["(*strings.Builder).WriteString"] = func(fr *frame, args []value) value {
		b := fr.i.p.builder(args[0].(*value))
		b.WriteString(args[1].(string))
		return tuple{len(args[1].(string)), iface{}}
	}
	ext["(*strings.Builder).WriteByte"] = func(fr *frame, args []value) value {
		fr.i.p.builder(args[0].(*value)).WriteByte(args[1].(byte))
		return iface{}
	}
	ext["(*strings.Builder).WriteRune"] = func(fr *frame, args []value) value {
		n, _ := fr.i.p.builder(args[0].(*value)).WriteRune(args[1].(rune))
		return tuple{n, iface{}}
	}
	ext["(*strings.Builder).Write"] = func(fr *frame, args []value) value {
		b := fr.i.p.builder(args[0].(*value))
		for _, x := range args[1].([]value) {
			b.WriteByte(x.(byte))
		}
		return tuple{len(args[1].([]value)), iface{}}
	}
	ext["(*strings.Builder).String"] = func(fr *frame, args []value) value {
		return fr.i.p.builder(args[0].(*value)).String()
	}
	ext["(*strings.Builder).Len"] = func(fr *frame, args []value) value {
		return fr.i.p.builder(args[0].(*value)).Len()
	}
	ext["(*strings.Builder).Grow"] = func(fr *frame, args []value) value { return nil }
	ext["(*strings.Builder).Reset"] = func(fr *frame, args []value) value {
		fr.i.p.builder(args[0].(*value)).Reset()
		return nil
	}

	// ---- runtime / os / time ----
	ext["runtime.Gosched"] = func(fr *frame, args []value) value { return nil }
	ext["runtime.GC"] = func(fr *frame, args []value) value { return nil }
	ext["runtime.NumCPU"] = func(fr *frame, args []value) value { return 4 }
	ext["runtime.GOMAXPROCS"] = func(fr *frame, args []value) value { return 4 }
	ext["runtime.NumGoroutine"] = func(fr *frame, args []value) value { return 1 }
	ext["runtime.Caller"] = func(fr *frame, args []value) value { return tuple{uintptr(0), "", 0, false} }
	ext["runtime.Callers"] = func(fr *frame, args []value) value { return 0 }
	ext["runtime.SetFinalizer"] = func(fr *frame, args []value) value { return nil }
	ext["runtime.KeepAlive"] = func(fr *frame, args []value) value { return nil }
	ext["runtime/debug.Stack"] = func(fr *frame, args []value) value { return []value(nil) }
	ext["runtime/debug.PrintStack"] = func(fr *frame, args []value) value { return nil }
	ext["os.Getenv"] = func(fr *frame, args []value) value { return "" }
	ext["os.Exit"] = func(fr *frame, args []value) value {
		panic(targetPanic{iface{types.Typ[types.String], "os.Exit called"}})
	}
	ext["time.Sleep"] = func(fr *frame, args []value) value { return nil }
	// time.ParseDuration reads package tables set up by time's initialiser: computed natively
	ext["time.ParseDuration"] = func(fr *frame, args []value) value {
		s, ok := args[0].(string)
		if !ok || strings.Contains(s, symMarkOpen) {
			panic(unsupported("time.ParseDuration of a symbolic string"))
		}
		d, err := time.ParseDuration(s)
		if err != nil {
			return tuple{int64(0), fr.i.makeError(err.Error())}
		}
		return tuple{int64(d), iface{}}
	}
	ext["time.Now"] = extTimeNow
	ext["time.Since"] = func(fr *frame, args []value) value { return int64(0) }
	ext["time.After"] = func(fr *frame, args []value) value { return &chanv{never: true} }
	ext["time.NewTimer"] = func(fr *frame, args []value) value {
		// *time.Timer{C: never-ready}
		var cell value = structure{&chanv{never: true}, false}
		return &cell
	}
	ext["(*time.Timer).Stop"] = func(fr *frame, args []value) value { return true }
	ext["(*time.Timer).Reset"] = func(fr *frame, args []value) value { return true }
	ext["time.NewTicker"] = func(fr *frame, args []value) value {
		var cell value = structure{&chanv{never: true}, false}
		return &cell
	}
	ext["(*time.Ticker).Stop"] = func(fr *frame, args []value) value { return nil }
	ext["time.AfterFunc"] = func(fr *frame, args []value) value {
		var cell value = structure{&chanv{never: true}, false}
		return &cell
	}
	ext["math/rand.Seed"] = func(fr *frame, args []value) value { return nil }

	registerMoreExternals()
}

var tokenADD = tokenOf("+")

func wideSum(st *Store, sl value) *Term {
	acc := st.Wide(big.NewInt(0))
	for _, x := range sl.([]value) {
		acc = st.Bin(OAdd, acc, st.Conv(toTerm(st, x), 0, false))
	}
	return acc
}

// symDecimal renders a symbolic number inside a string as a marker (strings stay concrete).
func symDecimal(fr *frame, s sv) value {
	if s.t.kind == KInt || s.t.kind == KWide {
		return fr.i.p.symMarker(s.t)
	}
	return "<sym " + s.t.String() + ">"
}

func fmtArgs(fr *frame, sl value) []interface{} {
	xs := sl.([]value)
	out := make([]interface{}, len(xs))
	for i, a := range xs {
		out[i] = fmtArg(fr, a.(iface))
	}
	return out
}

func obsString(fr *frame, itf iface) string {
	x := fmtArg(fr, itf)
	return humanMarkers(fr.i.p, fmt.Sprintf("%v", x))
}

func callMethodLookup(fr *frame, itf iface, name string) (*ssa.Function, bool) {
	if itf.t == nil {
		return nil, false
	}
	ms := fr.i.prog.MethodSets.MethodSet(itf.t)
	for k := 0; k < ms.Len(); k++ {
		if ms.At(k).Obj().Name() == name {
			return fr.i.prog.MethodValue(ms.At(k)), true
		}
	}
	return nil, false
}

func errUnwrap(fr *frame, e iface) value {
	if e.t == nil {
		return iface{}
	}
	if p, ok := e.v.(*value); ok {
		if w, ok := fr.i.p.wraps[p]; ok {
			return w
		}
	}
	if fn, ok := callMethodLookup(fr, e, "Unwrap"); ok && fn != nil {
		if fn.Signature.Results().Len() == 1 {
			if _, isIface := fn.Signature.Results().At(0).Type().Underlying().(*types.Interface); isIface {
				r := call(fr.i, fr, fr.callpos, fn, []value{e.v})
				if it, ok := r.(iface); ok {
					return it
				}
			}
		}
	}
	return iface{}
}

func errorsIs(fr *frame, err, target iface) value {
	for depth := 0; depth < 50; depth++ {
		if err.t == nil {
			return target.t == nil
		}
		if sameType(err.t, target.t) && types.Comparable(err.t) {
			eq := symEq(err.t, err.v, target.v)
			if b, ok := eq.(bool); ok && b {
				return true
			}
		}
		if fn, ok := callMethodLookup(fr, err, "Is"); ok && fn != nil && fn.Signature.Params().Len() == 1 {
			r := call(fr.i, fr, fr.callpos, fn, []value{err.v, target})
			if b, ok := r.(bool); ok && b {
				return true
			}
		}
		next := errUnwrap(fr, err).(iface)
		if next.t == nil {
			return false
		}
		err = next
	}
	return false
}

func extErrorsAs(fr *frame, args []value) value {
	err := args[0].(iface)
	tgt := args[1].(iface) // pointer to a variable of some type T
	pt, ok := tgt.t.Underlying().(*types.Pointer)
	if !ok {
		panic(unsupported("errors.As target"))
	}
	T := pt.Elem()
	for depth := 0; depth < 50 && err.t != nil; depth++ {
		if _, isIface := T.Underlying().(*types.Interface); isIface {
			if types.AssignableTo(err.t, T) {
				*tgt.v.(*value) = err
				return true
			}
		} else if types.Identical(err.t, T) {
			*tgt.v.(*value) = err.v
			return true
		}
		err = errUnwrap(fr, err).(iface)
	}
	return false
}

// lessCall evaluates less(i,j) through the interpreter; a symbolic answer forks.
func lessCall(fr *frame, less value, i, j int) bool {
	r := call(fr.i, fr, fr.callpos, less, []value{i, j})
	switch r := r.(type) {
	case bool:
		return r
	case sv:
		return fr.i.p.branch(r.t)
	}
	panic("less result")
}

// extSortSlice: stable insertion sort using the real less closure (DESIGN §2: any correct
// sort agrees when less is a strict weak order; sort.Slice is unstable in Go, so equal
// elements may legitimately be permuted there — harnesses that depend on that say so).
func extSortSlice(fr *frame, args []value) value {
	x, ok := args[0].(iface).v.([]value)
	if !ok {
		panic(unsupported("sort.Slice on non-slice"))
	}
	less := args[1]
	for i := 1; i < len(x); i++ {
		for j := i; j > 0 && lessCall(fr, less, j, j-1); j-- {
			x[j], x[j-1] = x[j-1], x[j]
		}
	}
	return nil
}

func extSortSort(fr *frame, args []value) value {
	data := args[0].(iface)
	lenFn, _ := callMethodLookup(fr, data, "Len")
	lessFn, _ := callMethodLookup(fr, data, "Less")
	swapFn, _ := callMethodLookup(fr, data, "Swap")
	n := call(fr.i, fr, fr.callpos, lenFn, []value{data.v}).(int)
	for i := 1; i < n; i++ {
		for j := i; j > 0; j-- {
			r := call(fr.i, fr, fr.callpos, lessFn, []value{data.v, j, j - 1})
			var lt bool
			switch r := r.(type) {
			case bool:
				lt = r
			case sv:
				lt = fr.i.p.branch(r.t)
			}
			if !lt {
				break
			}
			call(fr.i, fr, fr.callpos, swapFn, []value{data.v, j, j - 1})
		}
	}
	return nil
}

func extTimeNow(fr *frame, args []value) value {
	// time.Time{wall uint64, ext int64, loc *Location}: a fixed instant plus a per-path counter
	p := fr.i.p
	p.nowCalls++
	sec := int64(1700000000 + p.nowCalls)
	// ext holds seconds since year 1 when the monotonic bit is clear
	const unixToInternal int64 = (1969*365 + 1969/4 - 1969/100 + 1969/400) * 86400
	return structure{uint64(0), sec + unixToInternal, (*value)(nil)}
}

func atomicPointerMethod(name string) externalFn {
	// struct { _ [0]*T; _ noCopy; v unsafe.Pointer }: we keep the *value in field 2
	get := func(args []value) *value { return &(*args[0].(*value)).(structure)[2] }
	asPtr := func(v value) value {
		if p, ok := v.(*value); ok {
			return p
		}
		return (*value)(nil)
	}
	switch name {
	case "Load":
		return func(fr *frame, args []value) value { return asPtr(*get(args)) }
	case "Store":
		return func(fr *frame, args []value) value { *get(args) = args[1]; return nil }
	case "Swap":
		return func(fr *frame, args []value) value {
			old := asPtr(*get(args))
			*get(args) = args[1]
			return old
		}
	case "CompareAndSwap":
		return func(fr *frame, args []value) value {
			if asPtr(*get(args)) == args[1].(*value) {
				*get(args) = args[2]
				return true
			}
			return false
		}
	}
	return nil
}

// metricsExternal: go-metrics constructors return the library's own Nil* no-op objects;
// everything else in that package that is not a Nil* method is a no-op.
func metricsExternal(fn *ssa.Function) externalFn {
	sig := fn.Signature
	if sig.Recv() != nil {
		rt := sig.Recv().Type().String()
		if strings.Contains(rt, "metrics.Nil") {
			return nil // interpret the real no-op method
		}
		return func(fr *frame, args []value) value { return zeroResults(fr) }
	}
	if sig.Results().Len() == 1 {
		if n, ok := sig.Results().At(0).Type().(*types.Named); ok {
			if _, isIface := n.Underlying().(*types.Interface); isIface && fn.Pkg != nil {
				if nt := fn.Pkg.Type("Nil" + n.Obj().Name()); nt != nil {
					t := nt.Type()
					return func(fr *frame, args []value) value { return iface{t: t, v: zero(t)} }
				}
			}
		}
	}
	return func(fr *frame, args []value) value { return zeroResults(fr) }
}
