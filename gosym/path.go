package main

// Path: one execution of a harness under a decision prefix; forking = re-execution.

import (
	"fmt"
	"go/token"
	"go/types"
	"math/big"
	"regexp"
	"sort"
	"strings"

	"golang.org/x/tools/go/ssa"
)

type pathAbort struct {
	kind string // "infeasible" | "unsupported" | "budget" | "unknown"
	msg  string
	pos  string
	fn   string
}

func (a pathAbort) Error() string { return a.kind + ": " + a.msg }

func isAbort(r interface{}) bool {
	switch r.(type) {
	case pathAbort, unsupported, encErr:
		return true
	}
	return false
}

type chanv struct {
	buf    []value
	cap    int
	closed bool
	never  bool // timer-like channel that never becomes ready
}

type Obligation struct {
	Label    string            `json:"label"`
	Result   string            `json:"result"` // unsat | sat | unknown
	Model    map[string]string `json:"model,omitempty"`
	Pos      string            `json:"pos,omitempty"`
	Decisions []int            `json:"decisions,omitempty"`
	Sched    []int             `json:"schedule,omitempty"` // the pure nondeterministic choices (select case, map order, rand) on the way
	Script   string            `json:"-"`
	Kind     string            `json:"kind"` // assert | panic | deadlock | unwind
	Detail   string            `json:"detail,omitempty"`
}

type Path struct {
	store     *Store
	em        *Emitter
	solver    *Solver
	enc       Encoding
	prefix    []int
	decisions []int
	pc        []*Term
	alts      [][]int
	steps     int64
	stepBudget int64
	goroutines int
	prefs     []*Term // model preferences (robustness of float-enclosure models); never asserted on the path
	obligations []*Obligation
	covers    map[string]map[string]string // label -> model (sample)
	observes  []string
	fnsSeen   map[*ssa.Function]bool
	fnNotes   *fnRegistry
	locks     map[*value]*lockState
	mapOrder  int
	initFailures []string
	internalAt string
	unknownBranches int
	branches  int
	assumptions []string
	nondetSeq map[string]int
	stubs     map[string]value // function full name -> replacement closure
	keepScripts bool
	concrete  map[string]string // when non-nil: concrete replay vector (name -> value)
	notes     []string
	infeasibleAssume bool
	endKind   string
	curInstr  ssa.Instruction
	lastPanic string
	endMsg    string
	stepLimitObligation bool
	onceDone  map[*value]bool
	wraps     map[*value]iface
	nowCalls  int64
	syncMaps  map[*value]*hashmap
	builders  map[*value]*strings.Builder
	fs        map[string]*memFile
	markers   map[int]*Term
	hashPre   map[string]string // hex hash -> preimage (symstr.go)
	blsObjs   map[int]blsLin
	thShares  map[string]thShare // share public key hex -> threshold group (cryptox.go)
	sched      []int
	schedReplay []int
	schedPos   int
	globalRand *randState
	f2iMemo   map[interface{}]*Term
	flMemo    map[*Term]*Term
	fdivInfo  map[*Term][2]*Term // abstract float quotient -> (x, y) wide integer terms (fpcut.go)
	sigs      map[string][2]string // ideal signatures made in this run: sig -> (public key hex, signed hash hex)
	keyCounter int
	viperVals map[string]value // 0chain.net/core/viper.Set / GetInt (everything else of viper is a no-op)
	blsIDNum  map[string]uint64 // long bls.ID hex strings interned (dkgx.go)
	blsIDStr  map[uint64]string
	dkgGroups int
	dkgOf     map[*value]int      // DKG object -> ideal group
	dkgShares map[string]dkgShare // share signature -> (group, party, message)
	fpCuts    int
	regexps   map[*value]*regexp.Regexp
	profile   map[*ssa.Function]int
	coverPending []string
	rands     map[*value]*randState
	randMemo  map[string][]int
	handles   map[*value]*fileHandle
}

func (p *Path) syncMap(m *value) *hashmap {
	if p.syncMaps == nil {
		p.syncMaps = map[*value]*hashmap{}
	}
	h := p.syncMaps[m]
	if h == nil {
		h = &hashmap{keyType: types.NewInterfaceType(nil, nil), table: map[int]*entry{}}
		p.syncMaps[m] = h
	}
	return h
}

func (p *Path) builder(b *value) *strings.Builder {
	if p.builders == nil {
		p.builders = map[*value]*strings.Builder{}
	}
	sb := p.builders[b]
	if sb == nil {
		sb = &strings.Builder{}
		p.builders[b] = sb
	}
	return sb
}

type lockState struct {
	w int // writers held (0/1)
	r int // readers held
}

type fnRegistry struct {
	// shared, guarded by mutex in explore.go
}

func (p *Path) noteFn(fn *ssa.Function) {
	if p.fnsSeen != nil {
		p.fnsSeen[fn] = true
	}
}

func (p *Path) assertPC(c *Term) {
	p.pc = append(p.pc, c)
	if p.concrete != nil {
		return
	}
	r := p.em.Ref(c)
	p.solver.Send("(assert " + r + ")")
}

func (p *Path) feasible(c *Term) Result {
	r := p.em.Ref(c)
	return p.solver.Check("(assert " + r + ")")
}

// decide picks one of mutually exclusive, exhaustive alternatives. conds[i]==nil means the
// alternative is unconstrained (pure nondeterminism, e.g. a map order).
func (p *Path) decide(conds []*Term, what string) int {
	pure := true
	for _, c := range conds {
		if c != nil {
			pure = false
		}
	}
	if pure {
		if p.concrete != nil {
			// concrete re-execution: follow the recorded schedule where there is one
			d := 0
			if p.schedPos < len(p.schedReplay) && p.schedReplay[p.schedPos] < len(conds) {
				d = p.schedReplay[p.schedPos]
			}
			p.schedPos++
			p.decisions = append(p.decisions, d)
			return d
		}
		defer func() { p.sched = append(p.sched, p.decisions[len(p.decisions)-1]) }()
	}
	n := len(p.decisions)
	if n < len(p.prefix) {
		d := p.prefix[n]
		p.decisions = append(p.decisions, d)
		if d >= len(conds) {
			panic(pathAbort{kind: "unknown", msg: "decision prefix does not match execution (nondeterministic harness?) at " + what})
		}
		if conds[d] != nil {
			p.assertPC(conds[d])
		}
		return d
	}
	first := -1
	for i, c := range conds {
		ok := true
		if c != nil {
			if c.isConst() {
				ok = c.boolVal()
			} else {
				switch p.feasible(c) {
				case Unsat:
					ok = false
				case Unknown:
					p.unknownBranches++
				}
			}
		}
		if !ok {
			continue
		}
		if first < 0 {
			first = i
		} else {
			alt := append(append([]int{}, p.decisions...), i)
			p.alts = append(p.alts, alt)
		}
	}
	if first < 0 {
		panic(pathAbort{kind: "infeasible", msg: "no feasible alternative at " + what})
	}
	p.decisions = append(p.decisions, first)
	if conds[first] != nil {
		p.assertPC(conds[first])
	}
	return first
}

func (p *Path) branch(c *Term) bool {
	if c.isConst() {
		return c.boolVal()
	}
	p.branches++
	if p.concrete != nil {
		return p.evalConcreteBool(c)
	}
	return p.decide([]*Term{c, p.store.Not(c)}, "branch") == 0
}

func (p *Path) branchAt(c *Term, instr ssa.Instruction) bool { return p.branch(c) }

// concretize forks over the values lo..hi of t; any other value is an index panic.
func (p *Path) concretize(t *Term, lo, hi int64) value {
	if t.isConst() {
		return fromTerm(t, nil)
	}
	if p.concrete != nil {
		v := p.evalConcrete(t)
		return fromTerm(v, nil)
	}
	var conds []*Term
	var inr *Term = p.store.Bool(false)
	for v := lo; v <= hi; v++ {
		c := p.store.Eq(t, p.store.Int(uint64(v), t.bits, t.signed))
		conds = append(conds, c)
		inr = p.store.Or(inr, c)
	}
	conds = append(conds, p.store.Not(inr))
	d := p.decide(conds, "concretize")
	if d == len(conds)-1 {
		panic(runtimeError(fmt.Sprintf("index out of range (symbolic index outside [%d,%d])", lo, hi)))
	}
	return fromTerm(p.store.Int(uint64(lo+int64(d)), t.bits, t.signed), nil)
}

// f2i converts float64 to an integer type. In-range values truncate toward zero; the result
// for out-of-range / NaN inputs is implementation-defined in Go and modelled as unconstrained.
func (p *Path) f2i(x *Term, bits uint8, signed bool) *Term {
	if r := p.f2iCut(x, bits, signed); r != nil {
		return r
	}
	st := p.store
	var lo, hi float64
	if signed {
		lo, hi = -float64(uint64(1)<<(bits-1)), float64(uint64(1)<<(bits-1))
		// in range: lo <= x < hi  (truncation of values in (lo-1, lo) also lands at lo; keep exact: x > lo-1)
	} else {
		lo, hi = 0, 0
		if bits == 64 {
			hi = 18446744073709551616.0
		} else {
			hi = float64(uint64(1) << bits)
		}
	}
	var inr *Term
	if signed {
		inr = st.And(st.Le(st.F64(lo), x), st.Lt(x, st.F64(hi)))
	} else {
		inr = st.And(st.Lt(st.F64(-1), x), st.Lt(x, st.F64(hi)))
	}
	p.nondetSeq["f2i"]++
	fresh := st.Var(fmt.Sprintf("f2i_oor_%d", p.nondetSeq["f2i"]), KInt, bits, signed)
	return st.Ite(inr, st.F2I(x, bits, signed), fresh)
}

// ---- channels (sequentialised) ----

func (p *Path) chanSend(c *chanv, v value) {
	if c == nil {
		panic(pathAbort{kind: "unsupported", msg: "send on nil channel (blocks forever)"})
	}
	if c.closed {
		panic(targetPanic{iface{t: nil, v: "send on closed channel"}})
	}
	limit := c.cap
	if limit == 0 {
		limit = 1 // rendezvous approximated by a one-slot buffer (goroutines run to completion)
	}
	if len(c.buf) >= limit {
		panic(pathAbort{kind: "unsupported", msg: "channel send would block in the sequentialised goroutine model"})
	}
	c.buf = append(c.buf, v)
}

func (p *Path) chanRecv(c *chanv) (value, bool) {
	if c == nil || c.never {
		panic(pathAbort{kind: "unsupported", msg: "receive would block forever in the sequentialised goroutine model"})
	}
	if len(c.buf) > 0 {
		v := c.buf[0]
		c.buf = c.buf[1:]
		return v, true
	}
	if c.closed {
		return nil, false
	}
	panic(pathAbort{kind: "unsupported", msg: "receive on empty channel would block in the sequentialised goroutine model"})
}

func (p *Path) doSelect(fr *frame, instr *ssa.Select) value {
	var ready []int
	for i, st := range instr.States {
		c, _ := fr.get(st.Chan).(*chanv)
		if c == nil || c.never {
			continue
		}
		if st.Dir == types.RecvOnly {
			if len(c.buf) > 0 || c.closed {
				ready = append(ready, i)
			}
		} else {
			limit := c.cap
			if limit == 0 {
				limit = 1
			}
			if len(c.buf) < limit && !c.closed {
				ready = append(ready, i)
			}
		}
	}
	chosen := -1
	if len(ready) == 0 {
		if instr.Blocking {
			panic(pathAbort{kind: "unsupported", msg: "select with no ready case would block"})
		}
	} else if len(ready) == 1 {
		chosen = ready[0]
	} else {
		conds := make([]*Term, len(ready))
		chosen = ready[p.decide(conds, "select")]
	}
	recvOk := false
	var recv value
	if chosen >= 0 {
		st := instr.States[chosen]
		c := fr.get(st.Chan).(*chanv)
		if st.Dir == types.RecvOnly {
			recv, recvOk = p.chanRecv(c)
		} else {
			p.chanSend(c, fr.get(st.Send))
		}
	}
	r := tuple{chosen, recvOk}
	for i, st := range instr.States {
		if st.Dir == types.RecvOnly {
			var v value
			if i == chosen && recvOk {
				v = recv
			} else {
				v = zero(st.Chan.Type().Underlying().(*types.Chan).Elem())
			}
			r = append(r, v)
		}
	}
	return r
}

// ---- map iteration order ----

// orderKeys sorts keys deterministically and applies the current order policy.
func (p *Path) orderKeys(ks []value) []value {
	sort.SliceStable(ks, func(i, j int) bool { return keyLess(ks[i], ks[j]) })
	return p.permute(ks)
}

func keyLess(a, b value) bool {
	switch a := a.(type) {
	case string:
		if b, ok := b.(string); ok {
			return a < b
		}
	case int:
		if b, ok := b.(int); ok {
			return a < b
		}
	case int64:
		if b, ok := b.(int64); ok {
			return a < b
		}
	case uint64:
		if b, ok := b.(uint64); ok {
			return a < b
		}
	}
	return toString(a) < toString(b)
}

// permute applies the map-order policy: 0 ascending, 1 descending, k>=2 rotate by k-1, -1 fork over all orders (n<=3) / both directions.
func (p *Path) permute(ks []value) []value {
	n := len(ks)
	if n < 2 {
		return ks
	}
	mode := p.mapOrder
	if mode == -1 {
		if n <= 3 {
			perms := permutations(n)
			conds := make([]*Term, len(perms))
			d := p.decide(conds, "map-order")
			out := make([]value, n)
			for i, j := range perms[d] {
				out[i] = ks[j]
			}
			return out
		}
		mode = p.decide(make([]*Term, 2), "map-order")
	}
	switch {
	case mode == 0:
		return ks
	case mode == 1:
		out := make([]value, n)
		for i := range ks {
			out[n-1-i] = ks[i]
		}
		return out
	default:
		k := (mode - 1) % n
		out := append(append([]value{}, ks[k:]...), ks[:k]...)
		return out
	}
}

func permutations(n int) [][]int {
	var res [][]int
	var rec func(cur []int, used []bool)
	rec = func(cur []int, used []bool) {
		if len(cur) == n {
			res = append(res, append([]int{}, cur...))
			return
		}
		for i := 0; i < n; i++ {
			if !used[i] {
				used[i] = true
				rec(append(cur, i), used)
				used[i] = false
			}
		}
	}
	rec(nil, make([]bool, n))
	return res
}

// ---- obligations ----

func (p *Path) varNames() []string {
	var ns []string
	for _, v := range p.store.vars {
		if p.em.done[v.id] {
			ns = append(ns, v.ref())
		}
	}
	return ns
}

func (p *Path) modelMap(m map[string]string) map[string]string {
	out := map[string]string{}
	for _, v := range p.store.vars {
		if s, ok := m[v.ref()]; ok {
			out[v.name] = normalizeModelValue(v, s)
		}
	}
	return out
}

func normalizeModelValue(v *Term, s string) string {
	switch v.kind {
	case KBool:
		return s
	case KF64:
		if f, ok := valueToF64(s); ok {
			return fmt.Sprintf("%v", f)
		}
		return s
	default:
		if b, ok := valueToBig(s); ok {
			if v.kind == KInt && v.signed && b.Sign() >= 0 && b.BitLen() == int(v.bits) {
				// bv model of a negative number
				b.Sub(b, pow2(v.bits))
			}
			return b.String()
		}
		return s
	}
}

// check discharges an obligation: cond must hold under the path condition.
func (p *Path) check(cond *Term, label, kind, pos string) {
	ob := &Obligation{Label: label, Kind: kind, Pos: pos}
	p.obligations = append(p.obligations, ob)
	if p.concrete != nil {
		if p.evalConcreteBool(cond) {
			ob.Result = "unsat"
		} else {
			ob.Result = "sat"
		}
		return
	}
	if cond.isConst() {
		if cond.boolVal() {
			ob.Result = "unsat"
			return
		}
		// definitely violated on this (feasible) path: get a model of the path condition
		r, m := p.solver.CheckModel(p.varNames())
		ob.Decisions = append([]int{}, p.decisions...)
		ob.Sched = append([]int{}, p.sched...)
		if r == Sat {
			ob.Result = "sat"
			ob.Model = p.modelMap(m)
		} else if r == Unsat {
			ob.Result = "unsat" // path condition itself infeasible (only after unknown branches)
		} else {
			ob.Result = "unknown"
		}
		if p.keepScripts {
			ob.Script = p.solver.Script()
		}
		return
	}
	neg := p.store.Not(cond)
	ref := p.em.Ref(neg)
	r, m := p.solver.CheckModel(p.varNames(), "(assert "+ref+")")
	if r == Sat && len(p.prefs) > 0 {
		extra := []string{"(assert " + ref + ")"}
		for _, pr := range p.prefs {
			extra = append(extra, "(assert "+p.em.Ref(pr)+")")
		}
		if r2, m2 := p.solver.CheckModel(p.varNames(), extra...); r2 == Sat {
			m = m2
		}
	}
	switch r {
	case Unsat:
		ob.Result = "unsat"
	case Sat:
		ob.Result = "sat"
		ob.Model = p.modelMap(m)
		ob.Decisions = append([]int{}, p.decisions...)
		ob.Sched = append([]int{}, p.sched...)
	default:
		ob.Result = "unknown"
		ob.Detail = lastSolverError
	}
	if p.keepScripts {
		ob.Script = p.solver.Script("(assert " + ref + ")")
	}
	// continue under the assumption that the condition holds
	if r == Sat || r == Unknown {
		if p.feasible(cond) == Unsat {
			panic(pathAbort{kind: "infeasible", msg: "assertion fails on every continuation"})
		}
	}
	p.assertPC(cond)
}

// cover records that label was reached; its witness is a model of the complete path
// condition, taken when the path ends (so the vector binds every input of the run).
func (p *Path) cover(label string) {
	if _, ok := p.covers[label]; ok {
		return
	}
	p.covers[label] = nil
	p.coverPending = append(p.coverPending, label)
}

func (p *Path) resolveCovers() {
	if len(p.coverPending) == 0 {
		return
	}
	if p.concrete != nil {
		for _, l := range p.coverPending {
			p.covers[l] = map[string]string{}
		}
		return
	}
	r, m := p.solver.CheckModel(p.varNames())
	if r == Sat && len(p.prefs) > 0 {
		var extra []string
		for _, pr := range p.prefs {
			extra = append(extra, "(assert "+p.em.Ref(pr)+")")
		}
		if r2, m2 := p.solver.CheckModel(p.varNames(), extra...); r2 == Sat {
			m = m2
		}
	}
	for _, l := range p.coverPending {
		if r == Sat {
			p.covers[l] = p.modelMap(m)
		} else if r == Unknown {
			p.covers[l] = map[string]string{"_": "unknown"}
		} else {
			delete(p.covers, l)
		}
	}
	p.coverPending = nil
}

func (p *Path) assume(c *Term, what string) {
	if c.isConst() {
		if !c.boolVal() {
			panic(pathAbort{kind: "infeasible", msg: "assumption false: " + what})
		}
		return
	}
	if p.concrete != nil {
		if !p.evalConcreteBool(c) {
			panic(pathAbort{kind: "infeasible", msg: "assumption false under the replay vector: " + what})
		}
		return
	}
	if p.feasible(c) == Unsat {
		panic(pathAbort{kind: "infeasible", msg: "assumption infeasible: " + what})
	}
	p.assertPC(c)
}

// ---- concrete evaluation (translator validation: run the harness on a concrete vector) ----

func (p *Path) evalConcreteBool(c *Term) bool {
	v := p.evalConcrete(c)
	if !v.isConst() {
		panic(pathAbort{kind: "unknown", msg: "term not concrete under replay vector: " + c.String()})
	}
	return v.boolVal()
}

// evalConcrete evaluates t with variables bound from p.concrete.
func (p *Path) evalConcrete(t *Term) *Term {
	memo := map[int]*Term{}
	var ev func(t *Term) *Term
	st := p.store
	ev = func(t *Term) *Term {
		if t.isConst() {
			return t
		}
		if r, ok := memo[t.id]; ok {
			return r
		}
		var r *Term
		if t.op == OVar {
			s, ok := p.concrete[t.name]
			if !ok {
				s = "0"
				if t.kind == KBool {
					s = "false"
				}
			}
			switch t.kind {
			case KBool:
				r = st.Bool(s == "true")
			case KF64:
				var f float64
				fmt.Sscan(s, &f)
				r = st.F64(f)
			default:
				b, _ := new(big.Int).SetString(s, 10)
				if b == nil {
					b = new(big.Int)
				}
				if b.Sign() < 0 {
					b.Add(b, pow2(64))
				}
				r = st.Int(b.Uint64(), t.bits, t.signed)
			}
		} else {
			args := make([]*Term, len(t.a))
			for i, a := range t.a {
				args[i] = ev(a)
			}
			r = rebuild(st, t, args)
		}
		memo[t.id] = r
		return r
	}
	return ev(t)
}

func rebuild(st *Store, t *Term, a []*Term) *Term {
	switch t.op {
	case OAdd, OSub, OMul, ODiv, ORem, OAnd, OOr, OXor, OAndNot, OShl, OShr:
		return st.Bin(t.op, a[0], a[1])
	case ONeg:
		return st.Neg(a[0])
	case OBNot:
		return st.BNot(a[0])
	case OEq, OFEq:
		return st.Eq(a[0], a[1])
	case OLt, OFLt:
		return st.Lt(a[0], a[1])
	case OLe, OFLe:
		return st.Le(a[0], a[1])
	case ONot:
		return st.Not(a[0])
	case OLAnd:
		return st.And(a[0], a[1])
	case OLOr:
		return st.Or(a[0], a[1])
	case OIte:
		return st.Ite(a[0], a[1], a[2])
	case OConv:
		if t.kind == KWide {
			return st.Conv(a[0], 0, false)
		}
		return st.Conv(a[0], t.bits, t.signed)
	case OI2F:
		return st.I2F(a[0])
	case OF2I:
		return st.F2I(a[0], t.bits, t.signed)
	case OFAdd, OFSub, OFMul, OFDiv:
		return st.FBin(t.op, a[0], a[1])
	case OFNeg:
		return st.FNeg(a[0])
	case OFIsNaN:
		return st.FIsNaN(a[0])
	case OUF:
		return st.UF(t.name, t.kind, t.bits, t.signed, a...)
	case OByte:
		return st.Byte(a[0], int(t.c))
	}
	panic("rebuild: op")
}

func posString(fset *token.FileSet, pos token.Pos) string {
	if pos == token.NoPos {
		return ""
	}
	ps := fset.Position(pos)
	f := ps.Filename
	if i := strings.Index(f, "/0chain.net/"); i >= 0 {
		f = f[i+1:]
	}
	return fmt.Sprintf("%s:%d", f, ps.Line)
}
