#!/usr/bin/env python3
# Regenerates MANIFEST.json from checks/*.json and na.json (ids not claimed, with reasons).
import json,glob,os
props=[json.loads(l) for l in open('/verif/properties.jsonl')]
ids=[p['id'] for p in props]
na=json.load(open('/verif/na.json'))
checks=[]
claimed=set()
for f in sorted(glob.glob('/verif/checks/C*.json')):
    s=json.load(open(f)); i=s['id']; claimed.add(i)
    checks.append({
      "property_id": i,
      "quick_cmd": "./check %s --tier quick"%i,
      "thorough_cmd": "./check %s --tier thorough"%i,
      "evidence_file": "/verif/evidence/%s.json"%i,
      "replay_cmd_template": "./check %s --replay {path}"%i,
      "engine": "gosym",
      "level_claimed": {"category":"model_checking",
        "text": "Bounded symbolic model checking of the real code: "+s['claim'],
        "design_ref": "DESIGN.md §4 "+i},
      "level_note": "Outside the claim: "+s.get('outside','')+" Assumptions: "+"; ".join(s.get('assumptions',[]) or ['none beyond the engine-wide ones (DESIGN §2, §6)'])+". Trusted: go/ssa, the /verif/gosym interpreter and encoder (cover witnesses are replayed natively each run), z3.",
      "technique": s.get('technique',"symbolic execution of go/ssa + SMT (z3; int-with-wrap / bit-vector encodings), solver models replayed natively")
    })
nalist=[]
for i in ids:
    if i in claimed: continue
    nalist.append({"property_id":i,"reason":na.get(i,"check not built yet in this round (planned, DESIGN §4)")})
m={"version":1,
 "setup_cmd":"./setup.sh",
 "hooks":{"guard":"verif","enable":"none needed: harnesses are injected with go/packages overlays and go test -overlay; no source change in /repo","baseline_off_cmd":"cd /repo/code/go/0chain.net && go test -vet=off -count=1 -timeout 25m ./...","source_commits":[],"add_only":True},
 "engines":[{"name":"gosym","path":"/verif/gosym","serves_properties":sorted(claimed),"kind_free_text":"symbolic interpreter for go/ssa (concrete heap shape, symbolic integer/bool/float leaves), path exploration by re-execution, SMT-LIB2 to z3/cvc5, native replay through go test -overlay"}],
 "checks":checks,
 "notes":"Every check is solver-based (DESIGN.md). Exit 0 = all obligations of the registered bound unsat; 1 = replayed violation; 2 = inconclusive (never reported as held).",
 "not_applicable":nalist}
json.dump(m,open('/verif/MANIFEST.json','w'),indent=1)
print(len(checks),"checks;",len(nalist),"not applicable")
