// Package sym is the nondeterminism / assertion API of the verification harnesses.
//
// Under the symbolic executor (/verif/gosym) every function here is an intrinsic: U64 &c.
// return fresh SMT variables, Assume/Assert/Cover talk to the solver. Compiled natively
// (go test -overlay) the same calls read a concrete replay vector, so one harness source
// serves both as the encoding entry point and as the native replay of a solver model.
package sym

import (
	"encoding/json"
	"fmt"
	"math/big"
	"os"
	"reflect"
	"runtime/debug"
	"sort"
	"strconv"
	"time"
	"unsafe"

	"github.com/0chain/common/core/logging"
	"github.com/herumi/bls-go-binary/bls"
	"go.uber.org/zap"
)

type replayFile struct {
	Harness string            `json:"harness"`
	Vector  map[string]string `json:"vector"`
}

var (
	vec      map[string]string
	seq      = map[string]int{}
	Failures []string
	Covered  []string
	Observed []string
	loaded   bool
)

type AssumeFailed struct{ What string }

func load() {
	if loaded {
		return
	}
	loaded = true
	vec = map[string]string{}
	if f := os.Getenv("VERIF_REPLAY"); f != "" {
		data, err := os.ReadFile(f)
		if err != nil {
			panic(err)
		}
		var rf replayFile
		if err := json.Unmarshal(data, &rf); err != nil {
			panic(err)
		}
		vec = rf.Vector
	}
}

// SetVector installs a replay vector (native only).
func SetVector(v map[string]string) {
	loaded = true
	vec = v
	seq = map[string]int{}
	Failures, Covered, Observed = nil, nil, nil
}

func key(name string) string {
	seq[name]++
	if n := seq[name]; n > 1 {
		return fmt.Sprintf("%s#%d", name, n)
	}
	return name
}

func get(name string) string {
	load()
	return vec[key(name)]
}

func U64(name string) uint64 {
	s := get(name)
	if s == "" {
		return 0
	}
	b, _ := new(big.Int).SetString(s, 10)
	if b == nil {
		return 0
	}
	return b.Uint64()
}
func I64(name string) int64 {
	s := get(name)
	if s == "" {
		return 0
	}
	v, _ := strconv.ParseInt(s, 10, 64)
	return v
}
func Int(name string) int     { return int(I64(name)) }
func U32(name string) uint32  { return uint32(U64(name)) }
func I32(name string) int32   { return int32(I64(name)) }
func U8(name string) uint8    { return uint8(U64(name)) }
func Bool(name string) bool   { return get(name) == "true" }
func F64(name string) float64 { v, _ := strconv.ParseFloat(get(name), 64); return v }

// Symbolic reports whether the harness runs under the symbolic executor.
func Symbolic() bool { return false }

func Assume(c bool) {
	if !c {
		panic(AssumeFailed{"replay vector does not satisfy an assumption"})
	}
}

func Assert(c bool, label string) {
	if !c {
		Failures = append(Failures, label)
		fmt.Println("VERIF-ASSERT-FAIL " + label)
	}
}
func Fail(label string) { Assert(false, label) }

func Cover(label string) { Covered = append(Covered, label) }
func Note(s string)      {}

func Observe(label string, vals ...interface{}) {
	s := label + "="
	for i, v := range vals {
		if i > 0 {
			s += ","
		}
		s += fmt.Sprintf("%v", v)
	}
	Observed = append(Observed, s)
	fmt.Println("VERIF-OBSERVE " + s)
}

// Choice is a symbolic shape choice in [lo,hi]; the executor case-splits on it.
func Choice(name string, lo, hi int) int { return Int(name) }

// MapOrder selects the map iteration order policy of the executor (no native effect).
func MapOrder(mode int) {}

// StepLimit makes exceeding n interpreter steps a violated termination obligation.
func StepLimit(n int) {}

// SumEq reports Σa == Σb over the mathematical integers (no wrap).
func SumEq(a, b []uint64) bool { return sum(a).Cmp(sum(b)) == 0 }

// SumLe reports Σa <= Σb over the mathematical integers.
func SumLe(a, b []uint64) bool { return sum(a).Cmp(sum(b)) <= 0 }

func sum(a []uint64) *big.Int {
	s := new(big.Int)
	for _, x := range a {
		s.Add(s, new(big.Int).SetUint64(x))
	}
	return s
}

func IteU64(c bool, a, b uint64) uint64 {
	if c {
		return a
	}
	return b
}

// LockBalance is the number of mutexes currently held (executor only; natively 0).
func LockBalance() int { return 0 }

type replayCase struct {
	Harness string            `json:"harness"`
	Vector  map[string]string `json:"vector"`
}

// RunReplays (native only) runs each case of the VERIF_REPLAY file through its harness and
// prints a line protocol that /verif/gosym parses.
func RunReplays(harnesses map[string]func()) {
	data, err := os.ReadFile(os.Getenv("VERIF_REPLAY"))
	if err != nil {
		panic(err)
	}
	var cases []replayCase
	if err := json.Unmarshal(data, &cases); err != nil {
		panic(err)
	}
	for i, c := range cases {
		fn := harnesses[c.Harness]
		if fn == nil {
			continue
		}
		SetVector(c.Vector)
		fmt.Printf("VERIF-CASE %d BEGIN\n", i)
		done := make(chan string, 1)
		go func() {
			defer func() {
				if r := recover(); r != nil {
					if _, ok := r.(AssumeFailed); ok {
						done <- "assume-failed"
						return
					}
					done <- fmt.Sprintf("%v || %s", r, oneLine(string(debug.Stack())))
					return
				}
				done <- ""
			}()
			fn()
		}()
		select {
		case p := <-done:
			if p != "" {
				fmt.Printf("VERIF-CASE %d END panic=%s\n", i, oneLine(p))
			} else {
				fmt.Printf("VERIF-CASE %d END\n", i)
			}
		case <-time.After(20 * time.Second):
			fmt.Printf("VERIF-CASE %d TIMEOUT\n", i)
		}
	}
}

func oneLine(s string) string {
	out := []rune{}
	for _, r := range s {
		if r == '\n' || r == '\r' {
			r = ' '
		}
		out = append(out, r)
	}
	if len(out) > 3000 {
		out = out[:3000]
	}
	return string(out)
}

func init() {
	logging.Logger = zap.NewNop()
	logging.N2n = zap.NewNop()
}

// TempDir is a scratch directory: a real temporary directory natively, a name in the
// executor's in-memory file model symbolically.
func TempDir() string {
	d, err := os.MkdirTemp("", "verif-h-")
	if err != nil {
		panic(err)
	}
	return d
}

// LinLe reports Σ ca[i]*xs[i] <= Σ cb[j]*ys[j] over the mathematical integers (no wrap).
// Under the executor the coefficients must be concrete.
func LinLe(ca, xs, cb, ys []uint64) bool { return lin(ca, xs).Cmp(lin(cb, ys)) <= 0 }

// LinEq reports Σ ca[i]*xs[i] == Σ cb[j]*ys[j] over the mathematical integers.
func LinEq(ca, xs, cb, ys []uint64) bool { return lin(ca, xs).Cmp(lin(cb, ys)) == 0 }

func lin(c, x []uint64) *big.Int {
	s := new(big.Int)
	for i := range c {
		t := new(big.Int).SetUint64(c[i])
		t.Mul(t, new(big.Int).SetUint64(x[i]))
		s.Add(s, t)
	}
	return s
}

// BLSAddMul returns the signature sig + c*d (group operation of BLS signatures, c may be
// negative), as a hex string accepted by the signature schemes. Natively it uses the real
// herumi group operations; under the executor (exponent view, enabled with
// Note("mode:bls-exponent-view")) signatures are linear forms over formal generators and c
// may be symbolic.
func BLSAddMul(sig, d string, c int64) string {
	var s, dd bls.G1
	var sg, dg bls.Sign
	if err := sg.DeserializeHexStr(sig); err != nil {
		panic(err)
	}
	if err := dg.DeserializeHexStr(d); err != nil {
		panic(err)
	}
	if err := s.Deserialize(sg.Serialize()); err != nil {
		panic(err)
	}
	if err := dd.Deserialize(dg.Serialize()); err != nil {
		panic(err)
	}
	if c < 0 {
		bls.G1Neg(&dd, &dd)
		c = -c
	}
	for k := int64(0); k < c; k++ {
		bls.G1Add(&s, &s, &dd)
	}
	var out bls.Sign
	if err := out.Deserialize(s.Serialize()); err != nil {
		panic(err)
	}
	return out.SerializeToHexStr()
}

// Havoc replaces every integer / bool leaf reachable from *ptr (struct fields incl. unexported
// but not those tagged msg:"-", which are transient by declaration,
// arrays, slices other than byte strings, pointers, map values in sorted key order; strings and
// floats are left alone) by a nondeterministic value named "hv". Under the executor the leaves
// become fresh symbols; natively they are read from the replay vector in the same order.
func Havoc(ptr interface{}) {
	v := reflect.ValueOf(ptr)
	if v.Kind() != reflect.Ptr || v.IsNil() {
		panic("sym.Havoc needs a non-nil pointer")
	}
	havoc(v.Elem(), 0)
}

func settable(v reflect.Value) reflect.Value {
	if v.CanSet() {
		return v
	}
	if v.CanAddr() {
		return reflect.NewAt(v.Type(), unsafe.Pointer(v.UnsafeAddr())).Elem()
	}
	return v
}

func isSync(t reflect.Type) bool {
	for t.Kind() == reflect.Ptr {
		t = t.Elem()
	}
	return t.PkgPath() == "sync" || (t.PkgPath() == "time" && t.Name() == "Time")
}

func havoc(v reflect.Value, depth int) {
	if depth > 12 {
		return
	}
	v = settable(v)
	switch v.Kind() {
	case reflect.Bool:
		v.SetBool(Bool("hv"))
	case reflect.Int, reflect.Int64, reflect.Int32, reflect.Int16, reflect.Int8:
		v.SetInt(I64("hv"))
	case reflect.Uint, reflect.Uint64, reflect.Uint32, reflect.Uint16, reflect.Uint8, reflect.Uintptr:
		v.SetUint(U64("hv"))
	case reflect.Struct:
		for i := 0; i < v.NumField(); i++ {
			f := v.Type().Field(i)
			if f.Name == "_" || isSync(f.Type) || f.Tag.Get("msg") == "-" {
				continue
			}
			havoc(v.Field(i), depth+1)
		}
	case reflect.Array:
		for i := 0; i < v.Len(); i++ {
			havoc(v.Index(i), depth+1)
		}
	case reflect.Slice:
		if v.Type().Elem().Kind() == reflect.Uint8 {
			return
		}
		for i := 0; i < v.Len(); i++ {
			havoc(v.Index(i), depth+1)
		}
	case reflect.Ptr:
		if !v.IsNil() {
			havoc(v.Elem(), depth+1)
		}
	case reflect.Map:
		if v.IsNil() {
			return
		}
		keys := v.MapKeys()
		sort.Slice(keys, func(i, j int) bool { return fmt.Sprint(keys[i].Interface()) < fmt.Sprint(keys[j].Interface()) })
		for _, k := range keys {
			e := reflect.New(v.Type().Elem()).Elem()
			e.Set(v.MapIndex(k))
			havoc(e, depth+1)
			v.SetMapIndex(k, e)
		}
	}
}

// DeepEqual is structural equality of two values of the same type (unexported fields
// included, sync primitives skipped) in which a nil slice or map equals an empty one.
func DeepEqual(a, b interface{}) bool {
	if a == nil || b == nil {
		return a == nil && b == nil
	}
	va, vb := reflect.ValueOf(a), reflect.ValueOf(b)
	if va.Type() != vb.Type() {
		return false
	}
	return deepEq(va, vb, 0)
}

func deepEq(a, b reflect.Value, depth int) bool {
	if depth > 16 {
		return true
	}
	switch a.Kind() {
	case reflect.Struct:
		for i := 0; i < a.NumField(); i++ {
			f := a.Type().Field(i)
			if f.Name == "_" || isSync(f.Type) || f.Tag.Get("msg") == "-" {
				continue
			}
			if !deepEq(a.Field(i), b.Field(i), depth+1) {
				return false
			}
		}
		return true
	case reflect.Array, reflect.Slice:
		if a.Len() != b.Len() {
			return false
		}
		for i := 0; i < a.Len(); i++ {
			if !deepEq(a.Index(i), b.Index(i), depth+1) {
				return false
			}
		}
		return true
	case reflect.Ptr:
		if a.IsNil() || b.IsNil() {
			return a.IsNil() && b.IsNil()
		}
		return deepEq(a.Elem(), b.Elem(), depth+1)
	case reflect.Map:
		if a.Len() != b.Len() {
			return false
		}
		for _, k := range a.MapKeys() {
			bv := b.MapIndex(k)
			if !bv.IsValid() || !deepEq(a.MapIndex(k), bv, depth+1) {
				return false
			}
		}
		return true
	case reflect.Interface:
		if a.IsNil() || b.IsNil() {
			return a.IsNil() && b.IsNil()
		}
		if a.Elem().Type() != b.Elem().Type() {
			return false
		}
		return deepEq(a.Elem(), b.Elem(), depth+1)
	case reflect.Bool:
		return a.Bool() == b.Bool()
	case reflect.Int, reflect.Int64, reflect.Int32, reflect.Int16, reflect.Int8:
		return a.Int() == b.Int()
	case reflect.Uint, reflect.Uint64, reflect.Uint32, reflect.Uint16, reflect.Uint8, reflect.Uintptr:
		return a.Uint() == b.Uint()
	case reflect.Float32, reflect.Float64:
		return a.Float() == b.Float()
	case reflect.String:
		return a.String() == b.String()
	}
	return true
}
