// Package symdkg provides a completed, honest distributed key generation for harnesses.
// Natively it runs the real DKG of chaincore/threshold/bls (polynomial shares through the
// herumi library); under the symbolic executor Ideal is intercepted and the returned DKG
// objects belong to an ideal threshold group: a party's signature share verifies exactly for
// that party and the message it was made for, and any t or more distinct valid shares on one
// message recover the group's unique signature on it (C34, the correctness of the real
// arithmetic, is an assumption here, not a result).
package symdkg

import "0chain.net/chaincore/threshold/bls"

// Ideal runs a t-of-len(ids) DKG among the parties with the given node ids and returns the
// DKG object each of them ends up with, in the order of ids.
func Ideal(t int, ids []string) []*bls.DKG {
	n := len(ids)
	dkgs := make([]*bls.DKG, n)
	for i, id := range ids {
		dkgs[i] = bls.MakeDKG(t, n, id)
	}
	mpks := make(map[bls.PartyID][]bls.PublicKey)
	for i, di := range dkgs {
		mpks[bls.ComputeIDdkg(ids[i])] = di.GetMPKs()
		for j, dj := range dkgs {
			sij, err := di.ComputeDKGKeyShare(bls.ComputeIDdkg(ids[j]))
			if err != nil {
				panic(err)
			}
			if err := dj.AddSecretShare(bls.ComputeIDdkg(ids[i]), sij.GetHexString(), false); err != nil {
				panic(err)
			}
		}
	}
	for _, d := range dkgs {
		d.AggregateSecretKeyShares()
		if err := d.AggregatePublicKeyShares(mpks); err != nil {
			panic(err)
		}
	}
	return dkgs
}
