// Package symstate provides the state backing of contract harnesses: under the symbolic
// executor a model Merkle-Patricia trie (path -> msgp value, no hashing, no node structure)
// behind the REAL cstate.StateContext and statecache; natively the real in-memory trie.
package symstate

import (
	"context"
	"io"
	"sort"

	"0chain.net/chaincore/block"
	cstate "0chain.net/chaincore/chain/state"
	"0chain.net/chaincore/transaction"
	"0chain.net/core/encryption"
	"0chain.net/zzverif/sym"
	"github.com/0chain/common/core/statecache"
	"github.com/0chain/common/core/util"
)

// ModelMPT implements util.MerklePatriciaTrieI as a flat map.
type ModelMPT struct {
	vals    map[string][]byte
	cache   *statecache.TransactionCache
	writes  []string // paths inserted or deleted, in order
	version util.Sequence
}

func NewModelMPT() *ModelMPT {
	_, tc := statecache.NewBlockTxnCaches(statecache.NewStateCache(), statecache.Block{Round: 1, Hash: "h1", PrevHash: "h0"})
	return &ModelMPT{vals: map[string][]byte{}, cache: tc}
}

func (m *ModelMPT) SetNodeDB(ndb util.NodeDB)           {}
func (m *ModelMPT) GetNodeDB() util.NodeDB              { return modelNodeDB{} }
func (m *ModelMPT) SetVersion(v util.Sequence)          { m.version = v }
func (m *ModelMPT) GetVersion() util.Sequence           { return m.version }
func (m *ModelMPT) GetRoot() util.Key                   { return util.Key("model-root") }
func (m *ModelMPT) Cache() *statecache.TransactionCache { return m.cache }

func (m *ModelMPT) GetNodeValue(path util.Path, v util.MPTSerializable) error {
	b, ok := m.vals[string(path)]
	if !ok {
		return util.ErrValueNotPresent
	}
	_, err := v.UnmarshalMsg(b)
	return err
}

func (m *ModelMPT) GetNodeValueRaw(path util.Path) ([]byte, error) {
	b, ok := m.vals[string(path)]
	if !ok {
		return nil, util.ErrValueNotPresent
	}
	return b, nil
}

func (m *ModelMPT) Insert(path util.Path, value util.MPTSerializable) (util.Key, error) {
	b, err := value.MarshalMsg(nil)
	if err != nil {
		return nil, err
	}
	m.vals[string(path)] = b
	m.writes = append(m.writes, string(path))
	return util.Key(path), nil
}

func (m *ModelMPT) Delete(path util.Path) (util.Key, error) {
	if _, ok := m.vals[string(path)]; !ok {
		return nil, util.ErrValueNotPresent
	}
	delete(m.vals, string(path))
	m.writes = append(m.writes, string(path))
	return util.Key(path), nil
}

func (m *ModelMPT) Iterate(ctx context.Context, handler util.MPTIteratorHandler, visitNodeTypes byte) error {
	panic("symstate: Iterate unsupported")
}
func (m *ModelMPT) IterateFrom(ctx context.Context, node util.Key, handler util.MPTIteratorHandler, visitNodeTypes byte) error {
	panic("symstate: IterateFrom unsupported")
}
func (m *ModelMPT) GetChanges() (util.Key, []*util.NodeChange, []util.Node, util.Key) {
	panic("symstate: GetChanges unsupported")
}
func (m *ModelMPT) GetDeletes() []util.Node { return nil }
func (m *ModelMPT) GetChangeCount() int     { return len(m.writes) }
func (m *ModelMPT) SaveChanges(ctx context.Context, ndb util.NodeDB, includeDeletes bool) error {
	return nil
}
func (m *ModelMPT) HasMissingNodes(ctx context.Context) (bool, error) { return false, nil }
func (m *ModelMPT) GetMissingNodeKeys() []util.Key                    { return nil }
func (m *ModelMPT) PrettyPrint(w io.Writer) error                     { return nil }
func (m *ModelMPT) GetAllMissingNodes() ([]util.Key, error)           { return nil, nil }
func (m *ModelMPT) Validate() error                                   { return nil }
func (m *ModelMPT) MergeMPTChanges(mpt2 util.MerklePatriciaTrieI) error {
	o, ok := mpt2.(*ModelMPT)
	if !ok {
		panic("symstate: MergeMPTChanges with a foreign trie")
	}
	for k, v := range o.vals {
		m.vals[k] = v
	}
	for k := range m.vals {
		if _, ok := o.vals[k]; !ok {
			delete(m.vals, k)
		}
	}
	return nil
}
func (m *ModelMPT) MergeChanges(newRoot util.Key, changes []*util.NodeChange, deletes []util.Node, startRoot util.Key) error {
	panic("symstate: MergeChanges unsupported")
}
func (m *ModelMPT) MergeDB(ndb util.NodeDB, root util.Key, deadNodes []util.Node) error {
	panic("symstate: MergeDB unsupported")
}

// modelNodeDB satisfies util.NodeDB for code that only probes the root node.
type modelNodeDB struct{}

func (modelNodeDB) GetNode(key util.Key) (util.Node, error)    { return nil, nil }
func (modelNodeDB) PutNode(key util.Key, node util.Node) error { return nil }
func (modelNodeDB) DeleteNode(key util.Key) error              { return nil }
func (modelNodeDB) Iterate(ctx context.Context, handler util.NodeDBIteratorHandler) error {
	return nil
}
func (modelNodeDB) Size(ctx context.Context) int64                             { return 0 }
func (modelNodeDB) MultiGetNode(keys []util.Key) ([]util.Node, error)          { return nil, nil }
func (modelNodeDB) MultiPutNode(keys []util.Key, nodes []util.Node) error      { return nil }
func (modelNodeDB) MultiDeleteNode(keys []util.Key) error                      { return nil }
func (modelNodeDB) RecordDeadNodes([]util.Node, int64) error                   { return nil }
func (modelNodeDB) PruneBelowVersion(ctx context.Context, version int64) error { return nil }

// ChildWithCache is the model counterpart of chain.CreateTxnMPT: a per-transaction copy
// whose writes reach the parent only through MergeMPTChanges.
func (m *ModelMPT) ChildWithCache(cache *statecache.TransactionCache) util.MerklePatriciaTrieI {
	c := &ModelMPT{vals: map[string][]byte{}, cache: cache, version: m.version}
	for k, v := range m.vals {
		c.vals[k] = v
	}
	return c
}

// Child returns a copy-on-write style child (used for per-transaction overlays).
func (m *ModelMPT) Child() *ModelMPT {
	c := &ModelMPT{vals: map[string][]byte{}, cache: statecache.NewTransactionCache(m.cacheMain()), version: m.version}
	for k, v := range m.vals {
		c.vals[k] = v
	}
	return c
}

func (m *ModelMPT) cacheMain() statecache.BlockCacher {
	bc, _ := statecache.NewBlockTxnCaches(statecache.NewStateCache(), statecache.Block{Round: 1, Hash: "h1", PrevHash: "h0"})
	return bc
}

// recorder wraps a real trie natively so that written paths can be observed.
type recorder struct {
	util.MerklePatriciaTrieI
	writes []string
}

func (r *recorder) Insert(path util.Path, value util.MPTSerializable) (util.Key, error) {
	r.writes = append(r.writes, string(path))
	return r.MerklePatriciaTrieI.Insert(path, value)
}
func (r *recorder) Delete(path util.Path) (util.Key, error) {
	r.writes = append(r.writes, string(path))
	return r.MerklePatriciaTrieI.Delete(path)
}

// NewTrie returns the model trie (symbolic) or a real in-memory trie (native).
func NewTrie() util.MerklePatriciaTrieI {
	if sym.Symbolic() {
		return NewModelMPT()
	}
	_, tc := statecache.NewBlockTxnCaches(statecache.NewStateCache(), statecache.Block{Round: 1, Hash: "h1", PrevHash: "h0"})
	real := util.NewMerklePatriciaTrie(util.NewLevelNodeDB(util.NewMemoryNodeDB(), util.NewMemoryNodeDB(), false), 1, nil, tc)
	return &recorder{MerklePatriciaTrieI: real}
}

// Fork returns an independent copy of a block state: what a child block starts from.
func Fork(t util.MerklePatriciaTrieI) util.MerklePatriciaTrieI {
	switch t := t.(type) {
	case *ModelMPT:
		return t.Child()
	case *recorder:
		_, tc := statecache.NewBlockTxnCaches(statecache.NewStateCache(), statecache.Block{Round: 1, Hash: "h1", PrevHash: "h0"})
		tdb := util.NewLevelNodeDB(util.NewMemoryNodeDB(), t.GetNodeDB(), false)
		return &recorder{MerklePatriciaTrieI: util.NewMerklePatriciaTrie(tdb, t.GetVersion(), t.GetRoot(), tc)}
	}
	panic("symstate: Fork of a foreign trie")
}

// Writes lists the trie paths inserted or deleted so far.
func Writes(t util.MerklePatriciaTrieI) []string {
	switch t := t.(type) {
	case *ModelMPT:
		return t.writes
	case *recorder:
		return t.writes
	}
	return nil
}

// PathOf is the trie path of a state key.
func PathOf(key string) string { return string(util.Path(encryption.Hash(key))) }

// Wrote reports whether key was inserted or deleted.
func Wrote(t util.MerklePatriciaTrieI, key string) bool {
	p := PathOf(key)
	for _, w := range Writes(t) {
		if w == p {
			return true
		}
	}
	return false
}

// Balances builds a real StateContext over NewTrie for the given block and transaction.
func Balances(b *block.Block, txn *transaction.Transaction) (*cstate.StateContext, util.MerklePatriciaTrieI) {
	t := NewTrie()
	if b == nil {
		b = &block.Block{}
	}
	if txn == nil {
		txn = &transaction.Transaction{}
	}
	sc := cstate.NewStateContext(b, t, txn,
		func(int64) *block.MagicBlock { return nil },
		func() *block.Block { return b },
		func() *block.MagicBlock { return nil },
		func() encryption.SignatureScheme { return encryption.NewBLS0ChainScheme() },
		func() *block.Block { return b },
		nil)
	return sc, t
}

// BalancesOn builds a real StateContext over an existing trie (e.g. a Fork of a block state:
// one transaction's view, adopted by the caller only if the call succeeds).
func BalancesOn(t util.MerklePatriciaTrieI, b *block.Block, txn *transaction.Transaction) *cstate.StateContext {
	return cstate.NewStateContext(b, t, txn,
		func(int64) *block.MagicBlock { return nil },
		func() *block.Block { return b },
		func() *block.MagicBlock { return nil },
		func() encryption.SignatureScheme { return encryption.NewBLS0ChainScheme() },
		func() *block.Block { return b },
		nil)
}

// Fresh discards the transaction cache content so that the next read comes from the trie.
func Fresh(t util.MerklePatriciaTrieI) {
	_ = t
}

// AssertAuthorised asserts the C04 attribution rule on the transfers queued so far: every
// transfer is paid by one of the contract's own wallets (own) or by the transaction's
// sender, and what the sender pays in total does not exceed the transaction value.
func AssertAuthorised(balances cstate.StateContextI, t *transaction.Transaction, own ...string) {
	var fromSender []uint64
	for _, tr := range balances.GetTransfers() {
		if tr.Amount == 0 {
			continue
		}
		if tr.ClientID == t.ClientID {
			fromSender = append(fromSender, uint64(tr.Amount))
			continue
		}
		ok := false
		for _, o := range own {
			ok = ok || tr.ClientID == o
		}
		sym.Assert(ok, "a contract call debits only the sender or the contract's own wallets")
	}
	sym.Assert(sym.SumLe(fromSender, []uint64{uint64(t.Value)}), "a contract call debits its sender by at most the transaction value")
	sym.Assert(len(balances.GetSignedTransfers()) == 0, "no signed transfer is queued by this contract function")
}

// ---- per-transaction overlays: what Chain.updateState does around every contract call ----

// Ledger is a block-level trie on which transactions are applied one by one; a transaction's
// writes reach it only when the call succeeded (the chain discards a failed call's changes).
type Ledger struct {
	Block *block.Block
	Base  util.MerklePatriciaTrieI
	bc    *statecache.BlockCache
}

func NewLedger(b *block.Block) *Ledger {
	if b == nil {
		b = &block.Block{}
	}
	l := &Ledger{Block: b}
	l.bc = statecache.NewBlockCache(statecache.NewStateCache(), statecache.Block{Round: 1, Hash: "h1", PrevHash: "h0"})
	if sym.Symbolic() {
		l.Base = NewModelMPT()
	} else {
		l.Base = util.NewMerklePatriciaTrie(util.NewLevelNodeDB(util.NewMemoryNodeDB(), util.NewMemoryNodeDB(), false), 1, nil, statecache.NewTransactionCache(l.bc))
	}
	return l
}

// Begin opens a transaction overlay and returns its state context and trie.
func (l *Ledger) Begin(txn *transaction.Transaction) (*cstate.StateContext, util.MerklePatriciaTrieI) {
	tc := statecache.NewTransactionCache(l.bc)
	var child util.MerklePatriciaTrieI
	if m, ok := l.Base.(*ModelMPT); ok {
		child = m.ChildWithCache(tc)
	} else {
		tdb := util.NewLevelNodeDB(util.NewMemoryNodeDB(), l.Base.GetNodeDB(), false)
		child = util.NewMerklePatriciaTrie(tdb, l.Base.GetVersion(), l.Base.GetRoot(), tc)
	}
	b := l.Block
	sc := cstate.NewStateContext(b, child, txn,
		func(int64) *block.MagicBlock { return nil },
		func() *block.Block { return b },
		func() *block.MagicBlock { return nil },
		func() encryption.SignatureScheme { return encryption.NewBLS0ChainScheme() },
		func() *block.Block { return b },
		nil)
	return sc, child
}

// Commit merges a successful transaction's overlay into the block state (and its cache).
func (l *Ledger) Commit(child util.MerklePatriciaTrieI) {
	if err := l.Base.MergeMPTChanges(child); err != nil {
		panic(err)
	}
	child.Cache().Commit()
}

// BalancesMB is Balances with a magic block served for every round (current and latest finalized).
func BalancesMB(b *block.Block, txn *transaction.Transaction, mb *block.MagicBlock) (*cstate.StateContext, util.MerklePatriciaTrieI) {
	t := NewTrie()
	if b == nil {
		b = &block.Block{}
	}
	if txn == nil {
		txn = &transaction.Transaction{}
	}
	lfmb := &block.Block{}
	lfmb.MagicBlock = mb
	sc := cstate.NewStateContext(b, t, txn,
		func(int64) *block.MagicBlock { return mb },
		func() *block.Block { return lfmb },
		func() *block.MagicBlock { return mb },
		func() encryption.SignatureScheme { return encryption.NewBLS0ChainScheme() },
		func() *block.Block { return lfmb },
		nil)
	return sc, t
}

// RoundTrip checks the C08 clauses for one entity: x is encoded, decoded into fresh, compared,
// and the decoded value re-encoded.
func RoundTrip(label string, x, fresh util.MPTSerializable) {
	b, err := x.MarshalMsg(nil)
	if err != nil {
		sym.Fail(label + " encodes")
		return
	}
	if _, err := fresh.UnmarshalMsg(b); err != nil {
		sym.Fail(label + " decodes")
		return
	}
	sym.Cover(label)
	sym.Assert(sym.DeepEqual(x, fresh), label+": the decoded value equals the stored one")
	b2, err := fresh.MarshalMsg(nil)
	sym.Assert(err == nil && sym.DeepEqual(b, b2), label+": re-encoding the decoded value yields identical bytes")
}

// CloneIsolated checks the cache-entry discipline for one cacheable entity: a clone equals the
// original; overwriting every numeric leaf of the clone (what a contract does to an object a
// read returned) leaves the original's stored form unchanged; and, through the real
// TransactionCache exactly as StateContext.GetTrieNode uses it (Get hands out a clone, the
// reader's object is filled with CopyFrom), a read equals what was stored and mutating the
// reader's object changes neither the stored entry nor what the next read returns.
func CloneIsolated(label string, x interface {
	util.MPTSerializable
	statecache.Value
}, fresh statecache.Value) {
	before, err := x.MarshalMsg(nil)
	if err != nil {
		sym.Fail(label + " encodes")
		return
	}
	c := x.Clone()
	sym.Cover(label)
	sym.Assert(sym.DeepEqual(interface{}(x), interface{}(c)), label+": a cache clone equals the original")
	sym.Havoc(c)
	after, _ := x.MarshalMsg(nil)
	sym.Assert(sym.DeepEqual(before, after), label+": mutating a clone never changes the original")
	// the read path of StateContext.GetTrieNode over the real transaction cache
	tc := statecache.NewEmpty()
	tc.Set("k", x)
	cv, ok := tc.Get("k")
	if !ok || !fresh.CopyFrom(cv) {
		sym.Fail(label + ": a cached entry is served and CopyFrom accepts its own type")
		return
	}
	sym.Assert(sym.DeepEqual(interface{}(x), interface{}(fresh)), label+": a read served from the cache equals the stored value")
	sym.Havoc(fresh)
	after2, _ := x.MarshalMsg(nil)
	sym.Assert(sym.DeepEqual(before, after2), label+": mutating a value a read returned never changes the object that was stored")
	cv2, ok := tc.Get("k")
	if !ok {
		sym.Fail(label + ": the entry is still served")
		return
	}
	again, _ := cv2.(util.MPTSerializable).MarshalMsg(nil)
	sym.Assert(sym.DeepEqual(before, again), label+": mutating a value a read returned never changes what later reads return")
}

// Deterministic runs f repeatedly on what the caller guarantees is the same input and prior
// state and asserts that every run yields the same text (outputs, error, events ...) and the
// same trie content. Under the symbolic executor f is run twice with map iteration order
// forked independently at every range statement (all orders of maps up to 3 entries, both
// directions beyond); natively it is run 48 times under the runtime's own randomised order.
func Deterministic(label string, f func() (string, util.MerklePatriciaTrieI)) {
	n := 2
	if !sym.Symbolic() {
		n = 48
	}
	sym.MapOrder(-1)
	first, firstTrie := f()
	same := true
	for i := 1; i < n; i++ {
		r, t := f()
		if r != first || !SameWrites(firstTrie, t) {
			same = false
		}
	}
	sym.MapOrder(0)
	sym.Assert(same, label)
}

func writtenPaths(t util.MerklePatriciaTrieI) []string {
	var paths []string
	seen := map[string]bool{}
	for _, p := range Writes(t) {
		if !seen[p] {
			seen[p] = true
			paths = append(paths, p)
		}
	}
	sort.Strings(paths)
	return paths
}

// SameWrites reports whether two tries were written at the same paths and now hold the same
// encoded value (or absence) at each of them.
func SameWrites(a, b util.MerklePatriciaTrieI) bool {
	if a == nil || b == nil {
		return a == nil && b == nil
	}
	pa, pb := writtenPaths(a), writtenPaths(b)
	if len(pa) != len(pb) {
		return false
	}
	for i := range pa {
		if pa[i] != pb[i] {
			return false
		}
		va, ea := a.GetNodeValueRaw(util.Path(pa[i]))
		vb, eb := b.GetNodeValueRaw(util.Path(pb[i]))
		if (ea == nil) != (eb == nil) {
			return false
		}
		if ea == nil && !sym.DeepEqual(va, vb) {
			return false
		}
	}
	return true
}

// PickFields chooses n entries (in increasing menu position) from menu; nil when two chosen
// entries name the same key.
func PickFields(menu [][2]string, n int) [][2]string {
	var out [][2]string
	lo := 0
	for k := 0; k < n; k++ {
		if lo > len(menu)-1 {
			return nil
		}
		i := sym.Choice("field", lo, len(menu)-1)
		lo = i + 1
		for _, e := range out {
			if e[0] == menu[i][0] {
				return nil
			}
		}
		out = append(out, menu[i])
	}
	return out
}

// DeterministicUniform is Deterministic for code with many map ranges: under the executor the
// reference execution iterates every map in ascending key order and the second execution uses
// one of `policies`-1 other uniform policies (descending, rotated by 1, 2, ...) for every map
// it ranges over; natively as Deterministic.
func DeterministicUniform(label string, policies int, f func() (string, util.MerklePatriciaTrieI)) {
	if !sym.Symbolic() {
		Deterministic(label, f)
		return
	}
	other := sym.Choice("mapOrderPolicy", 1, policies-1)
	sym.MapOrder(0)
	first, firstTrie := f()
	sym.MapOrder(other)
	r, t := f()
	sym.MapOrder(0)
	sym.Assert(r == first && SameWrites(firstTrie, t), label)
}

// EventsText renders the tags and indices of the events emitted so far, in order.
func EventsText(balances cstate.StateContextI) string {
	out := ""
	for _, e := range balances.GetEvents() {
		out += e.Tag.String() + ":" + e.Index + ";"
	}
	return out
}
