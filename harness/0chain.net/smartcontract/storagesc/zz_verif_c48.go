package storagesc

import (
	"strconv"

	"0chain.net/chaincore/block"
	"0chain.net/chaincore/transaction"
	"0chain.net/core/config"
	"0chain.net/zzverif/sym"
	"0chain.net/zzverif/symstate"
)

const vC48Stranger = "0b00000000000000000000000000000000000000000000000000000000000002"

// VerifC48_storageSettings: one update_settings call by the owner or a stranger with 1..2
// requested settings (an integer setting with an arbitrary value, another integer setting, an
// unknown name, an unparsable value), followed by the commit of the pending changes.
func VerifC48_storageSettings() {
	sym.MapOrder(2)
	ssc := &StorageSmartContract{}
	t := &transaction.Transaction{}
	t.ClientID = []string{vC06Owner, vC48Stranger}[sym.Choice("caller", 0, 1)]
	t.ToClientID = ADDRESS
	b := &block.Block{}
	b.Round = 7
	balances, _ := symstate.Balances(b, t)
	conf := vWConfig()
	conf.OwnerId = vC06Owner
	conf.Cost = map[string]int{"update_settings": 1}
	if err := ssc.saveConfig(balances, conf); err != nil {
		panic(err)
	}
	if err := conf.validate(); err != nil {
		panic("the harness configuration is valid: " + err.Error())
	}
	n := sym.Choice("entries", 1, 2)
	changes := config.NewStringMap()
	anyBad := false
	wantDelegates, wantFile, wantOwner := conf.MaxDelegates, conf.MaxFileSize, conf.OwnerId
	for i := 0; i < n; i++ {
		var key, val string
		bad := false
		switch sym.Choice("entry", 0, 4) {
		case 0:
			v := sym.Int("newMaxDelegates")
			key, val = "max_delegates", strconv.Itoa(v)
			wantDelegates = v
		case 1:
			v := sym.I64("newMaxFileSize")
			key, val = "max_file_size", strconv.FormatInt(v, 10)
			wantFile = v
		case 2:
			key, val, bad = "no_such_setting", "1", true
		case 3:
			key, val, bad = "time_unit", "soon", true
		case 4: // ownership handed to the stranger (possibly by the stranger itself)
			key, val = "owner_id", vC48Stranger
			wantOwner = vC48Stranger
		}
		if _, dup := changes.Fields[key]; dup {
			return
		}
		changes.Fields[key] = val
		anyBad = anyBad || bad
	}
	_, err := ssc.updateSettings(t, changes.Encode(), balances)
	pending, perr := getSettingChanges(balances)
	if perr != nil {
		sym.Fail("the pending setting changes stay readable")
		return
	}
	if err != nil {
		sym.Cover("rejected")
		sym.Assert(len(pending.Fields) == 0, "a rejected change leaves no pending setting change")
		cur, _ := ssc.getConfig(balances, true)
		sym.Assert(cur != nil && cur.MaxDelegates == conf.MaxDelegates && cur.MaxFileSize == conf.MaxFileSize, "a rejected change leaves the settings in force as they were")
		return
	}
	sym.Cover("accepted")
	sym.Assert(t.ClientID == vC06Owner, "storage settings change only through a transaction from the configured owner")
	sym.Assert(!anyBad, "a map with an unknown setting or an unparsable value is rejected as a whole")
	// the pending changes are applied by commit_settings_changes (a built-in transaction)
	_, cerr := ssc.commitSettingChanges(t, nil, balances)
	cur, gerr := ssc.getConfig(balances, true)
	if gerr != nil {
		sym.Fail("the settings stay readable")
		return
	}
	if cerr != nil {
		sym.Cover("commit-rejected")
		sym.Assert(cur.MaxDelegates == conf.MaxDelegates && cur.MaxFileSize == conf.MaxFileSize, "changes that fail validation at commit leave the settings in force as they were")
		return
	}
	sym.Cover("committed")
	sym.Assert(cur.validate() == nil, "committed storage settings pass validation")
	sym.Assert(cur.MaxDelegates == wantDelegates && cur.MaxFileSize == wantFile && cur.OwnerId == wantOwner, "exactly the requested settings change, to the requested values")
}
