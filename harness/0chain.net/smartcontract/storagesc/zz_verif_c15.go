package storagesc

import (
	"encoding/hex"

	"0chain.net/core/common"
	"0chain.net/core/encryption"
	"0chain.net/smartcontract/stakepool/spenum"
	"0chain.net/zzverif/sym"
	"github.com/0chain/common/core/currency"
)

// read price 3*2^14 tokens per GB: one 64 KB block costs exactly 3 tokens
const vC15Price = 3 * 16384

func vC15StakeTotal(w *vWorld, blobber string) uint64 {
	sp, err := getStakePool(spenum.Blobber, blobber, w.balances)
	if err != nil {
		panic(err)
	}
	total := uint64(sp.Reward)
	for _, p := range sp.Pools {
		total += uint64(p.Reward)
	}
	return total
}

// vC15Run: k read markers for one (client, blobber, allocation), each with an arbitrary
// counter and timestamp, signed by the client's key or by another key, or a replay of the
// previous marker; the read pool starts with an arbitrary balance.
func vC15Run(k int) {
	clientKey := encryption.NewBLS0ChainScheme()
	if err := clientKey.GenerateKeys(); err != nil {
		panic(err)
	}
	otherKey := encryption.NewBLS0ChainScheme()
	if err := otherKey.GenerateKeys(); err != nil {
		panic(err)
	}
	raw, err := hex.DecodeString(clientKey.GetPublicKey())
	if err != nil {
		panic(err)
	}
	clientID := encryption.Hash(raw)

	w := vWNew(2, vWClient, 0)
	allocID := w.vWAlloc(vWClient, "pk-client", 100*x10, vC15Price)
	blobber := vWBlobbers[0]
	rp := &readPool{Balance: currency.Coin(sym.U64("readPoolBalance"))}
	sym.Assume(rp.Balance < 1<<60)
	if err := rp.save(w.ssc.ID, clientID, w.balances); err != nil {
		panic(err)
	}

	lastCounter := int64(0) // the highest counter redeemed so far
	var prevInput []byte
	for i := 0; i < k; i++ {
		kind := sym.Choice("marker", 0, 2) // signed by the client, signed by another key, replay of the previous input
		rm := &ReadMarker{ClientID: clientID, ClientPublicKey: clientKey.GetPublicKey(), BlobberID: blobber, AllocationID: allocID, OwnerID: vWClient}
		rm.ReadCounter = sym.I64("counter")
		rm.Timestamp = common.Timestamp(sym.I64("timestamp"))
		sym.Assume(rm.ReadCounter < 1<<30 && rm.ReadCounter > -(1<<30))
		key := clientKey
		if kind == 1 {
			key = otherKey
		}
		sig, err := key.Sign(encryption.Hash(rm.GetHashData()))
		if err != nil {
			panic(err)
		}
		rm.Signature = sig
		input := (&ReadConnection{ReadMarker: rm}).Encode()
		if kind == 2 {
			if prevInput == nil {
				return
			}
			input = prevInput
		}
		prevInput = input
		var sent ReadConnection
		if err := sent.Decode(input); err != nil {
			panic(err)
		}

		before, _ := w.ssc.getReadPool(clientID, w.balances)
		stakeBefore := vC15StakeTotal(w, blobber)
		t := *w.txn
		t.ClientID = blobber
		t.Hash = []string{"aaaaaaaaaaaaaaaaaaaaaaaaaaaaaaaaaaaaaaaaaaaaaaaaaaaaaaaaaaaaaa11", "aaaaaaaaaaaaaaaaaaaaaaaaaaaaaaaaaaaaaaaaaaaaaaaaaaaaaaaaaaaaaa12", "aaaaaaaaaaaaaaaaaaaaaaaaaaaaaaaaaaaaaaaaaaaaaaaaaaaaaaaaaaaaaa13"}[i]

		_, cerr := w.ssc.commitBlobberRead(&t, input, w.balances)

		after, gerr := w.ssc.getReadPool(clientID, w.balances)
		if gerr != nil || before == nil {
			sym.Fail("the read pool stays readable")
			return
		}
		if cerr != nil {
			sym.Cover("rejected")
			sym.Assert(after.Balance == before.Balance, "a rejected marker charges nothing")
			continue
		}
		sym.Cover("redeemed")
		c := sent.ReadMarker.ReadCounter
		sym.Assert(kind != 1, "a marker not signed by the client's key is rejected")
		sym.Assert(c >= lastCounter, "read counters only move forward")
		newBlocks := uint64(0)
		if c > lastCounter {
			newBlocks = uint64(c - lastCounter)
		}
		if kind == 2 {
			sym.Cover("replay-accepted")
			sym.Assert(after.Balance == before.Balance, "a replayed marker charges nothing more")
		}
		sym.Assert(uint64(before.Balance)-uint64(after.Balance) == 3*newBlocks && after.Balance <= before.Balance,
			"a redeemed marker debits the read pool by exactly the read price times the newly read size")
		sym.Assert(vC15StakeTotal(w, blobber)-stakeBefore == 3*newBlocks, "what the client is charged is what the blobber's stake pool receives")
		if c > lastCounter {
			lastCounter = c
		}
	}
}

func VerifC15_reads2() { vC15Run(2) }
func VerifC15_reads3() { vC15Run(3) }
