package storagesc

import (
	"0chain.net/zzverif/sym"
	"0chain.net/zzverif/symstate"
)

// VerifC07_storageClones: Clone / CopyFrom of the storage contract's cacheable entities.
func VerifC07_storageClones() {
	switch sym.Choice("entity", 0, 1) {
	case 0:
		sa := vC08Alloc(true)
		symstate.CloneIsolated("allocation", sa, &StorageAllocation{})
	case 1:
		conf := &Config{OwnerId: "owner", Cost: map[string]int{"a": 1}}
		conf.StakePool = &stakePoolConfig{}
		conf.ReadPool = &readPoolConfig{}
		conf.WritePool = &writePoolConfig{}
		conf.BlockReward = &blockReward{}
		sym.Havoc(conf)
		symstate.CloneIsolated("storage settings", conf, &Config{})
	}
}
