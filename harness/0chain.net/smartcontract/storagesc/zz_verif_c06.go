package storagesc

import (
	"0chain.net/chaincore/block"
	"0chain.net/chaincore/transaction"
	"0chain.net/core/config"
	"0chain.net/zzverif/sym"
	"0chain.net/zzverif/symstate"
	"github.com/0chain/common/core/util"
)

const vC06Owner = "0a00000000000000000000000000000000000000000000000000000000000001"

func vC06Err(err error) string {
	if err == nil {
		return "<nil>"
	}
	return err.Error()
}

// vC06StorageSettings: the owner's update_settings with n requested fields (some possibly
// invalid, some differing only in surrounding blanks) executed repeatedly on the same state.
func vC06StorageSettings(n int) {
	menu := [][2]string{
		{"max_delegates", "7"}, {" max_delegates", "8"}, {"max_delegates ", "nine"}, {"no_such_setting", "1"},
		{"time_unit", "soon"}, {"max_charge", "x"}, {"cost.update_settings", "-"}, {"max_file_size", "40"}, {"owner_id", "zz"},
	}
	fields := symstate.PickFields(menu, n)
	if fields == nil {
		return
	}
	sym.Cover("fields-chosen")
	symstate.Deterministic("storage update_settings gives the same output, error and state on every execution", func() (string, util.MerklePatriciaTrieI) {
		ssc := &StorageSmartContract{}
		t := &transaction.Transaction{}
		t.ClientID = vC06Owner
		t.ToClientID = ADDRESS
		b := &block.Block{}
		b.Round = 7
		balances, trie := symstate.Balances(b, t)
		conf := newConfig()
		conf.OwnerId = vC06Owner
		conf.Cost = map[string]int{"update_settings": 1}
		if err := ssc.saveConfig(balances, conf); err != nil {
			panic(err)
		}
		changes := config.NewStringMap()
		for _, e := range fields {
			changes.Fields[e[0]] = e[1]
		}
		resp, err := ssc.updateSettings(t, changes.Encode(), balances)
		if err != nil {
			sym.Cover("rejected")
		} else {
			sym.Cover("accepted")
		}
		return resp + "|" + vC06Err(err), trie
	})
}

func VerifC06_storageSettings2() { vC06StorageSettings(2) }
func VerifC06_storageSettings3() { vC06StorageSettings(3) }
