package storagesc

import (
	"encoding/json"

	"0chain.net/chaincore/transaction"
	"0chain.net/smartcontract/dto"
	"0chain.net/smartcontract/stakepool/spenum"
	"0chain.net/zzverif/sym"
	"github.com/0chain/common/core/currency"
)

// vC13Check: for every blobber, allocated size = sum of its sizes in the open allocations and
// <= capacity; its stake pool's total offers = sum of those allocations' offers.
func vC13Check(w *vWorld, open []string, step string, otherSize []int64, otherOffers []uint64) {
	for bi, id := range vWBlobbers[:2] {
		sn, err := getBlobber(id, w.balances)
		if err != nil {
			panic(err)
		}
		sp, err := getStakePool(spenum.Blobber, id, w.balances)
		if err != nil {
			panic(err)
		}
		size := otherSize[bi]
		offers := otherOffers[bi]
		for _, a := range open {
			sa, err := w.ssc.getAllocation(a, w.balances)
			if err != nil {
				sym.Fail(step + ": an open allocation stays readable")
				return
			}
			if d, ok := sa.mustBase().BlobberAllocsMap[id]; ok {
				size += d.Size
				offers += uint64(d.Offer())
			}
		}
		b := sn.mustBase()
		sym.Assert(b.Allocated == size, step+": a blobber's allocated size is the sum of its sizes in the open allocations")
		sym.Assert(b.Allocated <= b.Capacity, step+": allocated size stays within capacity")
		sym.Assert(uint64(sp.TotalOffers) == offers, step+": the stake pool's total offers are the sum of the open allocations' offers")
	}
}

// vC13Run: allocation A exists; k operations, each one of: blobber 0 changes its write price
// (halved, unchanged or doubled), A's owner extends A, A's owner grows A by 1 GB, another client
// creates allocation B, A's owner cancels A, B's owner cancels B.
func vC13Run(k int) {
	w := vWNew(2, vWClient, 0)
	a := w.vWAlloc(vWClient, "pk-client", 100*x10, 0)
	open := []string{a}
	b := ""
	// the blobbers also serve allocations outside this history: an arbitrary amount of space
	// and offers is already taken, within an arbitrary capacity
	otherSize := make([]int64, 2)
	otherOffers := make([]uint64, 2)
	for bi, id := range vWBlobbers[:2] {
		otherSize[bi] = sym.I64("otherAllocated")
		otherOffers[bi] = sym.U64("otherOffers")
		capacity := sym.I64("capacity")
		sym.Assume(otherSize[bi] >= 0 && otherSize[bi] < 1<<50 && otherOffers[bi] < 1<<60 && capacity < 1<<51)
		sn, err := getBlobber(id, w.balances)
		if err != nil {
			panic(err)
		}
		_ = sn.mustUpdateBase(func(nb *storageNodeBase) error {
			nb.Allocated += otherSize[bi]
			nb.Capacity = capacity
			return nil
		})
		sym.Assume(sn.mustBase().Allocated <= capacity)
		if _, err := w.balances.InsertTrieNode(sn.GetKey(), sn); err != nil {
			panic(err)
		}
		sp, err := getStakePool(spenum.Blobber, id, w.balances)
		if err != nil {
			panic(err)
		}
		sp.TotalOffers += currency.Coin(otherOffers[bi])
		if err := sp.Save(spenum.Blobber, id, w.balances); err != nil {
			panic(err)
		}
	}
	vC13Check(w, open, "start", otherSize, otherOffers)
	for i := 0; i < k; i++ {
		op := sym.Choice("op", 0, 5)
		t := &transaction.Transaction{}
		t.ToClientID = ADDRESS
		t.CreationDate = vWNow + 100*int64ToTS(i+1)
		t.Hash = []string{"aaaaaaaaaaaaaaaaaaaaaaaaaaaaaaaaaaaaaaaaaaaaaaaaaaaaaaaaaaaaaa31", "aaaaaaaaaaaaaaaaaaaaaaaaaaaaaaaaaaaaaaaaaaaaaaaaaaaaaaaaaaaaaa32", "aaaaaaaaaaaaaaaaaaaaaaaaaaaaaaaaaaaaaaaaaaaaaaaaaaaaaaaaaaaaaa33"}[i]
		var err error
		var view = w.trie
		step := []string{"price change", "extend", "grow", "second allocation", "cancel", "cancel second"}[op]
		switch op {
		case 0:
			// (prices enter float divisions by the price: concrete representatives)
			price := []currency.Coin{x10 / 200, x10 / 100, x10 / 50}[sym.Choice("newWritePrice", 0, 2)]
			upd := &dto.StorageDtoNode{}
			upd.ID = vWBlobbers[0]
			upd.Terms = &dto.Terms{WritePrice: &price}
			input, _ := json.Marshal(upd)
			t.ClientID = "d" + vWBlobbers[0][1:]
			balances, v := w.vWAttempt(t)
			_, err = w.ssc.updateBlobberSettings(t, input, balances)
			view = v
		case 1, 2:
			req := &updateAllocationRequest{ID: a, OwnerID: vWClient, Extend: op == 1}
			if op == 2 {
				req.Size = vWGB
			}
			input, _ := json.Marshal(req)
			t.ClientID = vWClient
			t.Value = 10 * x10
			balances, v := w.vWAttempt(t)
			_, err = w.ssc.updateAllocationRequest(t, input, balances)
			view = v
		case 3:
			if b != "" {
				return
			}
			w2 := *w
			balances, v := w.vWAttempt(t)
			w2.balances = balances
			func() {
				defer func() {
					if r := recover(); r != nil {
						err = errRecovered
					}
				}()
				t.Hash = "b110c00000000000000000000000000000000000000000000000000000000002"
				b = w2.vWAllocAs(t, vWClient2, "pk-client2", 100*x10)
			}()
			view = v
			if err == nil {
				open = append(open, b)
			} else {
				b = ""
			}
		case 4, 5:
			id, owner := a, vWClient
			if op == 5 {
				id, owner = b, vWClient2
			}
			if id == "" {
				return
			}
			t.ClientID = owner
			balances, v := w.vWAttempt(t)
			_, err = w.ssc.cancelAllocationRequest(t, []byte(`{"allocation_id":"`+id+`"}`), balances)
			view = v
			if err == nil {
				var rest []string
				for _, x := range open {
					if x != id {
						rest = append(rest, x)
					}
				}
				open = rest
				if op == 4 {
					a = ""
				} else {
					b = ""
				}
			}
		}
		if err != nil {
			sym.Cover("rejected: " + step)
			continue
		}
		if (op == 1 || op == 2 || op == 4) && a == "" && op != 4 {
			return
		}
		w.adopt(view, t)
		sym.Cover("done: " + step)
		vC13Check(w, open, step, otherSize, otherOffers)
	}
}

func VerifC13_ops2() { vC13Run(2) }
func VerifC13_ops3() { vC13Run(3) }
