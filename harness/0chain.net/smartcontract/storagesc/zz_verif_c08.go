package storagesc

import (
	"0chain.net/smartcontract/stakepool"
	"0chain.net/zzverif/sym"
	"github.com/0chain/common/core/util"
)

// vC08RoundTrip: x (with arbitrary numeric leaves) is encoded, decoded into fresh, compared,
// and the decoded value re-encoded.
func vC08RoundTrip(label string, x, fresh util.MPTSerializable) {
	b, err := x.MarshalMsg(nil)
	if err != nil {
		sym.Fail(label + " encodes")
		return
	}
	if _, err := fresh.UnmarshalMsg(b); err != nil {
		sym.Fail(label + " decodes")
		return
	}
	sym.Cover(label)
	sym.Assert(sym.DeepEqual(x, fresh), label+": the decoded value equals the stored one")
	b2, err := fresh.MarshalMsg(nil)
	sym.Assert(err == nil && sym.DeepEqual(b, b2), label+": re-encoding the decoded value yields identical bytes")
}

func vC08Alloc(v2 bool) *StorageAllocation {
	terms := Terms{}
	ba := func(id string) *BlobberAllocation {
		return &BlobberAllocation{BlobberID: id, AllocationID: "alloc1", Terms: terms}
	}
	sa := &StorageAllocation{}
	if v2 {
		e := &storageAllocationV2{ID: "alloc1", Tx: "tx", Owner: "owner", OwnerPublicKey: "pk"}
		e.BlobberAllocs = []*BlobberAllocation{ba("b1"), ba("b2")}
		e.Stats = &StorageAllocationStats{}
		sym.Havoc(e)
		e.Version = "v2"
		e.BlobberAllocsMap = map[string]*BlobberAllocation{"b1": e.BlobberAllocs[0], "b2": e.BlobberAllocs[1]}
		sa.SetEntity(e)
	} else {
		e := &storageAllocationV1{ID: "alloc1", Tx: "tx", Owner: "owner", OwnerPublicKey: "pk"}
		e.BlobberAllocs = []*BlobberAllocation{ba("b1"), ba("b2")}
		e.Stats = &StorageAllocationStats{}
		sym.Havoc(e)
		e.BlobberAllocsMap = map[string]*BlobberAllocation{"b1": e.BlobberAllocs[0], "b2": e.BlobberAllocs[1]}
		sa.SetEntity(e)
	}
	return sa
}

// VerifC08_allocation: allocations stored under both registered schema versions.
func VerifC08_allocation() {
	v2 := sym.Bool("schemaV2")
	sa := vC08Alloc(v2)
	if v2 {
		vC08RoundTrip("allocation (schema v2)", sa, &StorageAllocation{})
	} else {
		vC08RoundTrip("allocation (schema v1)", sa, &StorageAllocation{})
	}
}

// VerifC08_nodes: blobber records under every registered schema version, validators, challenge
// pools, read pools and blobber stake pools.
func VerifC08_nodes() {
	switch sym.Choice("entity", 0, 6) {
	case 0:
		e := &storageNodeV1{BaseURL: "http://b"}
		e.ID = "b1"
		sym.Havoc(e)
		sn := &StorageNode{}
		sn.SetEntity(e)
		vC08RoundTrip("blobber (schema v1)", sn, &StorageNode{})
	case 1:
		e := &storageNodeV2{BaseURL: "http://b"}
		e.ID = "b1"
		v := true
		e.IsRestricted = &v
		sym.Havoc(e)
		e.Version = "v2"
		sn := &StorageNode{}
		sn.SetEntity(e)
		vC08RoundTrip("blobber (schema v2)", sn, &StorageNode{})
	case 2:
		e := &storageNodeV3{BaseURL: "http://b"}
		e.ID = "b1"
		sym.Havoc(e)
		e.Version = "v3"
		sn := &StorageNode{}
		sn.SetEntity(e)
		vC08RoundTrip("blobber (schema v3)", sn, &StorageNode{})
	case 3:
		v := &ValidationNode{BaseURL: "http://v"}
		v.ID = "v1"
		sym.Havoc(v)
		vC08RoundTrip("validator", v, &ValidationNode{})
	case 4:
		cp := newChallengePool()
		cp.ID = "cp1"
		sym.Havoc(cp)
		vC08RoundTrip("challenge pool", cp, newChallengePool())
	case 5:
		rp := &readPool{}
		sym.Havoc(rp)
		vC08RoundTrip("read pool", rp, &readPool{})
	case 6:
		sp := newStakePool()
		sp.Settings.DelegateWallet = "w"
		sp.Pools["d1"] = &stakepool.DelegatePool{DelegateID: "d1"}
		sp.Pools["d2"] = &stakepool.DelegatePool{DelegateID: "d2"}
		sym.Havoc(sp)
		sp.isOfferChanged = false
		vC08RoundTrip("blobber stake pool", sp, newStakePool())
	}
}

// VerifC08_migrate: an entity stored under an older schema version migrates to the next
// version without losing any of the fields the versions share (their common base view).
func VerifC08_migrate() {
	switch sym.Choice("migration", 0, 2) {
	case 0:
		old := &storageNodeV1{BaseURL: "http://b"}
		old.ID = "b1"
		sym.Havoc(old)
		nw := &storageNodeV2{}
		sym.Assert(nw.MigrateFrom(old) == nil, "blobber v1 -> v2 migrates")
		sym.Assert(sym.DeepEqual(old.GetBase(), nw.GetBase()), "blobber v1 -> v2: no common field is lost")
		sym.Cover("blobber v1 -> v2")
	case 1:
		old := &storageNodeV2{BaseURL: "http://b"}
		old.ID = "b1"
		v := true
		old.IsRestricted = &v
		sym.Havoc(old)
		old.Version = "v2"
		nw := &storageNodeV3{}
		sym.Assert(nw.MigrateFrom(old) == nil, "blobber v2 -> v3 migrates")
		sym.Assert(sym.DeepEqual(old.GetBase(), nw.GetBase()), "blobber v2 -> v3: no common field is lost")
		// fields the two versions share beyond the base view
		sym.Assert(nw.IsRestricted != nil && *nw.IsRestricted == *old.IsRestricted, "blobber v2 -> v3: the restricted flag (common to v2 and v3) is kept")
		sym.Cover("blobber v2 -> v3")
	case 2:
		sa := vC08Alloc(false)
		old := sa.Entity().(*storageAllocationV1)
		nw := &storageAllocationV2{}
		sym.Assert(nw.MigrateFrom(old) == nil, "allocation v1 -> v2 migrates")
		sym.Assert(sym.DeepEqual(old.GetBase(), nw.GetBase()), "allocation v1 -> v2: no common field is lost")
		sym.Cover("allocation v1 -> v2")
	}
}
