package storagesc

import (
	"encoding/hex"
	"encoding/json"
	"fmt"

	"0chain.net/core/encryption"
	"0chain.net/zzverif/sym"
	"github.com/0chain/common/core/currency"
)

func vC24Sign(key encryption.SignatureScheme, m *freeStorageMarker) {
	var ids string
	for _, b := range m.Blobbers {
		ids += b
	}
	text := fmt.Sprintf("%s:%f:%d:%s", m.Recipient, m.FreeTokens, m.Nonce, ids)
	sig, err := key.Sign(hex.EncodeToString([]byte(text)))
	if err != nil {
		panic(err)
	}
	m.Signature = sig
}

func vC24Has(nonces []int64, n int64) bool {
	for _, x := range nonces {
		if x == n {
			return true
		}
	}
	return false
}

// VerifC24_redeem: one free-storage redemption (and then a replay of the same marker) against
// an assigner record with arbitrary limits, arbitrary amount already redeemed and arbitrary
// previously redeemed nonces; the marker is for the caller or somebody else, names a
// registered or an unregistered assigner, carries an arbitrary nonce and one of several
// amounts, and is signed by the assigner's key, by another key, or by the assigner's key over
// a different amount; the redeeming transaction carries an arbitrary value.
func VerifC24_redeem() {
	w := vWNew(2, vWClient, currency.Coin(sym.U64("txnValue")))

	assignerKey := encryption.NewBLS0ChainScheme()
	if err := assignerKey.GenerateKeys(); err != nil {
		panic(err)
	}
	otherKey := encryption.NewBLS0ChainScheme()
	if err := otherKey.GenerateKeys(); err != nil {
		panic(err)
	}
	pre := &freeStorageAssigner{ClientId: "assigner", PublicKey: assignerKey.GetPublicKey()}
	pre.IndividualLimit = currency.Coin(sym.U64("individualLimit"))
	pre.TotalLimit = currency.Coin(sym.U64("totalLimit"))
	pre.CurrentRedeemed = currency.Coin(sym.U64("alreadyRedeemed"))
	pre.RedeemedNonces = []int64{sym.I64("usedNonce1"), sym.I64("usedNonce2")}
	// what registration and earlier redemptions establish
	sym.Assume(pre.TotalLimit <= w.conf.MaxTotalFreeAllocation && pre.IndividualLimit <= w.conf.MaxIndividualFreeAllocation)
	sym.Assume(pre.CurrentRedeemed <= pre.TotalLimit)
	if err := pre.save(w.ssc.ID, w.balances); err != nil {
		panic(err)
	}

	m := &freeStorageMarker{Assigner: "assigner", Recipient: vWClient, Nonce: sym.I64("nonce"), Blobbers: vWBlobbers[:2]}
	m.FreeTokens = []float64{0.5, 1, 2.5}[sym.Choice("tokens", 0, 2)]
	if sym.Bool("markerForSomebodyElse") {
		m.Recipient = vWClient2
	}
	registered := true
	if sym.Bool("unregisteredAssigner") {
		m.Assigner = "stranger"
		registered = false
	}
	sigKind := sym.Choice("signature", 0, 2)
	switch sigKind {
	case 0:
		vC24Sign(assignerKey, m)
	case 1:
		vC24Sign(otherKey, m)
	case 2: // signed by the assigner, but for a smaller amount than the marker now claims
		claimed := m.FreeTokens
		m.FreeTokens = 0.25
		vC24Sign(assignerKey, m)
		m.FreeTokens = claimed
	}
	coin, err := currency.ParseZCN(m.FreeTokens)
	if err != nil {
		panic(err)
	}
	mb, _ := json.Marshal(m)
	input, _ := json.Marshal(&freeStorageAllocationInput{RecipientPublicKey: "pk-client", Marker: string(mb), Blobbers: m.Blobbers})

	_, rerr := w.ssc.freeAllocationRequest(w.txn, input, w.balances)

	post, gerr := w.ssc.getFreeStorageAssigner("assigner", w.balances)
	if gerr != nil {
		sym.Fail("the assigner record stays readable")
		return
	}
	if rerr != nil {
		sym.Cover("rejected")
		if registered && sigKind == 0 && m.Recipient == vWClient && len(rerr.Error()) > 0 && rerr.Error()[:40] != "free_allocation_failed: marker verificat" {
			sym.Observe("err", rerr.Error())
		}
		sym.Assert(post.CurrentRedeemed == pre.CurrentRedeemed && len(post.RedeemedNonces) == 2, "a rejected redemption leaves the assigner's record unchanged")
		return
	}
	sym.Cover("granted")
	sym.Assert(m.Recipient == vWClient, "a marker is redeemed only by its named recipient")
	sym.Assert(registered && sigKind == 0, "a grant needs a valid signature of a registered assigner over exactly this marker")
	sym.Assert(!vC24Has(pre.RedeemedNonces, m.Nonce), "a marker nonce is redeemed at most once")
	sym.Assert(coin <= pre.IndividualLimit, "each grant is within the assigner's individual limit")
	sym.Assert(post.CurrentRedeemed <= post.TotalLimit, "the assigner's total redeemed amount never exceeds its total limit")
	sym.Assert(uint64(post.CurrentRedeemed) == uint64(pre.CurrentRedeemed)+uint64(coin), "the redeemed total grows by exactly the marker's amount")
	sym.Assert(vC24Has(post.RedeemedNonces, m.Nonce) && len(post.RedeemedNonces) == 3, "the redeemed nonce is recorded")
	sym.Assert(post.TotalLimit == pre.TotalLimit && post.IndividualLimit == pre.IndividualLimit, "a redemption does not change the assigner's limits")

	// the same marker again, in a later transaction
	w.txn.Hash = "aaaaaaaaaaaaaaaaaaaaaaaaaaaaaaaaaaaaaaaaaaaaaaaaaaaaaaaaaaaaaaa2"
	_, rerr2 := w.ssc.freeAllocationRequest(w.txn, input, w.balances)
	sym.Assert(rerr2 != nil, "replaying a redeemed marker is rejected")
	post2, _ := w.ssc.getFreeStorageAssigner("assigner", w.balances)
	sym.Assert(post2 != nil && post2.CurrentRedeemed == post.CurrentRedeemed, "a replay redeems nothing")
}

// VerifC24_sequence: two validly signed markers of one assigner (arbitrary nonces, possibly
// equal; amounts from the menu) redeemed one after the other by their recipient, from an
// arbitrary assigner record.
func VerifC24_sequence() {
	w := vWNew(2, vWClient, currency.Coin(sym.U64("txnValue")))
	assignerKey := encryption.NewBLS0ChainScheme()
	if err := assignerKey.GenerateKeys(); err != nil {
		panic(err)
	}
	pre := &freeStorageAssigner{ClientId: "assigner", PublicKey: assignerKey.GetPublicKey()}
	pre.IndividualLimit = currency.Coin(sym.U64("individualLimit"))
	pre.TotalLimit = currency.Coin(sym.U64("totalLimit"))
	pre.CurrentRedeemed = currency.Coin(sym.U64("alreadyRedeemed"))
	sym.Assume(pre.TotalLimit <= w.conf.MaxTotalFreeAllocation && pre.IndividualLimit <= w.conf.MaxIndividualFreeAllocation)
	sym.Assume(pre.CurrentRedeemed <= pre.TotalLimit)
	if err := pre.save(w.ssc.ID, w.balances); err != nil {
		panic(err)
	}
	granted := uint64(0)
	var nonces []int64
	for i := 0; i < 2; i++ {
		m := &freeStorageMarker{Assigner: "assigner", Recipient: vWClient, Nonce: sym.I64("nonce"), Blobbers: vWBlobbers[:2]}
		m.FreeTokens = []float64{0.5, 1, 2.5}[sym.Choice("tokens", 0, 2)]
		vC24Sign(assignerKey, m)
		coin, _ := currency.ParseZCN(m.FreeTokens)
		mb, _ := json.Marshal(m)
		input, _ := json.Marshal(&freeStorageAllocationInput{RecipientPublicKey: "pk-client", Marker: string(mb), Blobbers: m.Blobbers})
		w.txn.Hash = []string{"aaaaaaaaaaaaaaaaaaaaaaaaaaaaaaaaaaaaaaaaaaaaaaaaaaaaaaaaaaaaaaa1", "aaaaaaaaaaaaaaaaaaaaaaaaaaaaaaaaaaaaaaaaaaaaaaaaaaaaaaaaaaaaaaa2"}[i]
		w.txn.Value = currency.Coin(sym.U64("txnValue"))
		_, rerr := w.ssc.freeAllocationRequest(w.txn, input, w.balances)
		if rerr == nil {
			sym.Assert(!vC24Has(nonces, m.Nonce), "a marker nonce is redeemed at most once")
			sym.Assert(coin <= pre.IndividualLimit, "each grant is within the assigner's individual limit")
			nonces = append(nonces, m.Nonce)
			granted += uint64(coin)
		}
	}
	post, gerr := w.ssc.getFreeStorageAssigner("assigner", w.balances)
	if gerr != nil {
		sym.Fail("the assigner record stays readable")
		return
	}
	if len(nonces) == 2 {
		sym.Cover("both-granted")
	}
	sym.Assert(uint64(post.CurrentRedeemed) == uint64(pre.CurrentRedeemed)+granted, "the redeemed total is the sum of the granted markers")
	sym.Assert(post.CurrentRedeemed <= post.TotalLimit, "the assigner's total redeemed amount never exceeds its total limit")
	sym.Assert(len(post.RedeemedNonces) == len(nonces), "exactly the granted nonces are recorded")
}

// VerifC24_reregister: the owner registers an assigner (real add_free_storage_assigner), a
// marker is redeemed, then the owner re-registers the assigner - with the same key, with
// another key, or with another key and then the first key again - possibly with new limits;
// the redeemed marker presented again must still be rejected and the redeemed total kept.
func VerifC24_reregister() {
	w := vWNew(2, vWClient, 0)
	k1 := encryption.NewBLS0ChainScheme()
	if err := k1.GenerateKeys(); err != nil {
		panic(err)
	}
	k2 := encryption.NewBLS0ChainScheme()
	if err := k2.GenerateKeys(); err != nil {
		panic(err)
	}
	register := func(pk string, individual, total float64) error {
		in, _ := json.Marshal(&newFreeStorageAssignerInfo{Name: "assigner", PublicKey: pk, IndividualLimit: individual, TotalLimit: total})
		t := *w.txn
		t.ClientID = vWOwner
		_, err := w.ssc.addFreeStorageAssigner(&t, in, w.balances)
		return err
	}
	if err := register(k1.GetPublicKey(), 2, 10); err != nil {
		panic("registration: " + err.Error())
	}
	m := &freeStorageMarker{Assigner: "assigner", Recipient: vWClient, Nonce: sym.I64("nonce"), Blobbers: vWBlobbers[:2], FreeTokens: 1}
	vC24Sign(k1, m)
	mb, _ := json.Marshal(m)
	input, _ := json.Marshal(&freeStorageAllocationInput{RecipientPublicKey: "pk-client", Marker: string(mb), Blobbers: m.Blobbers})
	if _, err := w.ssc.freeAllocationRequest(w.txn, input, w.balances); err != nil {
		panic("first redemption: " + err.Error())
	}
	a1, _ := w.ssc.getFreeStorageAssigner("assigner", w.balances)
	redeemed := a1.CurrentRedeemed

	switch sym.Choice("reregistration", 0, 3) {
	case 0: // none
	case 1: // same key, new limits
		if err := register(k1.GetPublicKey(), 3, 20); err != nil {
			panic(err)
		}
	case 2: // key rotated
		if err := register(k2.GetPublicKey(), 2, 10); err != nil {
			panic(err)
		}
	case 3: // key rotated and rolled back
		if err := register(k2.GetPublicKey(), 2, 10); err != nil {
			panic(err)
		}
		if err := register(k1.GetPublicKey(), 2, 10); err != nil {
			panic(err)
		}
	}
	sym.Cover("reregistered")
	a2, err := w.ssc.getFreeStorageAssigner("assigner", w.balances)
	if err != nil {
		sym.Fail("the assigner record stays readable")
		return
	}
	sym.Assert(a2.CurrentRedeemed == redeemed && vC24Has(a2.RedeemedNonces, m.Nonce), "re-registering an assigner keeps what it has already redeemed")
	w.txn.Hash = "aaaaaaaaaaaaaaaaaaaaaaaaaaaaaaaaaaaaaaaaaaaaaaaaaaaaaaaaaaaaaaa2"
	_, rerr := w.ssc.freeAllocationRequest(w.txn, input, w.balances)
	sym.Assert(rerr != nil, "a redeemed marker stays redeemed whatever the owner re-registers")
}
