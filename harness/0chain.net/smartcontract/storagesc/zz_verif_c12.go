package storagesc

import (
	"encoding/json"

	"0chain.net/chaincore/transaction"
	"0chain.net/core/common"
	"0chain.net/smartcontract/stakepool"
	"0chain.net/smartcontract/stakepool/spenum"
	"0chain.net/zzverif/sym"
	"github.com/0chain/common/core/currency"
)

const vC12Validator = "7a00000000000000000000000000000000000000000000000000000000000001"

// vC12Liabilities: what the contract owes around one allocation: write pool, challenge pool,
// and the rewards held in the stake pools of its blobbers and of the validator.
func vC12Liabilities(w *vWorld, allocID string) (writePool, challenge, rewards uint64, ok bool) {
	if rp, err := w.ssc.getReadPool(vWClient, w.balances); err == nil {
		rewards += uint64(rp.Balance) // (the owner's read pool is a liability as well)
	}
	if sa, err := w.ssc.getAllocation(allocID, w.balances); err == nil {
		writePool = uint64(sa.mustBase().WritePool)
		ok = true
	}
	if cp, err := w.ssc.getChallengePool(allocID, w.balances); err == nil {
		challenge = uint64(cp.Balance)
	}
	for _, id := range vWBlobbers[:3] {
		if sp, err := getStakePool(spenum.Blobber, id, w.balances); err == nil {
			rewards += uint64(sp.Reward)
			for _, p := range sp.Pools {
				rewards += uint64(p.Reward)
			}
		}
	}
	if sp, err := getStakePool(spenum.Validator, vC12Validator, w.balances); err == nil {
		rewards += uint64(sp.Reward)
		for _, p := range sp.Pools {
			rewards += uint64(p.Reward)
		}
	}
	return
}

// vC12Check: the challenge pool balance equals the sum of the blobbers' outstanding values.
func vC12Check(w *vWorld, allocID, step string) {
	sa, err := w.ssc.getAllocation(allocID, w.balances)
	if err != nil {
		sym.Fail(step + ": the allocation stays readable")
		return
	}
	cp, err := w.ssc.getChallengePool(allocID, w.balances)
	if err != nil {
		sym.Fail(step + ": the challenge pool of an open allocation exists")
		return
	}
	sum := uint64(0)
	for _, d := range sa.mustBase().BlobberAllocs {
		sum += uint64(d.ChallengePoolIntegralValue)
	}
	sym.Assert(uint64(cp.Balance) == sum, step+": the challenge pool balance equals the sum of the blobbers' outstanding challenge values")
}

// vC12Run: an open allocation in an arbitrary state that satisfies the equality (arbitrary
// outstanding value per blobber, challenge pool = their sum, arbitrary write pool), then k
// operations, each one of: upload to blobber b (1 GB or 64 KB), delete from blobber b, a passed
// challenge of blobber b, a failed-then-passed challenge of blobber b (penalty), cancel.
func vC12Run(k int, prop string) {
	w := vWNew(3, vWClient, 0)
	allocID := w.vWAlloc(vWClient, "pk-client", 100*x10, 0)
	vsp := newStakePool()
	vsp.Settings = stakepool.Settings{DelegateWallet: "dv", MaxNumDelegates: 10, ServiceChargeRatio: 0.1}
	vsp.Pools["ev"] = &stakepool.DelegatePool{DelegateID: "ev", Balance: 10 * x10, Status: spenum.Active, StakedAt: vWNow}
	if err := vsp.Save(spenum.Validator, vC12Validator, w.balances); err != nil {
		panic(err)
	}
	sa, err := w.ssc.getAllocation(allocID, w.balances)
	if err != nil {
		panic(err)
	}
	outstanding := []currency.Coin{currency.Coin(sym.U64("outstanding")), currency.Coin(sym.U64("outstanding"))}
	pool := currency.Coin(sym.U64("writePool"))
	sym.Assume(outstanding[0] < 1<<45 && outstanding[1] < 1<<45 && pool < 1<<50)
	_ = sa.mustUpdateBase(func(b *storageAllocationBase) error {
		b.WritePool = pool
		for i, d := range b.BlobberAllocs {
			d.ChallengePoolIntegralValue = outstanding[i]
			d.LatestFinalizedChallCreatedAt = vWNow + 1000
			d.LatestSuccessfulChallCreatedAt = vWNow + 1000
		}
		return nil
	})
	if _, err := w.balances.InsertTrieNode(sa.GetKey(w.ssc.ID), sa); err != nil {
		panic(err)
	}
	cp, err := w.ssc.getChallengePool(allocID, w.balances)
	if err != nil {
		panic(err)
	}
	cp.Balance = outstanding[0] + outstanding[1]
	if err := cp.save(w.ssc.ID, sa.mustBase(), w.balances); err != nil {
		panic(err)
	}
	now := vWNow + 2000
	closed := false
	for i := 0; i < k; i++ {
		nops := 6
		if prop == "C09" {
			nops = 8 // also deposits: write-pool lock, read-pool lock
		}
		op := sym.Choice("op", 0, nops)
		bi := sym.Choice("blobber", 0, 1)
		step := []string{"upload", "small upload", "delete", "challenge passed", "challenge failed then passed", "cancel", "replace blobber", "write pool lock", "read pool lock"}[op]
		t := &transaction.Transaction{}
		t.ClientID = vWClient
		t.ToClientID = ADDRESS
		t.CreationDate = now
		t.Hash = []string{"aaaaaaaaaaaaaaaaaaaaaaaaaaaaaaaaaaaaaaaaaaaaaaaaaaaaaaaaaaaaaa41", "aaaaaaaaaaaaaaaaaaaaaaaaaaaaaaaaaaaaaaaaaaaaaaaaaaaaaaaaaaaaaa42", "aaaaaaaaaaaaaaaaaaaaaaaaaaaaaaaaaaaaaaaaaaaaaaaaaaaaaaaaaaaaaa43"}[i]
		if closed {
			return
		}
		wpB, chB, rwB, _ := vC12Liabilities(w, allocID)
		balances, view := w.vWAttempt(t)
		w2 := *w
		w2.balances = balances
		var operr error
		if op == 5 {
			_, operr = w.ssc.cancelAllocationRequest(t, []byte(`{"allocation_id":"`+allocID+`"}`), balances)
		} else if op == 6 {
			// the allocation's blobber bi (healthy, or killed beforehand) is replaced by blobber 3
			if sym.Bool("replacedBlobberWasKilled") {
				step = "replace killed blobber"
				sn, err := getBlobber(vWBlobbers[bi], balances)
				if err != nil {
					panic(err)
				}
				_ = sn.mustUpdateBase(func(b *storageNodeBase) error {
					b.Kill()
					return nil
				})
				if _, err := balances.InsertTrieNode(sn.GetKey(), sn); err != nil {
					panic(err)
				}
			}
			req := &updateAllocationRequest{ID: allocID, OwnerID: vWClient, AddBlobberId: vWBlobbers[2], RemoveBlobberId: vWBlobbers[bi]}
			input, _ := json.Marshal(req)
			t.Value = 10 * x10
			_, operr = w.ssc.updateAllocationRequest(t, input, balances)
		} else if op == 7 {
			t.Value = currency.Coin(sym.U64("lockValue"))
			sym.Assume(t.Value < 1<<40)
			_, operr = w.ssc.writePoolLock(t, []byte(`{"allocation_id":"`+allocID+`"}`), balances)
		} else if op == 8 {
			t.Value = currency.Coin(sym.U64("lockValue"))
			sym.Assume(t.Value < 1<<40)
			_, operr = w.ssc.readPoolLock(t, []byte(`{}`), balances)
		} else {
			sa, err := w.ssc.getAllocation(allocID, balances)
			if err != nil {
				panic(err)
			}
			alloc := sa.mustBase()
			d := alloc.BlobberAllocs[bi]
			switch op {
			case 0:
				_, operr = w.ssc.commitMoveTokens(w.conf, alloc, vWGB, d, now, now, balances)
			case 1:
				_, operr = w.ssc.commitMoveTokens(w.conf, alloc, 1, d, now, now, balances)
			case 2:
				_, operr = w.ssc.commitMoveTokens(w.conf, alloc, -vWGB/2, d, now, now, balances)
			case 3:
				last := d.LatestFinalizedChallCreatedAt
				d.LatestFinalizedChallCreatedAt = now
				d.LatestSuccessfulChallCreatedAt = now
				operr = w.ssc.blobberReward(alloc, last, d, []string{vC12Validator}, balances, allocID)
			case 4:
				// a challenge created at now-500 failed (finalized, not successful); the next one passes now
				lastOK := d.LatestSuccessfulChallCreatedAt
				failedAt := common.Timestamp(now - 500)
				d.LatestFinalizedChallCreatedAt = failedAt
				operr = w.ssc.blobberPenalty(alloc, lastOK, failedAt, d, []string{vC12Validator}, balances, allocID)
				if operr == nil {
					d.LatestFinalizedChallCreatedAt = now
					d.LatestSuccessfulChallCreatedAt = now
					operr = w.ssc.blobberReward(alloc, failedAt, d, []string{vC12Validator}, balances, allocID)
				}
			}
			if operr == nil {
				// the callers (commit_connection, verify_challenge) then store the allocation
				_ = sa.mustUpdateBase(func(b *storageAllocationBase) error {
					alloc.deepCopy(b)
					return nil
				})
				if _, err := balances.InsertTrieNode(sa.GetKey(w.ssc.ID), sa); err != nil {
					panic(err)
				}
			}
		}
		if operr != nil {
			sym.Cover("rejected: " + step)
			continue
		}
		transfersOut, transfersIn := uint64(0), uint64(0)
		for _, tr := range balances.GetTransfers() {
			if tr.ClientID == ADDRESS {
				transfersOut += uint64(tr.Amount)
			}
			if tr.ToClientID == ADDRESS {
				transfersIn += uint64(tr.Amount)
			}
		}
		w.adopt(view, t)
		sym.Cover("done: " + step)
		now += 1000
		wpA, chA, rwA, open := vC12Liabilities(w, allocID)
		if prop == "C09" {
			sym.Assert(wpA+chA+rwA+transfersOut <= wpB+chB+rwB+transfersIn, step+": what the contract owes (write, challenge and read pools, unpaid rewards) grows by no more than the tokens the transaction moved into its wallet")
			if op >= 7 {
				sym.Assert(transfersIn == uint64(t.Value), step+": a lock deposits exactly the transaction value")
			}
		}
		if op == 5 {
			closed = true
			_, cperr := w.ssc.getChallengePool(allocID, w.balances)
			if prop == "C12" {
				sym.Assert(!open && cperr != nil, "closing the allocation removes it and its challenge pool")
			}
			continue
		}
		if prop == "C12" && op <= 6 {
			vC12Check(w, allocID, step)
		}
	}
}

func VerifC12_ops1() { vC12Run(1, "C12") }
func VerifC12_ops2() { vC12Run(2, "C12") }

// VerifC09_storage*: the same histories (plus write-pool and read-pool locks with arbitrary
// values), asserting the liability rule of C09 after every operation.
func VerifC09_storage1() { vC12Run(1, "C09") }
func VerifC09_storage2() { vC12Run(2, "C09") }
