package storagesc

import (
	"0chain.net/chaincore/state"
	"0chain.net/chaincore/transaction"
	"0chain.net/core/common"
	"0chain.net/smartcontract/stakepool/spenum"
	"0chain.net/zzverif/sym"
	"github.com/0chain/common/core/currency"
)

func vC14Rewards(w *vWorld) uint64 {
	total := uint64(0)
	for _, id := range vWBlobbers[:2] {
		sp, err := getStakePool(spenum.Blobber, id, w.balances)
		if err != nil {
			panic(err)
		}
		total += uint64(sp.Reward)
		for _, p := range sp.Pools {
			total += uint64(p.Reward)
		}
	}
	return total
}

// vC14Run: an open allocation (2 blobbers, no data written, arbitrary remaining write pool)
// and k attempts, each arbitrarily a cancel or a finalize or a write-pool lock, sent by the
// owner, one of its blobbers or a stranger, at one of five times around the expiry instant.
func vC14Run(k int) {
	w := vWNew(2, vWClient, 0)
	allocID := w.vWAlloc(vWClient, "pk-client", 100*x10, 0)
	sa, err := w.ssc.getAllocation(allocID, w.balances)
	if err != nil {
		panic(err)
	}
	pool := currency.Coin(sym.U64("writePool"))
	sym.Assume(pool < 1<<50)
	expiration := sa.mustBase().Expiration
	_ = sa.mustUpdateBase(func(b *storageAllocationBase) error {
		b.WritePool = pool
		return nil
	})
	if _, err := w.balances.InsertTrieNode(sa.GetKey(w.ssc.ID), sa); err != nil {
		panic(err)
	}
	charge, err := sa.mustBase().cancellationCharge(w.conf.CancellationCharge)
	if err != nil {
		panic(err)
	}
	input := []byte(`{"allocation_id":"` + allocID + `"}`)
	closed := false
	for i := 0; i < k; i++ {
		action := sym.Choice("action", 0, 2) // cancel, finalize, write-pool lock
		caller := []string{vWClient, vWBlobbers[0], vWClient2}[sym.Choice("caller", 0, 2)]
		t := &transaction.Transaction{}
		t.ClientID = caller
		t.ToClientID = ADDRESS
		// the time math of the close path is floating point over (now - start): the attempt
		// times are concrete representatives around the expiry instant
		t.CreationDate = []common.Timestamp{vWNow + 86400, expiration - 1, expiration, expiration + 1, expiration + 86400}[sym.Choice("when", 0, 4)]
		t.Hash = []string{"aaaaaaaaaaaaaaaaaaaaaaaaaaaaaaaaaaaaaaaaaaaaaaaaaaaaaaaaaaaaaa21", "aaaaaaaaaaaaaaaaaaaaaaaaaaaaaaaaaaaaaaaaaaaaaaaaaaaaaaaaaaaaaa22", "aaaaaaaaaaaaaaaaaaaaaaaaaaaaaaaaaaaaaaaaaaaaaaaaaaaaaaaaaaaaaa23"}[i]
		rewardsBefore := vC14Rewards(w)
		// every attempt is its own transaction: its writes and queued transfers count only
		// when it succeeds
		balances, view := w.vWAttempt(t)
		var cerr error
		switch action {
		case 0:
			_, cerr = w.ssc.cancelAllocationRequest(t, input, balances)
		case 1:
			_, cerr = w.ssc.finalizeAllocation(t, input, balances)
		case 2:
			t.Value = 5 * x10
			_, cerr = w.ssc.writePoolLock(t, input, balances)
		}
		var transfers []*state.Transfer
		if cerr == nil {
			transfers = balances.GetTransfers()
			w.adopt(view, t)
		}
		if closed {
			sym.Assert(cerr != nil, "once closed, an allocation accepts no further close and no further lock")
			continue
		}
		if action == 2 {
			if cerr == nil {
				sym.Cover("locked-more")
				pool += 5 * x10
			}
			continue
		}
		if cerr != nil {
			sym.Cover("close-rejected")
			after, gerr := w.ssc.getAllocation(allocID, w.balances)
			sym.Assert(gerr == nil && after.mustBase().WritePool == pool, "a rejected close leaves the allocation and its write pool as they were")
			continue
		}
		closed = true
		if action == 0 {
			sym.Cover("cancelled")
			sym.Assert(caller == vWClient && t.CreationDate <= expiration, "only the owner cancels, and only before expiry")
		} else {
			sym.Cover("finalized")
			sym.Assert((caller == vWClient || caller == vWBlobbers[0]) && t.CreationDate >= expiration, "only the owner or one of the blobbers finalizes, and only after expiry")
		}
		refund := uint64(0)
		toOwnerOnly := true
		for _, tr := range transfers {
			if tr.ClientID != ADDRESS || tr.ToClientID != vWClient {
				toOwnerOnly = false
			}
			refund += uint64(tr.Amount)
		}
		paid := vC14Rewards(w) - rewardsBefore
		sym.Assert(toOwnerOnly, "closing transfers tokens out of the contract to the allocation's owner only")
		sym.Assert(paid <= uint64(charge), "blobbers get at most the configured cancellation charge (no data was stored)")
		sym.Assert(refund+paid == uint64(pool), "the rest of the write pool is refunded to the owner: refund + blobber payments = write pool")
		_, gerr := w.ssc.getAllocation(allocID, w.balances)
		sym.Assert(gerr != nil, "a closed allocation is removed")
	}
}

func VerifC14_close2() { vC14Run(2) }
func VerifC14_close3() { vC14Run(3) }
