package storagesc

import (
	"0chain.net/chaincore/state"
	"0chain.net/chaincore/transaction"
	"0chain.net/core/common"
	"0chain.net/smartcontract/stakepool/spenum"
	"0chain.net/zzverif/sym"
	"github.com/0chain/common/core/currency"
)

func vC14Rewards(w *vWorld) uint64 {
	total := uint64(0)
	for _, id := range vWBlobbers[:2] {
		sp, err := getStakePool(spenum.Blobber, id, w.balances)
		if err != nil {
			panic(err)
		}
		total += uint64(sp.Reward)
		for _, p := range sp.Pools {
			total += uint64(p.Reward)
		}
	}
	return total
}

// vC14Run: an open allocation (2 blobbers, no data written, arbitrary remaining write pool)
// and k attempts, each arbitrarily a cancel or a finalize or a write-pool lock, sent by the
// owner, one of its blobbers or a stranger, at an arbitrary time before or after expiry.
func vC14Run(k int) {
	w := vWNew(2, vWClient, 0)
	allocID := w.vWAlloc(vWClient, "pk-client", 100*x10, 0)
	sa, err := w.ssc.getAllocation(allocID, w.balances)
	if err != nil {
		panic(err)
	}
	pool := currency.Coin(sym.U64("writePool"))
	sym.Assume(pool < 1<<50)
	expiration := sa.mustBase().Expiration
	_ = sa.mustUpdateBase(func(b *storageAllocationBase) error {
		b.WritePool = pool
		return nil
	})
	if _, err := w.balances.InsertTrieNode(sa.GetKey(w.ssc.ID), sa); err != nil {
		panic(err)
	}
	charge, err := sa.mustBase().cancellationCharge(w.conf.CancellationCharge)
	if err != nil {
		panic(err)
	}
	input := []byte(`{"allocation_id":"` + allocID + `"}`)
	closed := false
	for i := 0; i < k; i++ {
		action := sym.Choice("action", 0, 2) // cancel, finalize, write-pool lock
		caller := []string{vWClient, vWBlobbers[0], vWClient2}[sym.Choice("caller", 0, 2)]
		t := &transaction.Transaction{}
		t.ClientID = caller
		t.ToClientID = ADDRESS
		t.CreationDate = common.Timestamp(sym.I64("now"))
		sym.Assume(t.CreationDate >= vWNow && t.CreationDate < 1<<40)
		t.Hash = []string{"aaaaaaaaaaaaaaaaaaaaaaaaaaaaaaaaaaaaaaaaaaaaaaaaaaaaaaaaaaaaaa21", "aaaaaaaaaaaaaaaaaaaaaaaaaaaaaaaaaaaaaaaaaaaaaaaaaaaaaaaaaaaaaa22", "aaaaaaaaaaaaaaaaaaaaaaaaaaaaaaaaaaaaaaaaaaaaaaaaaaaaaaaaaaaaaa23"}[i]
		nTransfers := len(w.balances.GetTransfers())
		rewardsBefore := vC14Rewards(w)
		var cerr error
		switch action {
		case 0:
			_, cerr = w.ssc.cancelAllocationRequest(t, input, w.balances)
		case 1:
			_, cerr = w.ssc.finalizeAllocation(t, input, w.balances)
		case 2:
			t.Value = 5 * x10
			_, cerr = w.ssc.writePoolLock(t, input, w.balances)
		}
		transfers := w.balances.GetTransfers()[nTransfers:]
		if closed {
			sym.Assert(cerr != nil, "once closed, an allocation accepts no further close and no further lock")
			sym.Assert(len(transfers) == 0 && vC14Rewards(w) == rewardsBefore, "nothing is paid for a closed allocation")
			continue
		}
		if action == 2 {
			if cerr == nil {
				sym.Cover("locked-more")
				pool += 5 * x10
			}
			continue
		}
		if cerr != nil {
			sym.Cover("close-rejected")
			sym.Assert(len(transfers) == 0 && vC14Rewards(w) == rewardsBefore, "a rejected close pays nothing")
			after, gerr := w.ssc.getAllocation(allocID, w.balances)
			sym.Assert(gerr == nil && after.mustBase().WritePool == pool, "a rejected close leaves the allocation and its write pool as they were")
			continue
		}
		closed = true
		if action == 0 {
			sym.Cover("cancelled")
			sym.Assert(caller == vWClient && t.CreationDate <= expiration, "only the owner cancels, and only before expiry")
		} else {
			sym.Cover("finalized")
			sym.Assert((caller == vWClient || caller == vWBlobbers[0]) && t.CreationDate >= expiration, "only the owner or one of the blobbers finalizes, and only after expiry")
		}
		refund := uint64(0)
		toOwnerOnly := true
		for _, tr := range transfers {
			if tr.ClientID != ADDRESS || tr.ToClientID != vWClient {
				toOwnerOnly = false
			}
			refund += uint64(tr.Amount)
		}
		paid := vC14Rewards(w) - rewardsBefore
		sym.Assert(toOwnerOnly, "closing transfers tokens out of the contract to the allocation's owner only")
		sym.Assert(paid <= uint64(charge), "blobbers get at most the configured cancellation charge (no data was stored)")
		sym.Assert(refund+paid == uint64(pool), "the rest of the write pool is refunded to the owner: refund + blobber payments = write pool")
		_, gerr := w.ssc.getAllocation(allocID, w.balances)
		sym.Assert(gerr != nil, "a closed allocation is removed")
	}
}

var _ = state.NewTransfer

func VerifC14_close2() { vC14Run(2) }
func VerifC14_close3() { vC14Run(3) }
