package storagesc

import (
	"encoding/json"
	"errors"
	"time"

	"0chain.net/chaincore/block"
	cstate "0chain.net/chaincore/chain/state"
	sci "0chain.net/chaincore/smartcontractinterface"
	"0chain.net/chaincore/state"
	"0chain.net/chaincore/transaction"
	"0chain.net/core/common"
	"0chain.net/smartcontract/provider"
	"0chain.net/smartcontract/stakepool"
	"0chain.net/smartcontract/stakepool/spenum"
	"0chain.net/zzverif/symstate"
	"github.com/0chain/common/core/currency"
	"github.com/0chain/common/core/util"
)

// A small storage world built directly in the state (no add_blobber / stake_pool_lock calls):
// the contract settings, n blobbers with one staked delegate each.
const (
	vWOwner   = "0a00000000000000000000000000000000000000000000000000000000000001"
	vWClient  = "0c00000000000000000000000000000000000000000000000000000000000003"
	vWClient2 = "0d00000000000000000000000000000000000000000000000000000000000004"
	vWNow     = common.Timestamp(1_000_000)
	vWGB      = 1024 * 1024 * 1024
)

var vWBlobbers = []string{
	"b100000000000000000000000000000000000000000000000000000000000001",
	"b200000000000000000000000000000000000000000000000000000000000002",
	"b300000000000000000000000000000000000000000000000000000000000003",
}

// vWAttempt gives one transaction its own view of the world's state; the caller adopts it
// (w.adopt) only when the call succeeded, as the chain does.
func (w *vWorld) vWAttempt(t *transaction.Transaction) (*cstate.StateContext, util.MerklePatriciaTrieI) {
	child := symstate.Fork(w.trie)
	return symstate.BalancesOn(child, w.block, t), child
}

func (w *vWorld) adopt(child util.MerklePatriciaTrieI, t *transaction.Transaction) {
	w.trie = child
	w.balances = symstate.BalancesOn(child, w.block, t)
}

type vWorld struct {
	block    *block.Block
	ssc      *StorageSmartContract
	balances *cstate.StateContext
	trie     util.MerklePatriciaTrieI
	conf     *Config
	txn      *transaction.Transaction
}

func vWConfig() *Config {
	conf := newConfig()
	conf.OwnerId = vWOwner
	conf.TimeUnit = 720 * time.Hour
	conf.MinAllocSize = 1024
	conf.MaxBlobbersPerAllocation = 4
	conf.MaxChallengeCompletionRounds = 100
	conf.MinBlobberCapacity = 1024
	conf.MaxCharge = 0.5
	conf.MaxStake = 1e15
	conf.MinStake = 0
	conf.MaxDelegates = 10
	conf.MaxReadPrice = 100 * x10
	conf.MaxWritePrice = 100 * x10
	conf.MinWritePrice = 0
	conf.MaxFileSize = 1 << 40
	conf.CancellationCharge = 0.2
	conf.ValidatorReward = 0.025
	conf.BlobberSlash = 0.1
	conf.HealthCheckPeriod = time.Hour
	conf.MaxIndividualFreeAllocation = 100 * x10
	conf.MaxTotalFreeAllocation = 10000 * x10
	conf.FreeAllocationSettings.DataShards = 1
	conf.FreeAllocationSettings.ParityShards = 1
	conf.FreeAllocationSettings.Size = 1 * vWGB
	conf.FreeAllocationSettings.ReadPriceRange = PriceRange{Min: 0, Max: 100 * x10}
	conf.FreeAllocationSettings.WritePriceRange = PriceRange{Min: 0, Max: 100 * x10}
	conf.FreeAllocationSettings.ReadPoolFraction = 0.25
	conf.Cost = map[string]int{}
	conf.ValidatorsPerChallenge = 1
	conf.NumValidatorsRewarded = 1
	conf.MaxBlobberSelectForChallenge = 2
	conf.BlockReward.Gamma.A, conf.BlockReward.Gamma.B, conf.BlockReward.Gamma.Alpha = 10, 9, 0.2
	conf.BlockReward.Zeta.Mu, conf.BlockReward.Zeta.I, conf.BlockReward.Zeta.K = 0.2, 1, 0.9
	return conf
}

// vWNew builds the world with n blobbers (capacity 20 GB, write price 0.01 ZCN/GB, read price 0,
// stake 1000 ZCN each), and a transaction by sender at vWNow.
func vWNew(n int, sender string, value currency.Coin) *vWorld {
	w := &vWorld{ssc: &StorageSmartContract{}}
	w.ssc.SmartContract = &sci.SmartContract{ID: ADDRESS}
	t := &transaction.Transaction{}
	t.ClientID = sender
	t.ToClientID = ADDRESS
	t.Value = value
	t.CreationDate = vWNow
	t.Hash = "aaaaaaaaaaaaaaaaaaaaaaaaaaaaaaaaaaaaaaaaaaaaaaaaaaaaaaaaaaaaaaa1"
	w.txn = t
	b := &block.Block{}
	b.Round = 100
	w.block = b
	w.balances, w.trie = symstate.Balances(b, t)
	w.conf = vWConfig()
	if err := w.ssc.saveConfig(w.balances, w.conf); err != nil {
		panic(err)
	}
	for _, id := range []string{vWOwner, vWClient, vWClient2} {
		st := &state.State{Balance: 1000000 * x10}
		_ = st.SetTxnHash("cccccccccccccccccccccccccccccccccccccccccccccccccccccccccccccccc")
		if _, err := w.trie.Insert(util.Path(id), st); err != nil {
			panic(err)
		}
	}
	for i := 0; i < n; i++ {
		id := vWBlobbers[i]
		e := &storageNodeV2{BaseURL: "http://" + id[:2], Capacity: 20 * vWGB, PublicKey: "pk" + id[:2]}
		e.Provider = provider.Provider{ID: id, ProviderType: spenum.Blobber, LastHealthCheck: vWNow}
		e.Terms = Terms{ReadPrice: 0, WritePrice: x10 / 100}
		e.StakePoolSettings = stakepool.Settings{DelegateWallet: "d" + id[1:], MaxNumDelegates: 10, ServiceChargeRatio: 0.1}
		e.Version = storageNodeV2Version
		sn := &StorageNode{}
		sn.SetEntity(e)
		if _, err := w.balances.InsertTrieNode(sn.GetKey(), sn); err != nil {
			panic(err)
		}
		sp := newStakePool()
		sp.Settings = e.StakePoolSettings
		sp.Pools["e"+id[1:]] = &stakepool.DelegatePool{DelegateID: "e" + id[1:], Balance: 1000 * x10, Status: spenum.Active, StakedAt: vWNow}
		if err := sp.Save(spenum.Blobber, id, w.balances); err != nil {
			panic(err)
		}
	}
	return w
}

// vWAlloc creates an allocation (1 data + 1 parity shard on blobbers 0 and 1, size 2 GB) owned
// by owner through the real new_allocation_request, funded with lock tokens; returns its id.
func (w *vWorld) vWAlloc(owner, ownerPK string, lock currency.Coin, readPrice currency.Coin) string {
	if readPrice > 0 {
		for _, id := range vWBlobbers[:2] {
			sn, err := getBlobber(id, w.balances)
			if err != nil {
				panic(err)
			}
			_ = sn.mustUpdateBase(func(b *storageNodeBase) error {
				b.Terms.ReadPrice = readPrice
				return nil
			})
			if _, err := w.balances.InsertTrieNode(sn.GetKey(), sn); err != nil {
				panic(err)
			}
		}
	}
	req := newAllocationRequest{DataShards: 1, ParityShards: 1, Size: 2 * vWGB, Owner: owner, OwnerPublicKey: ownerPK,
		Blobbers: vWBlobbers[:2], BlobberAuthTickets: []string{"", ""},
		ReadPriceRange: PriceRange{Min: 0, Max: 100 * x10}, WritePriceRange: PriceRange{Min: 0, Max: 100 * x10}}
	_ = req
	t := &transaction.Transaction{}
	t.ToClientID = ADDRESS
	t.CreationDate = vWNow
	t.Hash = "a110c00000000000000000000000000000000000000000000000000000000001"
	return w.vWAllocAs(t, owner, ownerPK, lock)
}

var errRecovered = errors.New("recovered")

func int64ToTS(i int) common.Timestamp { return common.Timestamp(i) }

// vWAllocAs sends new_allocation_request with transaction t (hash = allocation id) on
// w.balances; panics when the request is rejected.
func (w *vWorld) vWAllocAs(t *transaction.Transaction, owner, ownerPK string, lock currency.Coin) string {
	req := newAllocationRequest{DataShards: 1, ParityShards: 1, Size: 2 * vWGB, Owner: owner, OwnerPublicKey: ownerPK,
		Blobbers: vWBlobbers[:2], BlobberAuthTickets: []string{"", ""},
		ReadPriceRange: PriceRange{Min: 0, Max: 100 * x10}, WritePriceRange: PriceRange{Min: 0, Max: 100 * x10}}
	input, err := json.Marshal(&req)
	if err != nil {
		panic(err)
	}
	t.ClientID = owner
	t.Value = lock
	if _, err := w.ssc.newAllocationRequest(t, input, w.balances, nil); err != nil {
		panic("world: new allocation: " + err.Error())
	}
	return t.Hash
}
