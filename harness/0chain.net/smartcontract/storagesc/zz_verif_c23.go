package storagesc

import (
	"0chain.net/chaincore/transaction"
	"0chain.net/smartcontract/stakepool/spenum"
	"0chain.net/zzverif/sym"
)

const vC23Stranger = "0b00000000000000000000000000000000000000000000000000000000000002"

// VerifC23_blobberAttempts: a blobber that serves an open allocation is killed or shut down by
// an authorised caller; then a further kill_blobber / shutdown_blobber is sent by the owner,
// the blobber's delegate wallet or a stranger. Whatever such a further attempt answers, a
// caller who is not authorised for it changes nothing.
func VerifC23_blobberAttempts() {
	w := vWNew(2, vWClient, 0)
	_ = w.vWAlloc(vWClient, "pk-client", 100*x10, 0)
	id := vWBlobbers[0]
	wallet := "d" + id[1:]
	input := []byte(`{"provider_id":"` + id + `"}`)
	first := sym.Choice("first", 0, 1) // kill by the owner, shut down by the delegate wallet
	t := &transaction.Transaction{}
	t.ToClientID = ADDRESS
	t.CreationDate = vWNow + 100
	t.Hash = "aaaaaaaaaaaaaaaaaaaaaaaaaaaaaaaaaaaaaaaaaaaaaaaaaaaaaaaaaaaaaa51"
	var err error
	{
		balances, view := w.vWAttempt(t)
		if first == 0 {
			t.ClientID = vWOwner
			_, err = w.ssc.killBlobber(t, input, balances)
		} else {
			t.ClientID = wallet
			_, err = w.ssc.shutdownBlobber(t, input, balances)
		}
		if err != nil {
			sym.Fail("an authorised kill / shut down of an active blobber succeeds")
			return
		}
		w.adopt(view, t)
	}
	sp0, e0 := getStakePool(spenum.Blobber, id, w.balances)
	if e0 != nil {
		return // (a blobber without delegates and data is removed outright)
	}
	offers, balance := sp0.TotalOffers, sp0.Pools["e"+id[1:]].Balance
	sym.Assert(offers > 0, "the dead blobber still carries the offer of the open allocation")

	second := sym.Choice("second", 0, 1)
	caller := []string{vWOwner, wallet, vC23Stranger}[sym.Choice("caller", 0, 2)]
	t2 := &transaction.Transaction{}
	t2.ClientID = caller
	t2.ToClientID = ADDRESS
	t2.CreationDate = vWNow + 200
	t2.Hash = "aaaaaaaaaaaaaaaaaaaaaaaaaaaaaaaaaaaaaaaaaaaaaaaaaaaaaaaaaaaaaa52"
	balances, view := w.vWAttempt(t2)
	if second == 0 {
		_, err = w.ssc.killBlobber(t2, input, balances)
	} else {
		_, err = w.ssc.shutdownBlobber(t2, input, balances)
	}
	authorised := caller == vWOwner || (second == 1 && caller == wallet)
	if !authorised {
		sym.Cover("unauthorised-second-attempt")
	}
	if err != nil {
		sym.Cover("second-attempt-failed")
		return // a failed transaction's writes are discarded
	}
	sym.Cover("second-attempt-answered")
	w.adopt(view, t2)
	sp1, e1 := getStakePool(spenum.Blobber, id, w.balances)
	if e1 != nil {
		sym.Fail("the stake pool stays readable")
		return
	}
	sym.Assert(sp1.Pools["e"+id[1:]].Balance == balance, "the stake pool is slashed exactly once")
	if !authorised {
		sym.Assert(sp1.TotalOffers == offers, "a caller who may not kill / shut down the provider changes nothing")
	}
}
