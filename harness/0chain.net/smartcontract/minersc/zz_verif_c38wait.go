package minersc

import (
	"0chain.net/chaincore/block"
	"0chain.net/chaincore/node"
	"0chain.net/chaincore/threshold/bls"
	"0chain.net/chaincore/transaction"
	"0chain.net/zzverif/sym"
	"0chain.net/zzverif/symstate"
	"github.com/0chain/common/core/currency"
)

// vC38WaitPhase: the step into the wait phase (createMagicBlockForWait) with k DKG miners
// of arbitrary stake (1..3, ties included), each arbitrarily a member of the previous magic
// block and each arbitrarily having published its shares or not; min_n 1..3, max_n 2 or 3.
func vC38WaitPhase(k int) {
	keys, ids := vC06MinerKeysAndIDs(k)
	stakes := make([]currency.Coin, k)
	prev := make([]bool, k)
	published := make([]bool, k)
	for i := 0; i < k; i++ {
		stakes[i] = currency.Coin(sym.Choice("stake", 1, 3))
		prev[i] = sym.Bool("inPreviousMagicBlock")
		published[i] = sym.Bool("publishedShares")
	}
	minN := sym.Choice("minN", 1, 3)
	maxN := sym.Choice("maxN", 2, 3)
	if minN > maxN {
		return
	}
	pmb := block.NewMagicBlock()
	pmb.Miners = node.NewPool(node.NodeTypeMiner)
	pmb.Sharders = node.NewPool(node.NodeTypeSharder)
	pmb.MagicBlockNumber = 7
	pmb.Hash = "prev-magic-block-hash"
	for i := 0; i < k; i++ {
		if prev[i] {
			n := node.Provider()
			n.ID, n.PublicKey, n.Type = ids[i], keys[i], node.NodeTypeMiner
			n.N2NHost, n.Host, n.Port = "n"+ids[i][:2], "h"+ids[i][:2], 7000+i
			if err := pmb.Miners.AddNode(n); err != nil {
				panic(err)
			}
		}
	}
	b := &block.Block{}
	b.Round = 100
	t := &transaction.Transaction{}
	t.Hash = vC48Hash
	balances, _ := symstate.BalancesMB(b, t, pmb)
	dkg := NewDKGMinerNodes()
	dkg.MinN, dkg.MaxN, dkg.N, dkg.T, dkg.K = minN, maxN, maxN, 1, 1
	mpks := block.NewMpks()
	gsos := block.NewGroupSharesOrSigns()
	for i := 0; i < k; i++ {
		id := ids[i]
		sn := &SimpleNode{N2NHost: "n" + id[:2], Host: "h" + id[:2], Port: 7000 + i, PublicKey: keys[i], ShortName: "m" + id[:2], TotalStaked: stakes[i]}
		sn.ID = id
		dkg.SimpleNodes[id] = sn
		mpks.Mpks[id] = &block.MPK{ID: id, Mpk: []string{"a", "b"}}
		if published[i] {
			sos := block.NewShareOrSigns()
			sos.ID = id
			sos.ShareOrSigns[id] = &bls.DKGKeyShare{Message: "m", Sign: "s"}
			gsos.Shares[id] = sos
		}
	}
	if err := updateDKGMinersList(balances, dkg); err != nil {
		panic(err)
	}
	if err := updateMinersMPKs(balances, mpks); err != nil {
		panic(err)
	}
	if err := updateGroupShareOrSigns(balances, gsos); err != nil {
		panic(err)
	}
	if _, err := balances.InsertTrieNode(PhaseKey, &PhaseNode{Phase: Wait, StartRound: 90}); err != nil {
		panic(err)
	}
	if err := updateShardersKeepList(balances, new(MinerNodes)); err != nil {
		panic(err)
	}
	if err := updateAllShardersList(balances, new(MinerNodes)); err != nil {
		panic(err)
	}
	gn := &GlobalNode{MaxN: maxN, MinN: minN, MaxS: 4, MinS: 1, XPercent: 0.5, TPercent: 0.5, KPercent: 0.75}
	msc := &MinerSmartContract{}
	err := msc.createMagicBlockForWait(balances, gn)

	nPublished, prevPublished := 0, false
	for i := 0; i < k; i++ {
		if published[i] {
			nPublished++
			if prev[i] {
				prevPublished = true
			}
		}
	}
	if err != nil {
		sym.Cover("wait-step-refused")
		if nPublished >= minN && prevPublished {
			sym.Fail("enough publishers including one of the previous set: the magic block is produced")
		}
		return
	}
	sym.Cover("magic-block-produced")
	mb, gerr := getMagicBlock(balances)
	if gerr != nil {
		sym.Fail("the produced magic block is stored")
		return
	}
	members := map[string]bool{}
	for _, n := range mb.Miners.Nodes {
		members[n.GetKey()] = true
	}
	keepsPrev := false
	for i := 0; i < k; i++ {
		if members[ids[i]] {
			sym.Assert(published[i], "only miners that published their shares enter the magic block")
			if prev[i] {
				keepsPrev = true
			}
		}
	}
	sym.Assert(nPublished >= minN, "fewer than min_n publishers never produce a magic block (the key generation restarts)")
	sym.Assert(len(members) >= minN && len(members) <= maxN, "the magic block has between min_n and max_n miners")
	sym.Assert(keepsPrev, "the produced magic block keeps at least one miner from the previous set")
}

func VerifC38_waitPhase3() { vC38WaitPhase(3) }
func VerifC38_waitPhase4() { vC38WaitPhase(4) }
