package minersc

import (
	"0chain.net/smartcontract/stakepool"
	"0chain.net/zzverif/sym"
	"0chain.net/zzverif/symstate"
)

// VerifC07_minerscClones: Clone / CopyFrom of the miner contract's cacheable entities.
func VerifC07_minerscClones() {
	switch sym.Choice("entity", 0, 1) {
	case 0:
		gn := &GlobalNode{OwnerId: "owner", Cost: map[string]int{"a": 1, "b": 2}}
		sym.Havoc(gn)
		symstate.CloneIsolated("miner global settings", gn, &GlobalNode{})
	case 1:
		mn := NewMinerNode()
		mn.ID = "m1"
		mn.Settings.DelegateWallet = "w"
		mn.Pools["d1"] = &stakepool.DelegatePool{DelegateID: "d1"}
		sym.Havoc(mn)
		symstate.CloneIsolated("miner / sharder node", mn, NewMinerNode())
	}
}
