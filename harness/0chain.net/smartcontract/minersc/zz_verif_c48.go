package minersc

import (
	"strconv"

	"0chain.net/chaincore/block"
	"0chain.net/chaincore/transaction"
	"0chain.net/core/config"
	"0chain.net/zzverif/sym"
	"0chain.net/zzverif/symstate"
	"github.com/0chain/common/core/util"
)

const (
	vC48Owner    = "0a00000000000000000000000000000000000000000000000000000000000001"
	vC48Stranger = "0b00000000000000000000000000000000000000000000000000000000000002"
	vC48NewOwner = "0c00000000000000000000000000000000000000000000000000000000000003"
	vC48Hash     = "dddddddddddddddddddddddddddddddddddddddddddddddddddddddddddddddd"
)

type vC48Snap struct {
	maxN, minN, maxS, minS, maxDelegates, numSharders int
	costAddMiner                                      int
	hasCost                                           bool
	owner                                             string
}

func vC48Take(gn *GlobalNode) vC48Snap {
	s := vC48Snap{maxN: gn.MaxN, minN: gn.MinN, maxS: gn.MaxS, minS: gn.MinS, maxDelegates: gn.MaxDelegates,
		numSharders: gn.NumShardersRewarded, owner: gn.OwnerId}
	s.costAddMiner, s.hasCost = gn.Cost["add_miner"]
	return s
}

func vC48Same(a, b vC48Snap) bool {
	return a.maxN == b.maxN && a.minN == b.minN && a.maxS == b.maxS && a.minS == b.minS && a.maxDelegates == b.maxDelegates &&
		a.numSharders == b.numSharders && a.costAddMiner == b.costAddMiner && a.hasCost == b.hasCost && a.owner == b.owner
}

type vC48Entry struct {
	key, val string
	bad      bool // unknown key / unparsable value: must be rejected whatever else is in the map
	apply    func(*vC48Snap)
}

// vC48Menu: one requested change; numeric values are arbitrary (symbolic) integers.
func vC48Menu(i int) vC48Entry {
	switch i {
	case 0:
		v := sym.Int("newMaxN")
		return vC48Entry{key: "max_n", val: strconv.Itoa(v), apply: func(s *vC48Snap) { s.maxN = v }}
	case 1:
		v := sym.Int("newMinN")
		return vC48Entry{key: "min_n", val: strconv.Itoa(v), apply: func(s *vC48Snap) { s.minN = v }}
	case 2:
		v := sym.Int("newMaxDelegates")
		return vC48Entry{key: "max_delegates", val: strconv.Itoa(v), apply: func(s *vC48Snap) { s.maxDelegates = v }}
	case 3:
		v := sym.Int("newCost")
		return vC48Entry{key: "cost.add_miner", val: strconv.Itoa(v), apply: func(s *vC48Snap) { s.costAddMiner, s.hasCost = v, true }}
	case 4:
		v := sym.Int("newNumSharders")
		return vC48Entry{key: "num_sharders_rewarded", val: strconv.Itoa(v), apply: func(s *vC48Snap) { s.numSharders = v }}
	case 5:
		return vC48Entry{key: "no_such_setting", val: "1", bad: true}
	case 6:
		return vC48Entry{key: "max_s", val: "twelve", bad: true}
	case 7:
		return vC48Entry{key: "owner_id", val: vC48NewOwner, apply: func(s *vC48Snap) { s.owner = vC48NewOwner }}
	}
	return vC48Entry{key: "owner_id", val: "not-hex", bad: true}
}

func vC48Load(t util.MerklePatriciaTrieI) *GlobalNode {
	gn := new(GlobalNode)
	if err := t.GetNodeValue(util.Path(symstate.PathOf(GlobalNodeKey)), gn); err != nil {
		return nil
	}
	return gn
}

// VerifC48_minerSettings: one update_settings call by the owner or a stranger with a map of
// 1..2 requested changes, from an arbitrary valid configuration, on every map order.
func VerifC48_minerSettings() {
	sym.MapOrder(2)
	msc := &MinerSmartContract{}
	t := &transaction.Transaction{}
	t.ClientID = []string{vC48Owner, vC48Stranger}[sym.Choice("caller", 0, 1)]
	t.ToClientID = ADDRESS
	t.Hash = vC48Hash
	b := &block.Block{}
	b.Round = 7
	balances, trie := symstate.Balances(b, t)

	gn := &GlobalNode{OwnerId: vC48Owner}
	gn.MaxN, gn.MinN, gn.MaxS, gn.MinS = sym.Int("maxN"), sym.Int("minN"), sym.Int("maxS"), sym.Int("minS")
	gn.MaxDelegates, gn.NumShardersRewarded = sym.Int("maxDelegates"), sym.Int("numSharders")
	gn.Cost = map[string]int{"add_miner": sym.Int("cost")}
	sym.Assume(gn.validate() == nil) // the settings in force are valid (established by InitConfig and kept by this step)
	if err := gn.save(balances); err != nil {
		panic(err)
	}
	pre := vC48Take(gn)

	n := sym.Choice("entries", 1, 2)
	changes := config.NewStringMap()
	want := pre
	anyBad := false
	for i := 0; i < n; i++ {
		e := vC48Menu(sym.Choice("entry", 0, 8))
		if _, dup := changes.Fields[e.key]; dup {
			return
		}
		changes.Fields[e.key] = e.val
		anyBad = anyBad || e.bad
		if e.apply != nil {
			e.apply(&want)
		}
	}

	// as MinerSmartContract.Execute does: load the settings through the state context, dispatch
	cur, err := getGlobalNode(balances)
	if err != nil {
		panic(err)
	}
	_, err = msc.updateSettings(t, changes.Encode(), cur, balances)

	persisted := vC48Load(trie)
	again, err2 := getGlobalNode(balances) // what the next contract call of this transaction / block sees
	if persisted == nil || err2 != nil {
		sym.Fail("settings node readable after the call")
		return
	}
	if err != nil {
		sym.Cover("rejected")
		sym.Assert(vC48Same(vC48Take(persisted), pre), "a rejected change leaves the persisted settings as they were")
		sym.Assert(vC48Same(vC48Take(again), pre), "a rejected change leaves the settings seen through the state cache as they were")
		return
	}
	sym.Cover("accepted")
	sym.Assert(t.ClientID == vC48Owner, "settings change only through a transaction from the configured owner")
	sym.Assert(!anyBad, "a map with an unknown setting or an unparsable value is rejected as a whole")
	sym.Assert(persisted.validate() == nil, "accepted settings pass validation")
	sym.Assert(vC48Same(vC48Take(persisted), want), "exactly the requested settings change, to the requested values")
	sym.Assert(vC48Same(vC48Take(again), want), "the state cache shows the same settings as the persisted node")
}

// VerifC48_minerGlobals: one update_globals call by the owner or a stranger with 1..2 requested
// chain-wide settings: a mutable integer setting with an arbitrary value, another mutable one,
// an immutable setting, an unknown name, an unparsable value.
func VerifC48_minerGlobals() {
	sym.MapOrder(2)
	msc := &MinerSmartContract{}
	t := &transaction.Transaction{}
	t.ClientID = []string{vC48Owner, vC48Stranger}[sym.Choice("caller", 0, 1)]
	t.ToClientID = ADDRESS
	t.Hash = vC48Hash
	b := &block.Block{}
	b.Round = 7
	balances, trie := symstate.Balances(b, t)
	gn := &GlobalNode{OwnerId: vC48Owner}
	gs := newGlobalSettings()
	gs.Fields["server_chain.block.max_block_size"] = "5"
	gs.Fields["server_chain.block.replicators"] = "1"
	gs.Version = sym.I64("version")
	sym.Assume(gs.Version >= 0 && gs.Version < 1<<40)
	if err := gs.save(balances); err != nil {
		panic(err)
	}
	preVersion := gs.Version // (save increments)
	n := sym.Choice("entries", 1, 2)
	changes := config.NewStringMap()
	want := map[string]string{"server_chain.block.max_block_size": "5", "server_chain.block.replicators": "1"}
	anyBad := false
	for i := 0; i < n; i++ {
		var key, val string
		bad := false
		switch sym.Choice("entry", 0, 4) {
		case 0:
			key, val = "server_chain.block.max_block_size", strconv.Itoa(int(sym.I32("newMaxBlockSize")))
		case 1:
			key, val = "server_chain.block.replicators", strconv.Itoa(sym.Int("newReplicators"))
		case 2:
			key, val, bad = "server_chain.owner", "x", true // immutable
		case 3:
			key, val, bad = "no.such.global", "1", true
		case 4:
			key, val, bad = "server_chain.block.min_generators", "many", true
		}
		if _, dup := changes.Fields[key]; dup {
			return
		}
		changes.Fields[key] = val
		anyBad = anyBad || bad
		if !bad {
			want[key] = val
		}
	}
	_, err := msc.updateGlobals(t, changes.Encode(), gn, balances)
	stored := newGlobalSettings()
	if gerr := trie.GetNodeValue(util.Path(symstate.PathOf(GLOBALS_KEY)), stored); gerr != nil {
		sym.Fail("the global settings stay readable")
		return
	}
	if err != nil {
		sym.Cover("rejected")
		sym.Assert(stored.Version == preVersion && stored.Fields["server_chain.block.max_block_size"] == "5" && stored.Fields["server_chain.block.replicators"] == "1" && len(stored.Fields) == 2,
			"a rejected change leaves the stored chain-wide settings as they were")
		return
	}
	sym.Cover("accepted")
	sym.Assert(t.ClientID == vC48Owner, "chain-wide settings change only through a transaction from the configured owner")
	sym.Assert(!anyBad, "a map with an immutable or unknown setting or an unparsable value is rejected as a whole")
	sym.Assert(stored.Version == preVersion+1, "an accepted change advances the settings version by one")
	for k, v := range want {
		sym.Assert(stored.Fields[k] == v, "exactly the requested chain-wide settings change, to the requested values")
	}
	sym.Assert(len(stored.Fields) == len(want), "no other chain-wide setting appears")
}
