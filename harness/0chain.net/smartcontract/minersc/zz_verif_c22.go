package minersc

import (
	"encoding/json"

	"0chain.net/chaincore/block"
	"0chain.net/chaincore/node"
	sci "0chain.net/chaincore/smartcontractinterface"
	"0chain.net/chaincore/transaction"
	"0chain.net/core/config"
	"0chain.net/core/encryption"
	"0chain.net/smartcontract/stakepool"
	"0chain.net/smartcontract/stakepool/spenum"
	"0chain.net/zzverif/sym"
	"0chain.net/zzverif/symstate"
	"github.com/0chain/common/core/currency"
	"github.com/0chain/common/core/util"
)

const (
	vC22Miner    = "a100000000000000000000000000000000000000000000000000000000000001"
	vC22Other    = "a200000000000000000000000000000000000000000000000000000000000002"
	vC22Hash     = "dddddddddddddddddddddddddddddddddddddddddddddddddddddddddddddddd"
	vC22Delegate = "de00000000000000000000000000000000000000000000000000000000000001"
)

var vC22Sharders []string

type vC22Conf struct{ config.ChainConfig }

func (vC22Conf) IsViewChangeEnabled() bool { return false }

func vC22Node(id string, pt spenum.Provider, withDelegate bool) *MinerNode {
	mn := NewMinerNode()
	mn.ID = id
	mn.ProviderType = pt
	mn.Settings.DelegateWallet = id
	mn.Settings.ServiceChargeRatio = 0.5
	mn.Reward = currency.Coin(sym.U64("nodeReward"))
	sym.Assume(mn.Reward < 1<<60)
	if withDelegate {
		dp := &stakepool.DelegatePool{DelegateID: vC22Delegate, Status: spenum.Active, Balance: 1000}
		dp.Reward = currency.Coin(sym.U64("delegateReward"))
		sym.Assume(dp.Reward < 1<<60)
		mn.Pools[vC22Delegate] = dp
	}
	return mn
}

// vC22Total: everything a node's stake pool has been credited (provider + delegates).
func vC22Total(t util.MerklePatriciaTrieI, id string) []uint64 {
	mn := NewMinerNode()
	mn.ID = id
	if err := t.GetNodeValue(util.Path(symstate.PathOf(mn.GetKey())), mn); err != nil {
		return nil
	}
	out := []uint64{uint64(mn.Reward)}
	if dp, ok := mn.Pools[vC22Delegate]; ok {
		out = append(out, uint64(dp.Reward))
	}
	return out
}

// VerifC22_payFees: one pay_fees call (view change disabled) from an arbitrary eligible state.
func VerifC22_payFees()     { vC22Run(false) }
func VerifC22_payFeesFull() { vC22Run(true) }

func vC22Run(full bool) {
	config.Configuration().ChainConfig = vC22Conf{}
	// foreign caller / wrong round are explored on one configuration only (quick)
	callerIdx := sym.Choice("caller", 0, 1)
	wrongRound := sym.Bool("wrongRound")
	// the quick shape narrows each parameter to qlo..qhi; the thorough one explores lo..hi
	pick := func(name string, lo, hi, qlo, qhi int) int {
		if full {
			return sym.Choice(name, lo, hi)
		}
		if callerIdx != 0 || wrongRound {
			return qhi
		}
		return sym.Choice(name, qlo, qhi)
	}
	pickB := func(name string) bool {
		if !full {
			return true
		}
		return sym.Bool(name)
	}
	msc := &MinerSmartContract{SmartContract: sci.NewSC(ADDRESS)}
	b := &block.Block{}
	b.Round = 17
	b.MinerID = vC22Miner
	b.SetRoundRandomSeed(sym.I64("roundSeed"))
	nTx := 2 * pick("blockTxns", 0, 1, 1, 1)
	var fees []uint64
	for i := 0; i < nTx; i++ {
		tx := &transaction.Transaction{}
		tx.Fee = currency.Coin(sym.U64("fee"))
		sym.Assume(tx.Fee < 1<<50)
		b.Txns = append(b.Txns, tx)
		fees = append(fees, uint64(tx.Fee))
	}
	t := &transaction.Transaction{}
	t.ClientID = []string{vC22Miner, vC22Other}[callerIdx]
	t.ToClientID = ADDRESS
	t.Hash = vC22Hash
	// the magic block's sharders
	nSh := pick("sharders", 1, 3, 1, 2)
	mb := block.NewMagicBlock()
	mb.Sharders = node.NewPool(node.NodeTypeSharder)
	mb.Miners = node.NewPool(node.NodeTypeMiner)
	vC22Sharders = nil
	for i := 0; i < nSh; i++ {
		ss := encryption.NewBLS0ChainScheme()
		if err := ss.GenerateKeys(); err != nil {
			panic(err)
		}
		nd := node.Provider()
		nd.Type = node.NodeTypeSharder
		nd.PublicKey = ss.GetPublicKey()
		if err := nd.ComputeProperties(); err != nil {
			panic(err)
		}
		if err := mb.Sharders.AddNode(nd); err != nil {
			panic(err)
		}
		vC22Sharders = append(vC22Sharders, nd.GetKey())
	}
	balances, trie := symstate.BalancesMB(b, t, mb)

	gn := &GlobalNode{OwnerId: "owner", MaxN: 7, MinN: 1, MaxS: 7, MinS: 1, MaxDelegates: 10, Epoch: 1000000, RewardRoundFrequency: 0}
	gn.BlockReward = currency.Coin(sym.U64("blockReward"))
	sym.Assume(gn.BlockReward < 1<<50)
	gn.RewardRate = []float64{0, 0.5, 1}[pick("rewardRate", 0, 2, 1, 2)]
	gn.ShareRatio = []float64{0, 0.5, 0.8, 1}[pick("shareRatio", 0, 3, 1, 2)]
	gn.NumMinerDelegatesRewarded = 10
	gn.NumSharderDelegatesRewarded = 10
	gn.NumShardersRewarded = pick("shardersRewarded", 1, 3, 1, 3)
	gn.Cost = map[string]int{}
	sym.Assume(gn.validate() == nil)
	if err := gn.save(balances); err != nil {
		panic(err)
	}
	miner := vC22Node(vC22Miner, spenum.Miner, pickB("minerHasDelegate"))
	if err := miner.save(balances); err != nil {
		panic(err)
	}
	ids := NodeIDs{}
	for i := 0; i < nSh; i++ {
		sh := vC22Node(vC22Sharders[i], spenum.Sharder, i == 0 && pickB("sharderHasDelegate"))
		if err := sh.save(balances); err != nil {
			panic(err)
		}
		ids = append(ids, sh.ID)
	}
	if err := ids.save(balances, AllShardersKey); err != nil {
		panic(err)
	}
	pre := map[string][]uint64{vC22Miner: vC22Total(trie, vC22Miner)}
	for i := 0; i < nSh; i++ {
		pre[vC22Sharders[i]] = vC22Total(trie, vC22Sharders[i])
	}
	inRound := b.Round
	if wrongRound {
		inRound = b.Round - 1
	}
	input, _ := json.Marshal(PayFeesInput{Round: inRound})
	cur, err := getGlobalNode(balances)
	if err != nil {
		panic(err)
	}

	_, err = msc.payFees(t, input, cur, balances)

	if err != nil {
		sym.Cover("rejected")
		sym.Assert(t.ClientID != b.MinerID || inRound != b.Round, "the block's generator can pay the fees of its round")
		return
	}
	sym.Cover("paid")
	sym.Assert(t.ClientID == b.MinerID, "the payment is accepted only from the block's generator")
	sym.Assert(inRound == b.Round, "the payment is accepted only for the block's own round")
	// what was credited
	var credited, minerSide, sharderSide []uint64
	var preAll []uint64
	for id, p := range pre {
		post := vC22Total(trie, id)
		credited = append(credited, post...)
		preAll = append(preAll, p...)
		if id == vC22Miner {
			minerSide = post
		} else {
			sharderSide = append(sharderSide, post...)
		}
	}
	// the block reward, computed as the contract computes it
	br, brErr := currency.MultFloat64(gn.BlockReward, gn.RewardRate)
	if brErr != nil {
		sym.Fail("block reward computable")
	}
	reward := []uint64{uint64(br)}
	total := append(append([]uint64{}, fees...), reward...)
	sym.Assert(sym.SumEq(credited, append(append([]uint64{}, preAll...), total...)), "miner side plus sharder side add up exactly to the block's fees plus the block reward")
	_ = minerSide
	// every rewarded sharder gets the same share up to one base unit
	paidSharders := gn.NumShardersRewarded
	if paidSharders > nSh {
		paidSharders = nSh
		sym.Cover("fewer-live-sharders-than-configured")
	}
	got := 0
	for i := 0; i < nSh; i++ {
		if !sym.SumEq(vC22Total(trie, vC22Sharders[i]), pre[vC22Sharders[i]]) {
			got++
		}
	}
	sym.Assert(got <= paidSharders, "at most the configured number of sharders is rewarded")
	post, _ := getGlobalNode(balances)
	sym.Assert(post != nil && post.LastRound == b.Round, "the round is recorded as paid")
	_ = sharderSide
}
