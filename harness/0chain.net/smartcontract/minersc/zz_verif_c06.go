package minersc

import (
	"0chain.net/chaincore/block"
	"0chain.net/chaincore/transaction"
	"0chain.net/core/config"
	"0chain.net/zzverif/sym"
	"0chain.net/zzverif/symstate"
	"github.com/0chain/common/core/util"
)

func vC06Err(err error) string {
	if err == nil {
		return "<nil>"
	}
	return err.Error()
}

// vC06MinerSettings: the owner's update_settings with n requested fields, several of them
// possibly invalid, executed repeatedly on the same state.
func vC06MinerSettings(n int) {
	menu := [][2]string{
		{"max_n", "9"}, {"max_n", "nine"}, {"min_n", "x"}, {"min_n", "20"}, {"no_such_setting", "1"},
		{"max_s", "twelve"}, {"max_delegates", "0"}, {"owner_id", "not-hex"}, {"cost.add_miner", "-"}, {"num_sharders_rewarded", "3"},
	}
	fields := symstate.PickFields(menu, n)
	if fields == nil {
		return
	}
	sym.Cover("fields-chosen")
	symstate.Deterministic("update_settings gives the same output, error and state on every execution", func() (string, util.MerklePatriciaTrieI) {
		msc := &MinerSmartContract{}
		t := &transaction.Transaction{}
		t.ClientID = vC48Owner
		t.ToClientID = ADDRESS
		t.Hash = vC48Hash
		b := &block.Block{}
		b.Round = 7
		balances, trie := symstate.Balances(b, t)
		gn := &GlobalNode{OwnerId: vC48Owner, MaxN: 10, MinN: 3, MaxS: 5, MinS: 1, MaxDelegates: 20, NumShardersRewarded: 1,
			TPercent: 0.66, KPercent: 0.75, XPercent: 0.7}
		gn.Cost = map[string]int{"add_miner": 100}
		if err := gn.save(balances); err != nil {
			panic(err)
		}
		changes := config.NewStringMap()
		for _, e := range fields {
			changes.Fields[e[0]] = e[1]
		}
		cur, err := getGlobalNode(balances)
		if err != nil {
			panic(err)
		}
		resp, err := msc.updateSettings(t, changes.Encode(), cur, balances)
		if err != nil {
			sym.Cover("rejected")
		} else {
			sym.Cover("accepted")
		}
		return resp + "|" + vC06Err(err), trie
	})
}

// vC06MinerGlobals: the owner's update_globals likewise.
func vC06MinerGlobals(n int) {
	menu := [][2]string{
		{"server_chain.block.max_block_size", "10"}, {"server_chain.block.max_block_size", "ten"}, {"no.such.global", "1"},
		{"server_chain.owner", "x"}, {"server_chain.block.min_generators", "-"}, {"development.state", "maybe"},
		{"server_chain.block.replicators", "2"}, {"server_chain.transaction.timeout", "q"},
	}
	fields := symstate.PickFields(menu, n)
	if fields == nil {
		return
	}
	sym.Cover("fields-chosen")
	symstate.Deterministic("update_globals gives the same output, error and state on every execution", func() (string, util.MerklePatriciaTrieI) {
		msc := &MinerSmartContract{}
		t := &transaction.Transaction{}
		t.ClientID = vC48Owner
		t.ToClientID = ADDRESS
		t.Hash = vC48Hash
		b := &block.Block{}
		b.Round = 7
		balances, trie := symstate.Balances(b, t)
		gn := &GlobalNode{OwnerId: vC48Owner}
		gs := newGlobalSettings()
		gs.Fields["server_chain.block.max_block_size"] = "5"
		if err := gs.save(balances); err != nil {
			panic(err)
		}
		changes := config.NewStringMap()
		for _, e := range fields {
			changes.Fields[e[0]] = e[1]
		}
		resp, err := msc.updateGlobals(t, changes.Encode(), gn, balances)
		if err != nil {
			sym.Cover("rejected")
		} else {
			sym.Cover("accepted")
		}
		return resp + "|" + vC06Err(err), trie
	})
}

func VerifC06_minerGlobals2()  { vC06MinerGlobals(2) }
func VerifC06_minerGlobals3()  { vC06MinerGlobals(3) }
func VerifC06_minerSettings2() { vC06MinerSettings(2) }
func VerifC06_minerSettings3() { vC06MinerSettings(3) }
