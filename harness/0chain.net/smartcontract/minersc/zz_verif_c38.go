package minersc

import (
	"errors"

	"0chain.net/chaincore/block"
	cstate "0chain.net/chaincore/chain/state"
	"0chain.net/chaincore/transaction"
	"0chain.net/zzverif/sym"
	"0chain.net/zzverif/symstate"
	"github.com/0chain/common/core/util"
)

// VerifC38_phaseStep: one application of the view-change step function setPhaseNode from an
// arbitrary phase node, with the phase's move condition and phase action replaced by arbitrary
// outcomes (succeeds / fails / fails with a missing state node). RestartDKG is the real one.
func VerifC38_phaseStep() {
	msc := &MinerSmartContract{}
	b := &block.Block{}
	b.Round = 100
	balances, trie := symstate.Balances(b, &transaction.Transaction{})
	for ph, name := range map[Phase]string{Start: "start", Contribute: "contribute", Share: "share", Publish: "publish", Wait: "wait"} {
		PhaseRounds[ph] = sym.I64("rounds-" + name)
		sym.Assume(PhaseRounds[ph] >= 0 && PhaseRounds[ph] < 1<<30)
	}
	pn := &PhaseNode{}
	pn.Phase = Phase(sym.Choice("phase", 0, 4))
	pn.StartRound = sym.I64("startRound")
	pn.CurrentRound = sym.I64("currentRound")
	pn.Restarts = sym.I64("restarts")
	sym.Assume(pn.StartRound >= 0 && pn.CurrentRound >= pn.StartRound && pn.CurrentRound < 1<<40 && pn.Restarts >= 0 && pn.Restarts < 1<<40)
	pre := *pn
	viewChange := sym.Bool("viewChangeEnabled")

	moveOutcome := sym.Choice("moveCondition", 0, 2) // 0 holds, 1 fails, 2 state node missing
	actOutcome := sym.Choice("phaseAction", 0, 2)
	moveCalled, actCalled := false, false
	outcome := func(o int) error {
		switch o {
		case 1:
			return errors.New("condition does not hold")
		case 2:
			return errors.New("reading state: " + util.ErrNodeNotFound.Error())
		}
		return nil
	}
	for ph := Start; ph <= Wait; ph++ {
		moveFunctions[ph] = func(balances cstate.StateContextI, pn *PhaseNode, gn *GlobalNode) error {
			moveCalled = true
			return outcome(moveOutcome)
		}
	}
	hasAction := map[Phase]bool{Start: true, Contribute: true, Publish: true}
	for ph := range hasAction {
		phaseFuncs[ph] = func(balances cstate.StateContextI, gn *GlobalNode) error {
			actCalled = true
			return outcome(actOutcome)
		}
	}
	due := viewChange && pre.CurrentRound-pre.StartRound >= PhaseRounds[pre.Phase]

	err := msc.setPhaseNode(balances, pn, &GlobalNode{}, &transaction.Transaction{}, viewChange)

	stored := &PhaseNode{}
	haveStored := trie.GetNodeValue(util.Path(symstate.PathOf(PhaseKey)), stored) == nil
	if !due {
		sym.Cover("not-due")
		sym.Assert(err == nil && !moveCalled && !actCalled, "nothing is evaluated before the phase has run its configured number of rounds")
		sym.Assert(pn.Phase == pre.Phase && pn.StartRound == pre.StartRound && pn.Restarts == pre.Restarts, "the phase does not change before it is due")
		sym.Assert(haveStored && *stored == *pn, "the phase node is stored")
		return
	}
	sym.Assert(moveCalled, "a due phase evaluates its move condition")
	missing := moveOutcome == 2 || (moveOutcome == 0 && hasAction[pre.Phase] && actOutcome == 2)
	if missing {
		sym.Cover("state-node-missing")
		sym.Assert(err != nil, "a missing state node aborts the step with an error")
		return
	}
	sym.Assert(err == nil, "the step succeeds")
	failed := moveOutcome == 1 || (hasAction[pre.Phase] && actOutcome == 1)
	if failed {
		sym.Cover("restarted")
		sym.Assert(pn.Phase == Start, "when the condition or the phase action fails the key generation restarts at Start")
		sym.Assert(pn.StartRound == pre.CurrentRound && pn.Restarts == pre.Restarts+1, "a restart begins at the current round and is counted")
	} else {
		sym.Cover("advanced")
		next := pre.Phase + 1
		if pre.Phase == Wait {
			next = Start
		}
		sym.Assert(pn.Phase == next, "a due phase whose condition holds advances to the next phase in the order Start, Contribute, Share, Publish, Wait, Start")
		sym.Assert(pn.StartRound == pre.CurrentRound, "the new phase starts at the current round")
		if pre.Phase == Wait {
			sym.Assert(pn.Restarts == 0, "a completed view change clears the restart counter")
		} else {
			sym.Assert(pn.Restarts == pre.Restarts, "advancing does not count as a restart")
		}
		if moveOutcome == 0 {
			sym.Assert(actCalled == hasAction[pre.Phase], "the phase action runs exactly for the phases that have one")
		}
	}
	sym.Assert(haveStored && *stored == *pn, "the phase node is stored")
}

const (
	vC38M1       = "a100000000000000000000000000000000000000000000000000000000000001"
	vC38M2       = "a200000000000000000000000000000000000000000000000000000000000002"
	vC38Outsider = "a900000000000000000000000000000000000000000000000000000000000009"
)

// VerifC38_contribute: one contribute_mpk call in an arbitrary phase by a member of the DKG set
// or an outsider, with an MPK of the expected or a wrong size, possibly naming another miner in
// the payload, possibly after that miner already contributed.
func VerifC38_contribute() {
	msc := &MinerSmartContract{}
	b := &block.Block{}
	b.Round = 100
	t := &transaction.Transaction{}
	t.ClientID = []string{vC38M1, vC38Outsider}[sym.Choice("caller", 0, 1)]
	balances, trie := symstate.Balances(b, t)
	pn := &PhaseNode{Phase: Phase(sym.Choice("phase", 0, 4)), StartRound: 90, CurrentRound: 95}
	if _, err := balances.InsertTrieNode(pn.GetKey(), pn); err != nil {
		panic(err)
	}
	dmn := NewDKGMinerNodes()
	dmn.T = sym.Choice("T", 1, 2)
	dmn.K, dmn.N = 2, 2
	for _, id := range []string{vC38M1, vC38M2} {
		dmn.SimpleNodes[id] = &SimpleNode{}
		dmn.SimpleNodes[id].ID = id
	}
	if err := updateDKGMinersList(balances, dmn); err != nil {
		panic(err)
	}
	already := sym.Choice("alreadyContributed", 0, 2) // nobody, the caller, the other member
	if already > 0 {
		mpks := block.NewMpks()
		id := []string{vC38M1, vC38M2}[already-1]
		mpks.Mpks[id] = &block.MPK{ID: id, Mpk: []string{"old"}}
		if err := updateMinersMPKs(balances, mpks); err != nil {
			panic(err)
		}
	}
	size := sym.Choice("mpkSize", 0, 3)
	keys := []string{"k1", "k2", "k3"}[:size]
	payload := &block.MPK{Mpk: keys}
	if sym.Bool("namesOtherMiner") {
		payload.ID = vC38M2
	}

	_, err := msc.contributeMpk(t, payload.Encode(), &GlobalNode{}, balances)

	post := block.NewMpks()
	_ = trie.GetNodeValue(util.Path(symstate.PathOf(MinersMPKKey)), post)
	if err != nil {
		sym.Cover("contribution-rejected")
		return
	}
	sym.Cover("contribution-accepted")
	sym.Assert(pn.Phase == Contribute, "public keys are accepted only in the Contribute phase")
	sym.Assert(t.ClientID == vC38M1, "public keys are accepted only from a miner of the DKG set")
	sym.Assert(size == dmn.T, "a contribution has exactly the expected number of keys")
	sym.Assert(already != 1, "a miner contributes once")
	got, ok := post.Mpks[t.ClientID]
	sym.Assert(ok && got.ID == t.ClientID && len(got.Mpk) == size, "the contribution is recorded under the contributing miner")
	if already == 2 {
		o, ok := post.Mpks[vC38M2]
		sym.Assert(ok && len(o.Mpk) == 1 && o.Mpk[0] == "old", "another miner's contribution is left untouched")
	} else {
		_, ok := post.Mpks[vC38M2]
		sym.Assert(!ok, "no contribution appears under another miner's id")
	}
}
