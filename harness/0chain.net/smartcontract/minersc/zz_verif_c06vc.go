package minersc

import (
	"encoding/hex"

	"0chain.net/chaincore/block"
	"0chain.net/chaincore/node"
	"0chain.net/chaincore/threshold/bls"
	"0chain.net/chaincore/transaction"
	"0chain.net/core/encryption"
	"0chain.net/zzverif/sym"
	"0chain.net/zzverif/symstate"
	"github.com/0chain/common/core/currency"
	"github.com/0chain/common/core/util"
)

// vC06MinerKeys generates k miner key pairs; a node's id is the hash of its public key bytes.
func vC06MinerKeysAndIDs(k int) (pks, ids []string) {
	for i := 0; i < k; i++ {
		ss := encryption.NewBLS0ChainScheme()
		if err := ss.GenerateKeys(); err != nil {
			panic(err)
		}
		raw, err := hex.DecodeString(ss.GetPublicKey())
		if err != nil {
			panic(err)
		}
		pks = append(pks, ss.GetPublicKey())
		ids = append(ids, encryption.Hash(raw))
	}
	return
}

// vC06ViewChange: the wait phase of a view change (createMagicBlockForWait: reduce the DKG
// miners to max_n, drop shares / mpks of the removed, build and store the magic block, emit
// events) executed repeatedly on the same prior state: k DKG miners with arbitrary stakes
// (ties included), each arbitrarily a member of the previous magic block, max_n of 2.
func vC06ViewChange(k int, withEvents bool) {
	vC06MinerKeys, vC06Miners := vC06MinerKeysAndIDs(k)
	stakes := make([]currency.Coin, k)
	prev := make([]bool, k)
	for i := 0; i < k; i++ {
		stakes[i] = currency.Coin(sym.Choice("stake", 1, 3))
		prev[i] = sym.Bool("inPreviousMagicBlock")
	}
	label := "the wait phase stores the same magic block and state on every execution"
	if withEvents {
		label = "the wait phase emits the same event list on every execution"
	}
	symstate.DeterministicUniform(label, 4, func() (string, util.MerklePatriciaTrieI) {
		pmb := block.NewMagicBlock()
		pmb.Miners = node.NewPool(node.NodeTypeMiner)
		pmb.Sharders = node.NewPool(node.NodeTypeSharder)
		pmb.MagicBlockNumber = 7
		pmb.Hash = "prev-magic-block-hash"
		for i := 0; i < k; i++ {
			if prev[i] {
				n := node.Provider()
				n.ID, n.PublicKey, n.Type = vC06Miners[i], vC06MinerKeys[i], node.NodeTypeMiner
				n.N2NHost, n.Host, n.Port = "n"+vC06Miners[i][:2], "h"+vC06Miners[i][:2], 7000+i
				if err := pmb.Miners.AddNode(n); err != nil {
					panic(err.Error())
				}
			}
		}
		b := &block.Block{}
		b.Round = 100
		t := &transaction.Transaction{}
		t.Hash = vC48Hash
		balances, trie := symstate.BalancesMB(b, t, pmb)
		dkg := NewDKGMinerNodes()
		dkg.MinN, dkg.MaxN, dkg.N, dkg.T, dkg.K = 1, 2, 2, 1, 1
		mpks := block.NewMpks()
		gsos := block.NewGroupSharesOrSigns()
		for i := 0; i < k; i++ {
			id := vC06Miners[i]
			sn := &SimpleNode{N2NHost: "n" + id[:2], Host: "h" + id[:2], Port: 7000 + i, PublicKey: vC06MinerKeys[i], ShortName: "m" + id[:2], TotalStaked: stakes[i]}
			sn.ID = id
			dkg.SimpleNodes[id] = sn
			mpks.Mpks[id] = &block.MPK{ID: id, Mpk: []string{"a", "b"}}
			sos := block.NewShareOrSigns()
			sos.ID = id
			sos.ShareOrSigns[id] = &bls.DKGKeyShare{Message: "m", Sign: "s"}
			gsos.Shares[id] = sos
		}
		if err := updateDKGMinersList(balances, dkg); err != nil {
			panic(err)
		}
		if err := updateMinersMPKs(balances, mpks); err != nil {
			panic(err)
		}
		if err := updateGroupShareOrSigns(balances, gsos); err != nil {
			panic(err)
		}
		if _, err := balances.InsertTrieNode(PhaseKey, &PhaseNode{Phase: Wait, StartRound: 90}); err != nil {
			panic(err)
		}
		if err := updateShardersKeepList(balances, new(MinerNodes)); err != nil {
			panic(err)
		}
		if err := updateAllShardersList(balances, new(MinerNodes)); err != nil {
			panic(err)
		}
		gn := &GlobalNode{MaxN: 2, MinN: 1, MaxS: 4, MinS: 1, XPercent: 0.5, TPercent: 0.5, KPercent: 0.75}
		msc := &MinerSmartContract{}
		err := msc.createMagicBlockForWait(balances, gn)
		if err == nil {
			sym.Cover("magic-block-created")
		}
		// a phase function's error text is only logged (setPhaseNode restarts the DKG on any
		// error), so what matters for the block is whether it failed
		text := "ok"
		if err != nil {
			text = "failed"
		}
		if withEvents {
			text += "|" + symstate.EventsText(balances)
		}
		return text, trie
	})
}

func VerifC06_viewChange3()       { vC06ViewChange(3, false) }
func VerifC06_viewChange4()       { vC06ViewChange(4, false) }
func VerifC06_viewChangeEvents3() { vC06ViewChange(3, true) }
