package minersc

import (
	"0chain.net/chaincore/block"
	"0chain.net/smartcontract/stakepool"
	"0chain.net/zzverif/sym"
	"0chain.net/zzverif/symstate"
)

// VerifC08_minersc: the miner contract's stored records.
func VerifC08_minersc() {
	switch sym.Choice("entity", 0, 5) {
	case 0:
		gn := &GlobalNode{OwnerId: "owner", Cost: map[string]int{"a": 1, "b": 2}}
		sym.Havoc(gn)
		symstate.RoundTrip("miner global settings", gn, &GlobalNode{})
	case 1:
		gn := &GlobalNode{OwnerId: "owner", Cost: map[string]int{"a": 1}}
		gn.PrevMagicBlock = block.NewMagicBlock()
		gn.PrevMagicBlock.Hash = "aa"
		sym.Havoc(gn)
		symstate.RoundTrip("miner global settings with previous magic block", gn, &GlobalNode{})
	case 2:
		mn := NewMinerNode()
		mn.ID = "m1"
		mn.N2NHost, mn.Host, mn.PublicKey = "n", "h", "pk"
		mn.Settings.DelegateWallet = "w"
		mn.Pools["d1"] = &stakepool.DelegatePool{DelegateID: "d1"}
		mn.Pools["d2"] = &stakepool.DelegatePool{DelegateID: "d2"}
		sym.Havoc(mn)
		symstate.RoundTrip("miner / sharder node", mn, NewMinerNode())
	case 3:
		pn := &PhaseNode{}
		sym.Havoc(pn)
		symstate.RoundTrip("phase node", pn, &PhaseNode{})
	case 4:
		d := NewDKGMinerNodes()
		d.SimpleNodes["m1"] = &SimpleNode{}
		d.SimpleNodes["m1"].ID = "m1"
		d.SimpleNodes["m2"] = &SimpleNode{}
		d.SimpleNodes["m2"].ID = "m2"
		d.RevealedShares["m1"] = 1
		d.Waited["m2"] = true
		sym.Havoc(d)
		symstate.RoundTrip("DKG miner set", d, NewDKGMinerNodes())
	case 5:
		ids := &NodeIDs{"a", "b", "c"}
		symstate.RoundTrip("node id list", ids, &NodeIDs{})
	}
}
