package minersc

import (
	"math"
	"math/rand"
	"sort"

	"0chain.net/zzverif/sym"
	"github.com/0chain/common/core/currency"
)

type verifPrevSet map[string]bool

func (p verifPrevSet) HasNode(id string) bool { return p[id] }

var verifC39IDs = []string{"n1", "n2", "n3", "n4"}

func verifC39(nmax int) {
	n := sym.Choice("candidates", 1, nmax)
	stakes := map[string]currency.Coin{}
	prev := verifPrevSet{}
	build := func() SimpleNodes {
		sns := NewSimpleNodes()
		for i := 0; i < n; i++ {
			id := verifC39IDs[i]
			sn := &SimpleNode{}
			sn.ID = id
			sn.TotalStaked = stakes[id]
			sns[id] = sn
		}
		return sns
	}
	for i := 0; i < n; i++ {
		id := verifC39IDs[i]
		stakes[id] = currency.Coin(sym.U64("stake"))
		prev[id] = sym.Bool("inPrevSet")
	}
	limit := sym.Choice("limit", 1, nmax)
	xp := []float64{0, 0.5, 1}[sym.Choice("xPercent", 0, 2)]
	seed := sym.I64("seed")
	// natively the permutation is the real generator's: replay the vector under a range of
	// seeds so that a permutation-dependent model reproduces for some seed
	seeds := []int64{seed}
	if !sym.Symbolic() {
		for s := int64(1); s < 64; s++ {
			seeds = append(seeds, seed+s)
		}
	}
	for _, seed := range seeds {
		verifC39Body(n, stakes, prev, build, limit, xp, seed)
	}
}

func verifC39Body(n int, stakes map[string]currency.Coin, prev verifPrevSet, build func() SimpleNodes, limit int, xp float64, seed int64) {
	sns := build()
	got := sns.reduce(limit, xp, seed, prev)

	maxNodes := limit
	if n < maxNodes {
		maxNodes = n
	}
	sym.Assert(got == maxNodes && len(sns) == maxNodes, "selection returns exactly min(limit, candidates) nodes")

	// reference partition
	type cand struct {
		id string
		st currency.Coin
	}
	var pmb, rest []cand
	for i := 0; i < n; i++ {
		id := verifC39IDs[i]
		if prev[id] {
			pmb = append(pmb, cand{id, stakes[id]})
		} else {
			rest = append(rest, cand{id, stakes[id]})
		}
	}
	byStake := func(a []cand) {
		sort.SliceStable(a, func(i, j int) bool {
			if a[i].st == a[j].st {
				return a[i].id < a[j].id
			}
			return a[i].st > a[j].st
		})
	}
	byStake(pmb)
	x := int(math.Ceil(xp * float64(maxNodes)))
	if len(pmb) < x {
		x = len(pmb)
	}
	if x > 0 {
		sym.Cover("previous-members-required")
	}
	forced := map[string]bool{}
	for _, c := range pmb[:x] {
		forced[c.id] = true
		_, ok := sns[c.id]
		sym.Assert(ok, "the required number of previous-set members with the highest stakes is included")
	}
	rest = append(rest, pmb[x:]...)
	byStake(rest)
	y := maxNodes - x
	// preference for higher stake among the open slots
	for _, c := range rest {
		if _, sel := sns[c.id]; sel {
			for _, d := range rest {
				if _, sel2 := sns[d.id]; !sel2 {
					sym.Assert(c.st >= d.st, "open slots prefer higher stake: no unselected candidate out-stakes a selected one")
				}
			}
		}
	}
	if len(rest) > y && y > 0 {
		cut := rest[y-1].st
		var above, ties []cand
		for _, c := range rest {
			if c.st > cut {
				above = append(above, c)
			} else if c.st == cut {
				ties = append(ties, c)
			}
		}
		for _, c := range above {
			_, ok := sns[c.id]
			sym.Assert(ok, "every candidate above the cut-off stake is selected")
		}
		need := y - len(above)
		if len(ties) > need {
			sym.Cover("tie-at-cut-off")
			// the tie group is resolved by the seeded permutation of the whole group
			perm := rand.New(rand.NewSource(seed)).Perm(len(ties))
			want := map[string]bool{}
			for _, j := range perm {
				if len(want) < need {
					want[ties[j].id] = true
				}
			}
			headTie := len(above) == 0 && len(ties) >= 2
			for _, c := range ties {
				_, ok := sns[c.id]
				if headTie {
					sym.Assert(ok == want[c.id], "a tie group at the head of the open list is resolved by the seed only, never by ids")
				} else {
					sym.Assert(ok == want[c.id], "candidates tied at the cut-off stake are chosen by the seeded permutation only")
				}
			}
		}
	}

	// identical inputs give the identical result (second run, other map iteration order)
	sym.MapOrder(1)
	sns2 := build()
	got2 := sns2.reduce(limit, xp, seed, prev)
	sym.MapOrder(0)
	sym.Assert(got2 == got && len(sns2) == len(sns), "identical inputs give the same size")
	for id := range sns {
		_, ok := sns2[id]
		sym.Assert(ok, "identical inputs give the identical selection")
	}
}

func VerifC39_reduce3() { verifC39(3) }
func VerifC39_reduce4() { verifC39(4) }
