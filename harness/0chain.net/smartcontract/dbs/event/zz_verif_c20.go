package event

// VerifMerge exposes the block-event merging step (mergeEvents, what EventDb.MergeEvents runs
// before the events are handed to the database workers) to harnesses in other packages.
func VerifMerge(round int64, block string, events []Event) ([]Event, error) {
	return mergeEvents(round, block, events)
}
