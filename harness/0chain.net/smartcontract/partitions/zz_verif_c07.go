package partitions

import (
	"0chain.net/zzverif/sym"
	"0chain.net/zzverif/symstate"
)

// VerifC07_partitionClones: Clone / CopyFrom of partitions, a partition and a location.
func VerifC07_partitionClones() {
	switch sym.Choice("entity", 0, 2) {
	case 0:
		p := &Partitions{Name: "n", PartitionSize: 2}
		p.Last = &partition{Key: "k", Items: []item{{ID: "a", Data: []byte{1, 2}}, {ID: "b", Data: []byte{3}}}}
		sym.Havoc(p)
		symstate.CloneIsolated("partitions", p, &Partitions{})
	case 1:
		pt := &partition{Key: "k", Items: []item{{ID: "a", Data: []byte{1, 2}}}}
		sym.Havoc(pt)
		symstate.CloneIsolated("partition", pt, &partition{})
	case 2:
		l := &location{}
		sym.Havoc(l)
		symstate.CloneIsolated("item location", l, &location{})
	}
}
