package partitions

import (
	"math/rand"
	"sort"

	"0chain.net/chaincore/block"
	cstate "0chain.net/chaincore/chain/state"
	"0chain.net/chaincore/transaction"
	"0chain.net/zzverif/sym"
	"0chain.net/zzverif/symstate"
	"github.com/tinylib/msgp/msgp"
)

// vC25Item: an item with an id and a payload.
type vC25Item struct {
	ID string
	V  int64
}

func (it *vC25Item) GetID() string { return it.ID }
func (it *vC25Item) MarshalMsg(o []byte) ([]byte, error) {
	o = msgp.AppendString(o, it.ID)
	o = msgp.AppendInt64(o, it.V)
	return o, nil
}
func (it *vC25Item) UnmarshalMsg(b []byte) ([]byte, error) {
	var err error
	if it.ID, b, err = msgp.ReadStringBytes(b); err != nil {
		return b, err
	}
	it.V, b, err = msgp.ReadInt64Bytes(b)
	return b, err
}
func (it *vC25Item) Msgsize() int { return 32 }

var vC25Names = []string{"a", "b", "c", "d", "e", "f", "g"}

// vC25Run: k operations on a named partitioned list of the given partition size, compared after
// every step with a reference set.
func vC25Run(size, k int) {
	b := &block.Block{}
	balances, _ := symstate.Balances(b, &transaction.Transaction{})
	const name = "verif-partitions"
	p, err := CreateIfNotExists(balances, name, size)
	if err != nil {
		panic(err)
	}
	ref := map[string]int64{} // the reference set: id -> payload
	var order []string        // members in insertion order (to pick positions)
	fresh := 0
	var removed []string
	for step := 0; step < k; step++ {
		op := sym.Choice("op", 0, 6)
		switch op {
		case 0: // add an id never used before
			if fresh >= len(vC25Names) {
				return
			}
			id := vC25Names[fresh]
			fresh++
			v := sym.I64("payload")
			err := p.Add(balances, &vC25Item{ID: id, V: v})
			sym.Assert(err == nil, "adding a new id succeeds")
			ref[id] = v
			order = append(order, id)
		case 1: // add an id that is already a member
			if len(order) == 0 {
				return
			}
			id := order[sym.Choice("which", 0, len(order)-1)]
			err := p.Add(balances, &vC25Item{ID: id, V: 77})
			sym.Assert(err != nil && ErrItemExist(err), "adding an id that is already a member is refused")
		case 2: // add again an id that was removed
			if len(removed) == 0 {
				return
			}
			id := removed[len(removed)-1]
			removed = removed[:len(removed)-1]
			v := sym.I64("payload")
			err := p.Add(balances, &vC25Item{ID: id, V: v})
			sym.Assert(err == nil, "a removed id can be added again")
			ref[id] = v
			order = append(order, id)
			sym.Cover("removed-id-reused")
		case 3: // remove a member (any position)
			if len(order) == 0 {
				return
			}
			i := sym.Choice("which", 0, len(order)-1)
			id := order[i]
			err := p.Remove(balances, id)
			sym.Assert(err == nil, "removing a member succeeds")
			delete(ref, id)
			order = append(order[:i:i], order[i+1:]...)
			removed = append(removed, id)
		case 4: // remove an id that is not a member
			err := p.Remove(balances, "zz-not-there")
			sym.Assert(err != nil && ErrItemNotFound(err), "removing an id that is not a member is refused")
		case 5: // update a member's payload
			if len(order) == 0 {
				return
			}
			id := order[sym.Choice("which", 0, len(order)-1)]
			v := sym.I64("payload")
			err := p.UpdateItem(balances, &vC25Item{ID: id, V: v})
			sym.Assert(err == nil, "updating a member succeeds")
			ref[id] = v
		case 6: // save and reload from state
			if err := p.Save(balances); err != nil {
				sym.Fail("save succeeds")
				return
			}
			q, err := GetPartitions(balances, name)
			if err != nil {
				sym.Fail("reload succeeds")
				return
			}
			p = q
			sym.Cover("saved-and-reloaded")
		}
		vC25Compare(p, balances, ref, size)
	}
	if len(ref) >= 3 && size == 1 {
		sym.Cover("three-partitions")
	}
}

func vC25Compare(p *Partitions, balances *cstate.StateContext, ref map[string]int64, size int) {
	n, err := p.Size(balances)
	sym.Assert(err == nil && n == len(ref), "the reported size is the number of members")
	for _, id := range vC25Names {
		want, member := ref[id]
		ok, err := p.Exist(balances, id)
		sym.Assert(err == nil && ok == member, "membership checks agree with the set")
		got := &vC25Item{}
		_, gerr := p.Get(balances, id, got)
		if member {
			sym.Assert(gerr == nil && got.ID == id && got.V == want, "lookup returns the member's current payload")
		} else {
			sym.Assert(gerr != nil, "lookup of a non-member fails")
		}
	}
	seen := map[string]int{}
	perPart := map[int]int{}
	maxPart := -1
	ferr := p.ForEach(balances, func(part int, id string, data []byte) bool {
		seen[id]++
		perPart[part]++
		if part > maxPart {
			maxPart = part
		}
		it := &vC25Item{}
		if _, err := it.UnmarshalMsg(data); err != nil || it.V != ref[id] {
			sym.Fail("iteration shows every member's current payload")
		}
		return false
	})
	sym.Assert(ferr == nil, "iteration succeeds")
	dups, strangers := false, false
	for id, c := range seen {
		if c > 1 {
			dups = true
		}
		if _, ok := ref[id]; !ok {
			strangers = true
		}
	}
	sym.Assert(!dups, "iteration never shows an id twice")
	sym.Assert(!strangers && len(seen) == len(ref), "iteration shows exactly the members")
	for part, c := range perPart {
		if part != maxPart {
			sym.Assert(c == size, "every partition except the last is full")
		} else {
			sym.Assert(c >= 1 && c <= size, "the last partition is non-empty and within the partition size")
		}
	}
	// random sampling returns distinct members
	if len(ref) >= size && len(ref) > 0 {
		var items []vC25Item
		r := rand.New(rand.NewSource(sym.I64("seed")))
		if err := p.GetRandomItems(balances, r, &items); err == nil {
			ids := []string{}
			for _, it := range items {
				ids = append(ids, it.ID)
				_, ok := ref[it.ID]
				sym.Assert(ok, "random sampling returns members")
			}
			sort.Strings(ids)
			for i := 1; i < len(ids); i++ {
				sym.Assert(ids[i] != ids[i-1], "random sampling returns distinct members")
			}
		}
	}
}

func VerifC25_size1()   { vC25Run(1, 5) }
func VerifC25_size2()   { vC25Run(2, 5) }
func VerifC25_size1k6() { vC25Run(1, 6) }
func VerifC25_size2k6() { vC25Run(2, 6) }
func VerifC25_size3k6() { vC25Run(3, 6) }

