package vestingsc

import (
	"0chain.net/zzverif/sym"
	"0chain.net/zzverif/symstate"
)

// VerifC08_vesting: vesting pools with 1..2 destinations and the owner's pool list.
func VerifC08_vesting() {
	if sym.Bool("clientPools") {
		cp := &clientPools{Pools: []string{"p1", "p2"}}
		symstate.RoundTrip("vesting client pool list", cp, &clientPools{})
		return
	}
	vp := newVestingPool()
	vp.ID, vp.ClientID, vp.Description = "p1", "owner", "d"
	n := sym.Choice("destinations", 1, 2)
	for i := 0; i < n; i++ {
		vp.Destinations = append(vp.Destinations, &destination{ID: []string{"d1", "d2"}[i]})
	}
	sym.Havoc(vp)
	symstate.RoundTrip("vesting pool", vp, newVestingPool())
}
