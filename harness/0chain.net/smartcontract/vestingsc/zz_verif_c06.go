package vestingsc

import (
	"time"

	"0chain.net/chaincore/block"
	"0chain.net/chaincore/transaction"
	config2 "0chain.net/core/config"
	"0chain.net/zzverif/sym"
	"0chain.net/zzverif/symstate"
	"github.com/0chain/common/core/util"
)

const vC06Owner = "0a00000000000000000000000000000000000000000000000000000000000001"

func vC06Err(err error) string {
	if err == nil {
		return "<nil>"
	}
	return err.Error()
}

// vC06VestingConfig: the owner's vestingsc-update-settings with n requested fields.
func vC06VestingConfig(n int) {
	menu := [][2]string{
		{"max_destinations", "4"}, {"max_destinations", "four"}, {"min_duration", "never"}, {"no_such_setting", "1"},
		{"min_lock", "x"}, {"max_description_length", "-"}, {"max_duration", "3h"}, {"cost.trigger", "q"},
	}
	fields := symstate.PickFields(menu, n)
	if fields == nil {
		return
	}
	sym.Cover("fields-chosen")
	symstate.Deterministic("vesting update_config gives the same output, error and state on every execution", func() (string, util.MerklePatriciaTrieI) {
		vsc := &VestingSmartContract{}
		t := &transaction.Transaction{}
		t.ClientID = vC06Owner
		t.ToClientID = ADDRESS
		b := &block.Block{}
		b.Round = 7
		balances, trie := symstate.Balances(b, t)
		conf := &config{MinLock: 1, MinDuration: time.Minute, MaxDuration: time.Hour, MaxDestinations: 3, MaxDescriptionLength: 20,
			OwnerId: vC06Owner, Cost: map[string]int{"trigger": 1}}
		if _, err := balances.InsertTrieNode(scConfigKey(ADDRESS), conf); err != nil {
			panic(err)
		}
		changes := config2.NewStringMap()
		for _, e := range fields {
			changes.Fields[e[0]] = e[1]
		}
		resp, err := vsc.updateConfig(t, changes.Encode(), balances)
		if err != nil {
			sym.Cover("rejected")
			if fields[0][1] == "4" && fields[1][1] == "3h" {
				sym.Observe("err", err.Error())
			}
		} else {
			sym.Cover("accepted")
		}
		return resp + "|" + vC06Err(err), trie
	})
}

func VerifC06_vestingConfig2() { vC06VestingConfig(2) }
func VerifC06_vestingConfig3() { vC06VestingConfig(3) }
