package vestingsc

import (
	"0chain.net/chaincore/block"
	sci "0chain.net/chaincore/smartcontractinterface"
	"0chain.net/chaincore/transaction"
	"0chain.net/core/common"
	"0chain.net/zzverif/sym"
	"0chain.net/zzverif/symstate"
	"github.com/0chain/common/core/currency"
	"github.com/0chain/common/core/util"
)

const (
	vC16Owner    = "0a00000000000000000000000000000000000000000000000000000000000001"
	vC16D1       = "d100000000000000000000000000000000000000000000000000000000000001"
	vC16D2       = "d200000000000000000000000000000000000000000000000000000000000002"
	vC16Stranger = "e100000000000000000000000000000000000000000000000000000000000009"
	vC16Hash     = "dddddddddddddddddddddddddddddddddddddddddddddddddddddddddddddddd"
)

type vC16Dest struct{ amount, vested currency.Coin }

// vC16Pool: an arbitrary vesting pool satisfying the representation invariant: per destination
// Vested <= Amount and StartTime <= Move <= ExpireAt; Balance >= sum of (Amount - Vested).
func vC16Pool(vsc *VestingSmartContract, amountBound uint64) (*vestingPool, map[string]vC16Dest) {
	vp := newVestingPool()
	vp.ID = poolKey(vsc.ID, "pool1")
	vp.ClientID = vC16Owner
	vp.StartTime = common.Timestamp(sym.I64("start"))
	vp.ExpireAt = common.Timestamp(sym.I64("expire"))
	sym.Assume(vp.StartTime > 0 && vp.StartTime < vp.ExpireAt && vp.ExpireAt < 1<<40)
	n := sym.Choice("destinations", 1, 2)
	pre := map[string]vC16Dest{}
	var need []uint64
	for i := 0; i < n; i++ {
		d := &destination{ID: []string{vC16D1, vC16D2}[i]}
		d.Amount = currency.Coin(sym.U64("amount"))
		d.Vested = currency.Coin(sym.U64("vested"))
		d.Move = common.Timestamp(sym.I64("lastMove"))
		d.Last = d.Move
		sym.Assume(uint64(d.Amount) <= amountBound && d.Vested <= d.Amount)
		sym.Assume(d.Move >= vp.StartTime && d.Move <= vp.ExpireAt)
		// a destination that was paid at the very end has been paid in full
		if d.Move == vp.ExpireAt {
			sym.Assume(d.Vested == d.Amount)
		}
		vp.Destinations = append(vp.Destinations, d)
		pre[d.ID] = vC16Dest{d.Amount, d.Vested}
		need = append(need, uint64(d.Amount-d.Vested))
	}
	vp.Balance = currency.Coin(sym.U64("poolBalance"))
	sym.Assume(vp.Balance < 1<<62 && sym.SumLe(need, []uint64{uint64(vp.Balance)}))
	return vp, pre
}

func vC16Load(t util.MerklePatriciaTrieI, id string) *vestingPool {
	vp := newVestingPool()
	if err := t.GetNodeValue(util.Path(symstate.PathOf(id)), vp); err != nil {
		return nil
	}
	return vp
}

// vC16Step: one operation on an arbitrary pool at an arbitrary time by any party.
func vC16Step(amountBound uint64) {
	vsc := &VestingSmartContract{SmartContract: sci.NewSC(ADDRESS)}
	t := &transaction.Transaction{}
	callers := []string{vC16Owner, vC16D1, vC16D2, vC16Stranger}
	t.ClientID = callers[sym.Choice("caller", 0, 3)]
	t.ToClientID = ADDRESS
	t.Hash = vC16Hash
	t.CreationDate = common.Timestamp(sym.I64("now"))
	sym.Assume(t.CreationDate > 0 && t.CreationDate < 1<<41)
	b := &block.Block{}
	b.Round = 3
	balances, trie := symstate.Balances(b, t)
	vp, pre := vC16Pool(vsc, amountBound)
	if err := vp.save(balances); err != nil {
		panic(err)
	}
	preBalance := vp.Balance
	// a transaction dated before a destination's last payment (clock skew between transactions)
	timeWentBack := false
	for _, d := range vp.Destinations {
		timeWentBack = timeWentBack || (t.CreationDate < d.Move && d.Move > vp.StartTime)
	}
	start, end := vp.StartTime, vp.ExpireAt
	now := t.CreationDate
	input := []byte(`{"pool_id":"` + vp.ID + `"}`)

	op := sym.Choice("op", 0, 3)
	var err error
	switch op {
	case 0:
		_, err = vsc.trigger(t, input, balances)
	case 1:
		_, err = vsc.unlock(t, input, balances)
	case 2:
		_, err = vsc.stop(t, []byte(`{"pool_id":"`+vp.ID+`","destination":"`+vC16D1+`"}`), balances)
	case 3:
		_, err = vsc.delete(t, input, balances)
	}
	opName := []string{"trigger", "unlock", "stop", "delete"}[op]
	isOwner := t.ClientID == vC16Owner
	_, isDest := pre[t.ClientID]
	if err != nil {
		sym.Cover(opName + "-rejected")
		if op == 3 && isOwner && !timeWentBack {
			sym.Fail("the owner can always delete the pool")
		}
		return
	}
	sym.Cover(opName + "-accepted")
	if op == 0 || op == 2 || op == 3 {
		sym.Assert(isOwner, "only the owner triggers, stops and deletes")
	} else {
		sym.Assert(isOwner || isDest, "only the owner or a destination unlocks")
	}
	// what was paid out
	paid := map[string][]uint64{}
	var total []uint64
	for _, tr := range balances.GetTransfers() {
		sym.Assert(tr.ClientID == ADDRESS, "vesting payouts come out of the vesting contract's wallet")
		paid[tr.ToClientID] = append(paid[tr.ToClientID], uint64(tr.Amount))
		total = append(total, uint64(tr.Amount))
	}
	post := vC16Load(trie, vp.ID)
	if op == 3 {
		sym.Assert(post == nil, "a deleted pool is removed from the state")
		sym.Assert(sym.SumEq(total, []uint64{uint64(preBalance)}), "deleting pays out the whole pool balance: vested shares to the destinations, the rest to the owner")
		for id, p := range pre {
			sym.Assert(sym.SumLe(paid[id], []uint64{uint64(p.amount - p.vested)}), "on delete a destination receives at most its unvested remainder")
		}
		return
	}
	if post == nil {
		sym.Fail("the pool is still stored after the operation")
		return
	}
	sym.Assert(sym.SumEq(append([]uint64{uint64(post.Balance)}, total...), []uint64{uint64(preBalance)}), "the pool balance falls by exactly what was paid out")
	var need []uint64
	for id, p := range pre {
		var d *destination
		for _, x := range post.Destinations {
			if x.ID == id {
				d = x
			}
		}
		if d == nil {
			sym.Assert(op == 2 && id == vC16D1, "only a stopped destination leaves the pool")
			sym.Assert(sym.SumLe(paid[id], []uint64{uint64(p.amount - p.vested)}), "a stopped destination receives at most its unvested remainder")
			continue
		}
		sym.Assert(d.Amount == p.amount, "the amount assigned to a destination never changes")
		sym.Assert(d.Vested >= p.vested, "vested tokens never decrease")
		sym.Assert(d.Vested <= d.Amount, "vested tokens never exceed the amount assigned to the destination")
		sym.Assert(sym.SumEq(append([]uint64{uint64(p.vested)}, paid[id]...), []uint64{uint64(d.Vested)}), "a destination is paid exactly what its vested counter advanced by")
		if now <= start {
			sym.Assert(d.Vested == p.vested, "nothing vests before the start time")
		}
		if now >= end && (op == 0 || (op == 1 && id == t.ClientID)) {
			sym.Cover("paid-at-expiry")
			sym.Assert(d.Vested == d.Amount, "by expiry a destination can receive exactly its amount")
		}
		need = append(need, uint64(d.Amount-d.Vested))
	}
	sym.Assert(sym.SumLe(need, []uint64{uint64(post.Balance)}), "the pool always holds at least the unvested remainder")
	if op == 1 && isOwner {
		sym.Cover("owner-withdrew-excess")
		sym.Assert(sym.SumEq(need, []uint64{uint64(post.Balance)}), "the owner withdraws exactly the excess")
		for id := range pre {
			sym.Assert(len(paid[id]) == 0, "withdrawing the excess pays no destination")
		}
	}
}

// amounts below 2^53 base units (0.9 million ZCN): float conversions of amounts are exact
func VerifC16_step() { vC16Step(1<<53 - 1) }

// amounts up to the whole token supply
func VerifC16_stepSupply() { vC16Step(4000000000000000000) }

// VerifC16_schedule: the linear-schedule clause, on a concrete time grid (so that the schedule
// is linear in the amounts). One destination with an arbitrary amount and an arbitrary vested
// part that is NOT ahead of the line at its last payment time (the schedule invariant); its
// last payment (Move) and its last visit (Last, later than Move after a trigger that moved
// nothing) lie on the grid; one trigger / unlock at a grid time. Afterwards the vested part is
// still not ahead of the line at the transaction time (up to one base unit of rounding).
func VerifC16_schedule() {
	vsc := &VestingSmartContract{SmartContract: sci.NewSC(ADDRESS)}
	const start, end = int64(10000), int64(11000) // 1000 s
	grid := []int64{start, start + 99, start + 250, start + 500, start + 901, end}
	t := &transaction.Transaction{}
	byOwner := sym.Bool("byOwner")
	t.ClientID = vC16D1
	if byOwner {
		t.ClientID = vC16Owner
	}
	t.ToClientID = ADDRESS
	t.Hash = vC16Hash
	b := &block.Block{}
	balances, trie := symstate.Balances(b, t)
	vp := newVestingPool()
	vp.ID = poolKey(vsc.ID, "pool1")
	vp.ClientID = vC16Owner
	vp.StartTime, vp.ExpireAt = common.Timestamp(start), common.Timestamp(end)
	d := &destination{ID: vC16D1}
	d.Amount = currency.Coin(sym.U64("amount"))
	d.Vested = currency.Coin(sym.U64("vested"))
	mi := sym.Choice("lastMove", 0, len(grid)-2)
	li := sym.Choice("lastVisit", mi, len(grid)-2)
	ni := sym.Choice("now", li, len(grid)-1)
	d.Move, d.Last = common.Timestamp(grid[mi]), common.Timestamp(grid[li])
	now := grid[ni]
	t.CreationDate = common.Timestamp(now)
	sym.Assume(d.Amount < 1<<50 && d.Vested <= d.Amount)
	// schedule invariant at the last payment: Vested * duration <= Amount * (Move - start)
	sym.Assume(sym.LinLe([]uint64{uint64(end - start)}, []uint64{uint64(d.Vested)}, []uint64{uint64(grid[mi] - start)}, []uint64{uint64(d.Amount)}))
	vp.Destinations = append(vp.Destinations, d)
	vp.Balance = d.Amount - d.Vested + currency.Coin(sym.U64("excess"))
	sym.Assume(vp.Balance < 1<<60)
	if err := vp.save(balances); err != nil {
		panic(err)
	}
	input := []byte(`{"pool_id":"` + vp.ID + `"}`)
	var err error
	if byOwner {
		_, err = vsc.trigger(t, input, balances)
	} else {
		_, err = vsc.unlock(t, input, balances)
	}
	if err != nil {
		sym.Cover("nothing-to-vest")
		return
	}
	post := vC16Load(trie, vp.ID)
	if post == nil || len(post.Destinations) != 1 {
		sym.Fail("pool stored")
		return
	}
	pd := post.Destinations[0]
	if li > mi {
		sym.Cover("visited-after-last-payment")
	}
	sym.Cover("vested-on-grid")
	// Vested' * duration <= Amount * (now - start) + duration   (one base unit of rounding)
	sym.Assert(sym.LinLe([]uint64{uint64(end - start)}, []uint64{uint64(pd.Vested)}, []uint64{uint64(now - start), uint64(end - start)}, []uint64{uint64(pd.Amount), 1}),
		"vested tokens never run ahead of the linear schedule between start and expiry")
	// and the schedule invariant is re-established at the new last payment time
	sym.Assert(pd.Move <= common.Timestamp(now) && pd.Last == common.Timestamp(now), "the last visit time is the transaction time")
}
