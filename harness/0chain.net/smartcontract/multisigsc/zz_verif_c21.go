package multisigsc

import (
	"encoding/hex"
	"encoding/json"

	"0chain.net/chaincore/block"
	"0chain.net/chaincore/state"
	"0chain.net/chaincore/transaction"
	"0chain.net/core/common"
	"0chain.net/core/encryption"
	"0chain.net/zzverif/sym"
	"0chain.net/zzverif/symstate"
	"github.com/0chain/common/core/currency"
)

const (
	vC21Dest  = "de00000000000000000000000000000000000000000000000000000000000001"
	vC21Dest2 = "de00000000000000000000000000000000000000000000000000000000000002"
)

type vC21Signer struct {
	key      encryption.ThresholdSignatureScheme
	clientID string
}

func vC21ID(pubHex string) string {
	b, err := hex.DecodeString(pubHex)
	if err != nil {
		panic(err)
	}
	return encryption.Hash(b)
}

// vC21Run: a registered 2-of-3 wallet and a sequence of k votes at non-decreasing times; each
// vote is cast by a signer or a stranger, for proposal P or Q, and is a valid share signature
// over the proposal's transfer, a signature made with another key, or a valid signature over a
// different (incompatible) transfer.
func vC21Run(k int) {
	ms := &MultiSigSmartContract{}
	ledger := symstate.NewLedger(&block.Block{})
	balances, reg := ledger.Begin(&transaction.Transaction{})

	walletKey := encryption.NewBLS0ChainScheme()
	if err := walletKey.GenerateKeys(); err != nil {
		panic(err)
	}
	shares, err := encryption.GenerateThresholdKeyShares("bls0chain", 2, 3, walletKey)
	if err != nil {
		panic(err)
	}
	w := Wallet{ClientID: vC21ID(walletKey.GetPublicKey()), SignatureScheme: "bls0chain", PublicKey: walletKey.GetPublicKey(), NumRequired: 2}
	var signers []vC21Signer
	for _, s := range shares {
		w.SignerThresholdIDs = append(w.SignerThresholdIDs, s.GetID())
		w.SignerPublicKeys = append(w.SignerPublicKeys, s.GetPublicKey())
		signers = append(signers, vC21Signer{s, vC21ID(s.GetPublicKey())})
	}
	if _, err := ms.register(w.ClientID, w.Encode(), balances); err != nil {
		panic(err)
	}
	ledger.Commit(reg)
	strangerKey := encryption.NewBLS0ChainThresholdScheme()
	if err := strangerKey.GenerateKeys(); err != nil {
		panic(err)
	}
	stranger := vC21Signer{strangerKey, vC21ID(strangerKey.GetPublicKey())}

	transfers := map[string]state.Transfer{
		"P": {ClientID: w.ClientID, ToClientID: vC21Dest, Amount: currency.Coin(sym.U64("amountP"))},
		"Q": {ClientID: w.ClientID, ToClientID: vC21Dest2, Amount: currency.Coin(sym.U64("amountQ"))},
	}
	sym.Assume(transfers["P"].Amount > 0 && transfers["Q"].Amount > 0 && transfers["P"].Amount < 1<<62)
	// reference bookkeeping
	created := map[string]common.Timestamp{} // proposal -> creation time of the live proposal
	liveTr := map[string]state.Transfer{}    // proposal -> the transfer the live proposal was created with
	voted := map[string]map[string]bool{}    // proposal -> distinct signers with a counted vote
	executed := map[string]int{}
	now := common.Timestamp(sym.I64("t0"))
	sym.Assume(now > 0 && now < 1<<40)
	for i := 0; i < k; i++ {
		dt := common.Timestamp(sym.I64("dt"))
		sym.Assume(dt >= 0 && dt < 1<<30)
		now += dt
		pid := []string{"P", "Q"}[sym.Choice("proposal", 0, 1)]
		who := sym.Choice("voter", 0, 2) // signer 0, signer 1, stranger
		voter := stranger
		if who < 2 {
			voter = signers[who]
		}
		kind := sym.Choice("voteKind", 0, 2)
		tr := transfers[pid]
		signed := tr
		var key encryption.SignatureScheme = voter.key
		switch kind {
		case 1: // signature made with another key (the stranger's; for the stranger: signer 2's)
			key = stranger.key
			if who == 2 {
				key = signers[2].key
			}
		case 2: // a valid signature, but over a different amount than the proposal's
			signed.Amount = tr.Amount + 1
			tr = signed
		}
		sig, err := key.Sign(encryption.Hash(signed.Encode()))
		if err != nil {
			panic(err)
		}
		input, _ := json.Marshal(Vote{ProposalID: pid, Transfer: tr, Signature: sig})
		txHash := []string{"txn-a", "txn-b", "txn-c", "txn-d"}[i]
		// every vote is its own transaction: its writes are kept only when it succeeds
		balances, overlay := ledger.Begin(&transaction.Transaction{})
		before := 0

		_, verr := ms.vote(txHash, voter.clientID, now, input, balances)
		if verr == nil {
			ledger.Commit(overlay)
		}

		// reference: an expired proposal is forgotten (a later vote starts afresh)
		if c, live := created[pid]; live && now >= c+ExpirationTime {
			delete(created, pid)
			delete(liveTr, pid)
			delete(voted, pid)
			delete(executed, pid)
		}
		st := balances.GetSignedTransfers()
		if len(st) > before {
			sym.Cover("executed")
			executed[pid]++
			sym.Assert(len(st) == before+1, "one vote executes at most one transfer")
			x := st[len(st)-1]
			sym.Assert(x.Transfer == tr, "the executed transfer is the transfer the completing vote was cast for")
			if lt, live := liveTr[pid]; live {
				sym.Assert(x.Transfer == lt, "the executed transfer is the transfer the proposal was created with")
			}
			sym.Assert(x.VerifySignature(true) == nil, "the executed transfer carries a valid threshold signature of the wallet")
			sym.Assert(verr == nil && who < 2 && kind != 1, "only a registered signer's validly signed vote can complete a proposal")
			cnt := len(voted[pid])
			if who < 2 && !voted[pid][voter.clientID] {
				cnt++
			}
			sym.Assert(cnt >= w.NumRequired, "a transfer executes only after the required number of distinct registered signers voted for it before it expired")
			sym.Assert(executed[pid] == 1, "a proposal is executed exactly once")
		}
		if verr == nil && who < 2 && kind != 1 {
			if _, live := created[pid]; !live {
				created[pid] = now
				liveTr[pid] = tr
				voted[pid] = map[string]bool{}
			}
			if liveTr[pid] == tr {
				voted[pid][voter.clientID] = true
			} else if executed[pid] == 0 {
				sym.Fail("a vote whose transfer differs from the proposal's is rejected")
			}
		}
		// (votes for an already executed proposal are answered "previously executed" without effect)
		if verr == nil && who < 2 && kind == 1 && executed[pid] == 0 {
			sym.Fail("a vote whose signature was not made by the voter's key is rejected")
		}
		if verr == nil && who == 2 && executed[pid] == 0 {
			sym.Fail("a vote by somebody who is not a signer of the wallet is rejected")
		}
		if verr != nil {
			sym.Cover("vote-rejected")
		} else {
			sym.Cover("vote-accepted")
		}
	}
}

func VerifC21_votes3() { vC21Run(3) }
func VerifC21_votes4() { vC21Run(4) }
