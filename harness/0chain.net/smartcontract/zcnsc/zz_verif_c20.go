package zcnsc

import (
	"0chain.net/chaincore/block"
	"0chain.net/chaincore/state"
	"0chain.net/chaincore/transaction"
	"0chain.net/smartcontract/dbs"
	"0chain.net/smartcontract/dbs/event"
	"0chain.net/smartcontract/stakepool"
	"0chain.net/smartcontract/stakepool/spenum"
	"0chain.net/zzverif/sym"
	"0chain.net/zzverif/symstate"
	"github.com/0chain/common/core/currency"
)

const verifBurner2 = "b200000000000000000000000000000000000000000000000000000000000002"

type vC20Burn struct {
	client, addr, hash string
	amount             currency.Coin
	nonce              int64
}

// vC20Burns: k accepted burns in one block (each by one of two clients, to one of two Ethereum
// addresses, arbitrary amounts) executed by the real Burn; the block's event list then goes
// through the real mergeEvents.
func vC20Burns(k int) {
	zcn := NewZCNSmartContract().(*ZCNSmartContract)
	b := &block.Block{}
	b.Round = 3
	balances, _ := symstate.Balances(b, &transaction.Transaction{})
	gn := &GlobalNode{ID: ADDRESS, ZCNSConfig: &ZCNSConfig{}}
	gn.MinBurnAmount = 1
	gn.MinAuthorizers = 1
	gn.OwnerId = "owner"
	if _, err := balances.InsertTrieNode(gn.GetKey(), gn); err != nil {
		panic(err)
	}
	var burns []vC20Burn
	var all []event.Event
	for i := 0; i < k; i++ {
		t := &transaction.Transaction{}
		t.ClientID = []string{verifBurner, verifBurner2}[sym.Choice("client", 0, 1)]
		t.ToClientID = ADDRESS
		t.Hash = []string{"d100000000000000000000000000000000000000000000000000000000000001", "d200000000000000000000000000000000000000000000000000000000000002", "d300000000000000000000000000000000000000000000000000000000000003"}[i]
		t.Value = currency.Coin(sym.U64("amount"))
		sym.Assume(t.Value >= 1 && t.Value < 1<<40)
		addr := []string{"0xAAAA", "0xBBBB"}[sym.Choice("address", 0, 1)]
		// each transaction has its own state context over the block state (as in updateState)
		ctx := symstate.BalancesOn(balances.GetState(), b, t)
		if _, err := zcn.Burn(t, (&BurnPayload{EthereumAddress: addr}).Encode(), ctx); err != nil {
			panic("burn rejected: " + err.Error())
		}
		un, err := GetUserNode(addr, ctx)
		if err != nil {
			panic(err)
		}
		burns = append(burns, vC20Burn{t.ClientID, addr, t.Hash, t.Value, un.BurnNonce})
		all = append(all, ctx.GetEvents()...)
	}
	merged, err := event.VerifMerge(b.Round, "blockhash", all)
	if err != nil {
		sym.Fail("the block's events merge without an error")
		return
	}
	sym.Cover("merged")
	// totals per burner
	got := map[string]uint64{}
	var tickets []event.BurnTicket
	for _, e := range merged {
		switch e.Tag {
		case event.TagAuthorizerBurn:
			for _, x := range e.Data.([]state.Burn) {
				got[x.Burner] += uint64(x.Amount)
			}
		case event.TagAddBurnTicket:
			tickets = append(tickets, e.Data.([]event.BurnTicket)...)
		}
	}
	for _, c := range []string{verifBurner, verifBurner2} {
		want := uint64(0)
		n := 0
		for _, x := range burns {
			if x.client == c {
				want += uint64(x.amount)
				n++
			}
		}
		if n > 1 {
			sym.Cover("one-client-burns-twice")
		}
		sym.Assert(got[c] == want, "every burn of the block counts toward the burner's total in the merged events")
	}
	for _, x := range burns {
		found := 0
		for _, tk := range tickets {
			if tk.EthereumAddress == x.addr && tk.Hash == x.hash && tk.Amount == x.amount && tk.Nonce == x.nonce {
				found++
			}
		}
		sym.Assert(found == 1, "the merged events carry exactly one burn ticket (address, amount, nonce, hash) for every burn of the block")
	}
	if k > 1 && burns[0].addr == burns[1].addr {
		sym.Cover("same-address-twice")
	}
}

// VerifC20_mints: the bridge-mint events of two accepted mints in one block, shaped as
// ZCNSmartContract.mint emits them (C18 asserts that shape: index = client, payload = user,
// nonce, amount, signers), go through the real mergeEvents: every mint must count toward each
// of its signers' totals, and each client's highest mint nonce must survive.
func VerifC20_mints() {
	var all []event.Event
	type mint struct {
		client  string
		amount  currency.Coin
		nonce   int64
		signers []string
	}
	var mints []mint
	for i := 0; i < 2; i++ {
		m := mint{client: []string{verifBurner, verifBurner2}[sym.Choice("client", 0, 1)], amount: currency.Coin(sym.U64("amount")), nonce: int64(i + 1)}
		sym.Assume(m.amount < 1<<40)
		m.signers = [][]string{{"auth1"}, {"auth1", "auth2"}}[sym.Choice("signers", 0, 1)]
		mints = append(mints, m)
		all = append(all, event.Event{Type: event.TypeStats, Tag: event.TagAddBridgeMint, Index: m.client,
			Data: &event.BridgeMint{UserID: m.client, MintNonce: m.nonce, Amount: m.amount, Signers: m.signers}})
	}
	merged, err := event.VerifMerge(3, "blockhash", all)
	if err != nil {
		sym.Fail("the block's events merge without an error")
		return
	}
	sym.Cover("merged")
	got := map[string]uint64{}
	for _, e := range merged {
		if e.Tag == event.TagAddBridgeMint {
			for _, bm := range e.Data.([]event.BridgeMint) {
				for _, s := range bm.Signers {
					got[s] += uint64(bm.Amount)
				}
			}
		}
	}
	for _, a := range []string{"auth1", "auth2"} {
		want := uint64(0)
		for _, m := range mints {
			for _, s := range m.signers {
				if s == a {
					want += uint64(m.amount)
				}
			}
		}
		sym.Assert(got[a] == want, "every mint of the block counts toward each signing authorizer's total in the merged events")
	}
	if mints[0].client == mints[1].client {
		sym.Cover("one-client-mints-twice")
	}
}

// VerifC20_poolEvents: two stake-pool reward events or two stake-pool penalty events in one
// block (emitted through the real stakepool.StakePoolReward.Emit) for the same or for different
// providers, arbitrary amounts for one delegate each: after the real mergeEvents, every
// (provider, delegate) total equals the sum of the block's events.
func VerifC20_poolEvents() {
	b := &block.Block{}
	b.Round = 3
	balances, _ := symstate.Balances(b, &transaction.Transaction{})
	penalty := sym.Bool("penalties")
	tag := event.TagStakePoolReward
	if penalty {
		tag = event.TagStakePoolPenalty
	}
	type rec struct {
		provider, delegate string
		amount             currency.Coin
	}
	var recs []rec
	for i := 0; i < 2; i++ {
		r := rec{provider: []string{"p1", "p2"}[sym.Choice("provider", 0, 1)], delegate: []string{"d1", "d2"}[sym.Choice("delegate", 0, 1)], amount: currency.Coin(sym.U64("amount"))}
		sym.Assume(r.amount < 1<<40)
		recs = append(recs, r)
		spu := stakepool.NewStakePoolReward(r.provider, spenum.Blobber, spenum.ChallengeSlashPenalty, "wallet")
		if penalty {
			spu.DelegatePenalties[r.delegate] = r.amount
		} else {
			spu.DelegateRewards[r.delegate] = r.amount
		}
		if err := spu.Emit(tag, balances); err != nil {
			panic(err)
		}
	}
	merged, err := event.VerifMerge(b.Round, "blockhash", balances.GetEvents())
	if err != nil {
		sym.Fail("the block's events merge without an error")
		return
	}
	sym.Cover("merged")
	got := map[string]uint64{}
	for _, e := range merged {
		if e.Tag == tag {
			for _, sp := range e.Data.([]dbs.StakePoolReward) {
				for d, v := range sp.DelegatePenalties {
					got[sp.ID+"/"+d] += uint64(v)
				}
				for d, v := range sp.DelegateRewards {
					got[sp.ID+"/"+d] += uint64(v)
				}
			}
		}
	}
	for _, p := range []string{"p1", "p2"} {
		for _, d := range []string{"d1", "d2"} {
			want := uint64(0)
			for _, r := range recs {
				if r.provider == p && r.delegate == d {
					want += uint64(r.amount)
				}
			}
			if penalty {
				sym.Assert(got[p+"/"+d] == want, "every delegate penalty of the block counts in the merged events")
			} else {
				sym.Assert(got[p+"/"+d] == want, "every delegate reward of the block counts in the merged events")
			}
		}
	}
	if recs[0].provider == recs[1].provider {
		sym.Cover("same-provider-twice")
	}
}

func VerifC20_burns2() { vC20Burns(2) }
func VerifC20_burns3() { vC20Burns(3) }
