package zcnsc

import (
	"0chain.net/chaincore/block"
	cstate "0chain.net/chaincore/chain/state"
	"0chain.net/chaincore/transaction"
	"0chain.net/zzverif/sym"
	"0chain.net/zzverif/symstate"
	"github.com/0chain/common/core/currency"
	"github.com/0chain/common/core/util"
)

const (
	verifBurner  = "b100000000000000000000000000000000000000000000000000000000000001"
	verifTxnHash = "dddddddddddddddddddddddddddddddddddddddddddddddddddddddddddddddd"
)

func verifZcnGlobal(balances cstate.StateContextI) *GlobalNode {
	gn := &GlobalNode{ID: ADDRESS, ZCNSConfig: &ZCNSConfig{}}
	gn.MinMintAmount = currency.Coin(sym.U64("minMint"))
	gn.MinBurnAmount = currency.Coin(sym.U64("minBurn"))
	gn.MinAuthorizers = 1
	gn.PercentAuthorizers = 0.7
	gn.MaxFee = currency.Coin(sym.U64("maxFee"))
	gn.OwnerId = "owner"
	gn.MaxDelegates = 10
	if _, err := balances.InsertTrieNode(gn.GetKey(), gn); err != nil {
		panic(err)
	}
	return gn
}

func verifUserNonce(t util.MerklePatriciaTrieI, addr string) (int64, bool) {
	un := NewUserNode(addr)
	err := t.GetNodeValue(util.Path(symstate.PathOf(un.GetKey())), un)
	if err != nil {
		return 0, false
	}
	return un.BurnNonce, true
}

// VerifC19_burn: one burn from an arbitrary state (arbitrary minimums, value, prior nonce
// of the target address, another address with its own nonce, target possibly empty).
func VerifC19_burn() { verifC19Run(false) }

// VerifC04_burn: the same step, asserting only who pays (C04 attribution rule).
func VerifC04_burn() { verifC19Run(true) }

func verifC19Run(onlyAuth bool) {
	zcn := NewZCNSmartContract().(*ZCNSmartContract)
	t := &transaction.Transaction{}
	t.ClientID = verifBurner
	t.ToClientID = ADDRESS
	t.Hash = verifTxnHash
	t.Value = currency.Coin(sym.U64("value"))
	b := &block.Block{}
	b.Round = 3
	balances, trie := symstate.Balances(b, t)
	gn := verifZcnGlobal(balances)
	addrs := []string{"", "0xAAAA", "0xBBBB"}
	target := addrs[sym.Choice("target", 0, 2)]
	other := "0xBBBB"
	if target == other {
		other = "0xAAAA"
	}
	// prior nonces
	pre := map[string]int64{}
	for _, a := range []string{"0xAAAA", "0xBBBB"} {
		if sym.Bool("hasNode") {
			un := NewUserNode(a)
			un.BurnNonce = sym.I64("burnNonce")
			sym.Assume(un.BurnNonce >= 0 && un.BurnNonce < 9000000000000000000)
			pre[a] = un.BurnNonce
			if err := un.Save(balances); err != nil {
				panic(err)
			}
		}
	}
	payload := (&BurnPayload{EthereumAddress: target}).Encode()
	writesBefore := len(symstate.Writes(trie))

	_, err := zcn.Burn(t, payload, balances)

	tr := balances.GetTransfers()
	if onlyAuth {
		if err == nil {
			sym.Cover("burn-accepted")
			symstate.AssertAuthorised(balances, t, ADDRESS)
		}
		return
	}
	if err != nil {
		sym.Cover("burn-rejected")
		sym.Assert(len(tr) == 0, "a rejected burn moves no tokens")
		sym.Assert(len(symstate.Writes(trie)) == writesBefore, "a rejected burn writes nothing")
		for _, a := range []string{"0xAAAA", "0xBBBB"} {
			n, _ := verifUserNonce(trie, a)
			sym.Assert(n == pre[a], "a rejected burn leaves every burn nonce unchanged")
		}
		if t.Value >= gn.MinBurnAmount && target != "" {
			sym.Fail("a burn at or above the minimum with a target address is accepted")
		}
		return
	}
	sym.Cover("burn-accepted")
	sym.Assert(t.Value >= gn.MinBurnAmount, "burns below the minimum amount change nothing")
	sym.Assert(target != "", "burns without a target address change nothing")
	sym.Assert(len(tr) == 1 && tr[0].ClientID == verifBurner && tr[0].ToClientID == ADDRESS && tr[0].Amount == t.Value, "exactly the transaction value moves from the burner to the bridge contract wallet")
	n, ok := verifUserNonce(trie, target)
	sym.Assert(ok && n == pre[target]+1, "the burn nonce of the target address increases by exactly one")
	n2, _ := verifUserNonce(trie, other)
	sym.Assert(n2 == pre[other], "no other address's burn nonce moves")
}
