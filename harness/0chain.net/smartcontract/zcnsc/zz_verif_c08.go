package zcnsc

import (
	"0chain.net/zzverif/sym"
	"0chain.net/zzverif/symstate"
)

// VerifC08_zcnsc: the bridge contract's stored records.
func VerifC08_zcnsc() {
	switch sym.Choice("entity", 0, 3) {
	case 0:
		gn := &GlobalNode{ID: ADDRESS, ZCNSConfig: &ZCNSConfig{OwnerId: "o", Cost: map[string]int{"a": 1}}}
		sym.Havoc(gn)
		symstate.RoundTrip("bridge global settings", gn, &GlobalNode{ID: ADDRESS})
	case 1:
		un := NewUserNode("0xabc")
		sym.Havoc(un)
		symstate.RoundTrip("bridge user node", un, NewUserNode(""))
	case 2:
		an := NewAuthorizer("a1", "pk", "http://a")
		sym.Havoc(an)
		symstate.RoundTrip("authorizer node", an, NewAuthorizerNode(""))
	case 3:
		sp := NewStakePool()
		sp.Settings.DelegateWallet = "w"
		sym.Havoc(sp)
		symstate.RoundTrip("authorizer stake pool", sp, NewStakePool())
	}
}
