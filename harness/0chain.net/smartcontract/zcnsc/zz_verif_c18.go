package zcnsc

import (
	"math"
	"strings"

	"0chain.net/chaincore/block"
	cstate "0chain.net/chaincore/chain/state"
	"0chain.net/chaincore/transaction"
	"0chain.net/core/encryption"
	"0chain.net/smartcontract/dbs/event"
	"0chain.net/smartcontract/stakepool"
	"0chain.net/smartcontract/stakepool/spenum"
	"0chain.net/smartcontract/storagesc"
	"0chain.net/zzverif/sym"
	"0chain.net/zzverif/symstate"
	"github.com/0chain/common/core/currency"
	"github.com/0chain/common/core/util"
)

const (
	vC18Client  = "c100000000000000000000000000000000000000000000000000000000000001"
	vC18Other   = "c200000000000000000000000000000000000000000000000000000000000002"
	vC18Unknown = "ee00000000000000000000000000000000000000000000000000000000000009"
	vC18Hash    = "dddddddddddddddddddddddddddddddddddddddddddddddddddddddddddddddd"
	vC18Deleg   = "de00000000000000000000000000000000000000000000000000000000000001"
)

type vC18Auth struct {
	id  string
	key encryption.SignatureScheme
}

func vC18Pool(t util.MerklePatriciaTrieI, id string) *StakePool {
	sp := NewStakePool()
	if err := t.GetNodeValue(util.Path(symstate.PathOf(stakepool.StakePoolKey(spenum.Authorizer, id))), sp); err != nil {
		return nil
	}
	return sp
}

func vC18PoolTotal(sp *StakePool) []uint64 {
	out := []uint64{uint64(sp.Reward)}
	for _, id := range []string{vC18Deleg} {
		if dp, ok := sp.Pools[id]; ok {
			out = append(out, uint64(dp.Reward))
		}
	}
	return out
}

// vC18Run: one mint from an arbitrary bridge state. maxSigs bounds the payload's signature list.
func vC18Run(maxSigs int) {
	zcn := NewZCNSmartContract().(*ZCNSmartContract)
	t := &transaction.Transaction{}
	t.ClientID = vC18Client
	t.ToClientID = ADDRESS
	t.Hash = vC18Hash
	b := &block.Block{}
	b.Round = 3
	balances, trie := symstate.Balances(b, t)

	gn := &GlobalNode{ID: ADDRESS, ZCNSConfig: &ZCNSConfig{}}
	gn.MinMintAmount = currency.Coin(sym.U64("minMint"))
	gn.MaxFee = currency.Coin(sym.U64("maxFee"))
	gn.PercentAuthorizers = []float64{0.5, 0.7, 1.0}[sym.Choice("percent", 0, 2)]
	gn.MinAuthorizers = 1
	gn.OwnerId = "owner"
	gn.MaxDelegates = 10
	if _, err := balances.InsertTrieNode(gn.GetKey(), gn); err != nil {
		panic(err)
	}
	// registered authorizers, each with a key pair, a node and a stake pool
	nAuth := sym.Choice("authorizers", 1, 3)
	var auths []vC18Auth
	for i := 0; i < nAuth; i++ {
		k := balances.GetSignatureScheme()
		if err := k.GenerateKeys(); err != nil {
			panic(err)
		}
		id := encryption.Hash(k.GetPublicKey())
		an := NewAuthorizer(id, k.GetPublicKey(), "http://a")
		if _, err := balances.InsertTrieNode(an.GetKey(), an); err != nil {
			panic(err)
		}
		sp := NewStakePool()
		sp.Minter = cstate.MinterZcn
		sp.Settings.DelegateWallet = id
		sp.Settings.ServiceChargeRatio = 0
		sp.Reward = currency.Coin(sym.U64("providerReward"))
		sym.Assume(sp.Reward < 1<<62)
		if i == 0 && sym.Bool("hasDelegate") {
			dp := &stakepool.DelegatePool{DelegateID: vC18Deleg, Status: spenum.Active}
			dp.Balance = 1000 // how a reward is split between delegates is C10's subject
			dp.Reward = currency.Coin(sym.U64("delegateReward"))
			sym.Assume(dp.Reward < 1<<62)
			sp.Pools[vC18Deleg] = dp
		}
		if err := sp.save("", id, balances); err != nil {
			panic(err)
		}
		auths = append(auths, vC18Auth{id, k})
	}
	if _, err := balances.InsertTrieNode(storagesc.AUTHORIZERS_COUNT_KEY, &AuthCount{Count: nAuth}); err != nil {
		panic(err)
	}
	// an unregistered party with its own key
	stranger := balances.GetSignatureScheme()
	if err := stranger.GenerateKeys(); err != nil {
		panic(err)
	}
	// scenario: 0 = arbitrary signature list (receiver = submitter, fresh nonce);
	// 1 = somebody else's mint; 2 = nonce already minted; both with an arbitrary list as well
	scenario := sym.Choice("scenario", 0, 2)
	prior := scenario == 2
	if prior {
		if err := PartitionWZCNMintedNonceAdd(balances, 7); err != nil {
			panic(err)
		}
	}

	payload := &MintPayload{EthereumTxnID: "0xabc"}
	payload.Amount = currency.Coin(sym.U64("amount"))
	sym.Assume(payload.Amount < 1<<62)
	payload.Nonce = 7
	payload.ReceivingClientID = vC18Client
	if scenario == 1 {
		payload.ReceivingClientID = vC18Other
	}
	toSign := payload.GetStringToSign()
	other := *payload
	other.Amount = payload.Amount + 1
	toSignOther := other.GetStringToSign()

	nSigs := sym.Choice("signatures", 0, maxSigs)
	if scenario != 0 && nSigs != nAuth {
		return // the rejection scenarios are explored with lists as long as the authorizer set
	}
	good := map[string]bool{} // registered authorizers with a valid signature in the payload
	for i := 0; i < nSigs; i++ {
		who := sym.Choice("signer", 0, nAuth) // nAuth = the unregistered party
		var id string
		var key encryption.SignatureScheme
		if who == nAuth {
			id, key = vC18Unknown, stranger
		} else {
			id, key = auths[who].id, auths[who].key
		}
		var sig string
		var err error
		kind := sym.Choice("sigKind", 0, 3)
		switch kind {
		case 0: // the signer's valid signature over this mint
			sig, err = key.Sign(toSign)
		case 1: // well-formed signature made with somebody else's key
			sig, err = stranger.Sign(toSign)
			if who == nAuth {
				kind = 0
			}
		case 2: // the signer's signature over a different amount
			sig, err = key.Sign(toSignOther)
		case 3: // the signer's valid signature in another spelling (hex digits in upper case)
			sig, err = key.Sign(toSign)
			sig = strings.ToUpper(sig)
			kind = 0
		}
		if err != nil {
			panic(err)
		}
		payload.Signatures = append(payload.Signatures, &AuthorizerSignature{ID: id, Signature: sig})
		if who < nAuth && kind == 0 {
			good[id] = true
		}
	}
	// what the code will look at: the first nAuth entries
	considered := payload.Signatures
	if len(considered) > nAuth {
		considered = considered[:nAuth]
	}
	allValid := true
	distinct := map[string]bool{}
	for i, s := range considered {
		_ = i
		distinct[s.ID] = true
	}
	_ = allValid
	threshold := int(math.RoundToEven(gn.PercentAuthorizers * float64(nAuth)))
	pre := map[string][]uint64{}
	for _, a := range auths {
		pre[a.id] = vC18PoolTotal(vC18Pool(trie, a.id))
	}
	maxFee := gn.MaxFee

	_, err := zcn.mint(t, payload.Encode(), sym.I64("seed"), balances)

	tr := balances.GetTransfers()
	if err != nil {
		sym.Cover("mint-rejected")
		if sym.Symbolic() && nSigs == 1 && scenario == 0 {
			sym.Observe("reject", err.Error())
		}
		return
	}
	sym.Cover("mint-accepted")
	sym.Assert(payload.ReceivingClientID == t.ClientID, "only the receiving client of the burn can submit the mint")
	sym.Assert(!(prior && payload.Nonce == 7), "a mint nonce succeeds at most once")
	nGood := 0
	for id := range distinct {
		if good[id] {
			nGood++
		}
	}
	sym.Assert(nGood >= threshold, "an accepted mint carries valid signatures of at least the configured fraction of distinct registered authorizers")
	for _, s := range considered {
		sym.Assert(good[s.ID], "every signature counted towards an accepted mint is a registered authorizer's valid signature over this mint")
	}
	// amounts: the client gets amount - share, one signing authorizer's pool gets share
	nConsidered := uint64(len(considered))
	share := uint64(maxFee) / nConsidered
	sym.Assert(len(tr) == 1 && tr[0].ClientID == ADDRESS && tr[0].ToClientID == vC18Client, "minted tokens go from the bridge wallet to the receiving client")
	if len(tr) == 1 {
		sym.Assert(sym.SumEq([]uint64{uint64(tr[0].Amount), share}, []uint64{uint64(payload.Amount)}), "the client receives the requested amount minus the authorizer fee")
	}
	credited := 0
	for _, a := range auths {
		post := vC18PoolTotal(vC18Pool(trie, a.id))
		if sym.SumEq(post, pre[a.id]) {
			continue
		}
		credited++
		sym.Assert(distinct[a.id], "the fee goes to an authorizer that signed the mint")
		sym.Assert(sym.SumEq(post, append(append([]uint64{}, pre[a.id]...), share)), "the authorizer's pool is credited exactly the fee")
	}
	if share > 0 {
		sym.Cover("fee-paid")
		sym.Assert(credited == 1, "exactly one authorizer is credited the fee")
	} else {
		sym.Assert(credited == 0, "no pool changes when the fee is zero")
	}
	// what the query database is told (C20 builds on this shape)
	nMint := 0
	for _, e := range balances.GetEvents() {
		if e.Tag == event.TagAddBridgeMint {
			nMint++
			bm, ok := e.Data.(*event.BridgeMint)
			sym.Assert(ok && e.Index == t.ClientID && bm.UserID == t.ClientID && bm.MintNonce == payload.Nonce && len(tr) == 1 && bm.Amount == tr[0].Amount,
				"an accepted mint emits one bridge-mint event indexed by the client with the nonce and the minted amount")
		}
	}
	sym.Assert(nMint == 1, "an accepted mint emits exactly one bridge-mint event")
	// the nonce is consumed: minting it again fails
	balances2 := balances
	_, err2 := zcn.mint(t, payload.Encode(), 1, balances2)
	sym.Assert(err2 != nil, "the same mint submitted again is rejected")
}

func VerifC18_mint2() { vC18Run(2) }
func VerifC18_mint3() { vC18Run(3) }
