package zcnsc

import (
	"time"

	"0chain.net/chaincore/block"
	"0chain.net/chaincore/transaction"
	"0chain.net/core/config"
	"0chain.net/zzverif/sym"
	"0chain.net/zzverif/symstate"
	"github.com/0chain/common/core/util"
)

const vC06Owner = "0a00000000000000000000000000000000000000000000000000000000000001"

func vC06Err(err error) string {
	if err == nil {
		return "<nil>"
	}
	return err.Error()
}

// vC06BridgeConfig: the owner's update-global-config with n requested fields.
func vC06BridgeConfig(n int) {
	menu := [][2]string{
		{MinAuthorizers, "2"}, {MinAuthorizers, "two"}, {MaxDelegates, "x"}, {"no_such_setting", "1"},
		{MinLockAmount, "-1"}, {HealthCheckPeriod, "often"}, {MaxDelegates, "9"}, {PercentAuthorizers, "half"},
	}
	fields := symstate.PickFields(menu, n)
	if fields == nil {
		return
	}
	sym.Cover("fields-chosen")
	symstate.Deterministic("bridge update-global-config gives the same output, error and state on every execution", func() (string, util.MerklePatriciaTrieI) {
		zcn := &ZCNSmartContract{}
		t := &transaction.Transaction{}
		t.ClientID = vC06Owner
		t.ToClientID = ADDRESS
		b := &block.Block{}
		b.Round = 7
		balances, trie := symstate.Balances(b, t)
		gn := &GlobalNode{ID: ADDRESS, ZCNSConfig: &ZCNSConfig{OwnerId: vC06Owner, Cost: map[string]int{"mint": 1},
			MinMintAmount: 1, MinBurnAmount: 1, MinStakeAmount: 1, MaxStakeAmount: 100, MinLockAmount: 1, MinAuthorizers: 1,
			PercentAuthorizers: 0.7, MaxFee: 10, MaxDelegates: 5, HealthCheckPeriod: time.Hour}}
		if _, err := balances.InsertTrieNode(gn.GetKey(), gn); err != nil {
			panic(err)
		}
		changes := config.NewStringMap()
		for _, e := range fields {
			changes.Fields[e[0]] = e[1]
		}
		resp, err := zcn.UpdateGlobalConfig(t, changes.Encode(), balances)
		if err != nil {
			sym.Cover("rejected")
			sym.Observe("err", err.Error())
		} else {
			sym.Cover("accepted")
		}
		return resp + "|" + vC06Err(err), trie
	})
}

func VerifC06_bridgeConfig2() { vC06BridgeConfig(2) }
func VerifC06_bridgeConfig3() { vC06BridgeConfig(3) }
