package faucetsc

import (
	"time"

	"0chain.net/chaincore/block"
	"0chain.net/chaincore/state"
	"0chain.net/chaincore/transaction"
	"0chain.net/core/common"
	"0chain.net/zzverif/sym"
	"0chain.net/zzverif/symstate"
	"github.com/0chain/common/core/currency"
)

const verifC17Client = "c1ffee0000000000000000000000000000000000000000000000000000000001"
const verifC17Hash = "aaaaaaaaaaaaaaaaaaaaaaaaaaaaaaaaaaaaaaaaaaaaaaaaaaaaaaaaaaaaaaaa"

// VerifC17_pour: one pour from an arbitrary pre-state that satisfies the window invariant
// (user.Used <= PeriodicLimit, global Used <= GlobalLimit) under an arbitrary configuration
// accepted by the contract's own validate(); the invariant must hold on the persisted
// post-state and the poured amount must be backed by the faucet balance.
func VerifC17_pour() { verifC17Run(false) }

// VerifC04_pour: the same step, asserting only who pays (C04 attribution rule).
func VerifC04_pour() { verifC17Run(true) }

func verifC17Run(onlyAuth bool) {
	fc := NewFaucetSmartContract().(*FaucetSmartContract)
	t := &transaction.Transaction{}
	t.ClientID = verifC17Client
	t.ToClientID = ADDRESS
	t.Hash = verifC17Hash
	t.Value = currency.Coin(sym.U64("value"))
	// times are concrete, chosen on and around the window boundaries (time arithmetic is not the subject)
	const now = int64(1700000000)
	const indiv, glob = int64(3600), int64(7200)
	t.CreationDate = common.Timestamp(now)
	b := &block.Block{}
	b.Round = 10
	balances, trie := symstate.Balances(b, t)

	gn := &GlobalNode{ID: ADDRESS, FaucetConfig: &FaucetConfig{}}
	gn.PourAmount = currency.Coin(sym.U64("pourAmount"))
	gn.MaxPourAmount = currency.Coin(sym.U64("maxPourAmount"))
	gn.PeriodicLimit = currency.Coin(sym.U64("periodicLimit"))
	gn.GlobalLimit = currency.Coin(sym.U64("globalLimit"))
	gn.IndividualReset = time.Duration(indiv) * time.Second
	gn.GlobalReset = time.Duration(glob) * time.Second
	gn.OwnerId = "owner"
	sym.Assume(gn.validate() == nil)
	gn.Used = currency.Coin(sym.U64("globalUsed"))
	gstart := now - []int64{0, glob - 1, glob, glob + 5}[sym.Choice("globalAge", 0, 3)]
	gn.StartTime = common.ToTime(common.Timestamp(gstart))
	sym.Assume(gn.Used <= gn.GlobalLimit) // window invariant (global)
	if _, err := balances.InsertTrieNode(gn.GetKey(), gn); err != nil {
		sym.Fail("setup: insert global node")
	}
	hasUser := sym.Bool("userExists")
	preUser := currency.Coin(0)
	ustart := now - []int64{0, indiv - 1, indiv, glob}[sym.Choice("userAge", 0, 3)]
	if hasUser {
		un := &UserNode{ID: verifC17Client}
		un.Used = currency.Coin(sym.U64("userUsed"))
		un.StartTime = common.ToTime(common.Timestamp(ustart))
		sym.Assume(un.Used <= gn.PeriodicLimit) // window invariant (per client)
		preUser = un.Used
		if _, err := balances.InsertTrieNode(un.GetKey(gn.ID), un); err != nil {
			sym.Fail("setup: insert user node")
		}
	}
	faucetBal := currency.Coin(sym.U64("faucetBalance"))
	st := &state.State{Balance: faucetBal}
	_ = st.SetTxnHash(verifC17Hash)
	if _, err := balances.SetClientState(ADDRESS, st); err != nil {
		sym.Fail("setup: faucet balance")
	}
	preGlobal := gn.Used
	globalLimit, periodicLimit := gn.GlobalLimit, gn.PeriodicLimit

	_, err := fc.Execute(t, "pour", nil, balances)

	tr := balances.GetTransfers()
	if onlyAuth {
		if err == nil {
			sym.Cover("pour-accepted")
			symstate.AssertAuthorised(balances, t, ADDRESS)
		}
		return
	}
	if err != nil {
		sym.Cover("pour-rejected")
		return
	}
	sym.Cover("pour-accepted")
	sym.Assert(len(tr) == 1, "an accepted pour queues exactly one transfer")
	if len(tr) != 1 {
		return
	}
	amt := tr[0].Amount
	sym.Assert(tr[0].ClientID == ADDRESS && tr[0].ToClientID == verifC17Client, "tokens go from the faucet to the requesting client")
	sym.Assert(amt <= faucetBal, "a pour never exceeds the faucet balance")
	// persisted post-state
	gn2 := &GlobalNode{ID: ADDRESS}
	sym.Assert(trie.GetNodeValue([]byte(symstate.PathOf(gn.GetKey())), gn2) == nil, "global node persisted")
	un2 := &UserNode{ID: verifC17Client}
	sym.Assert(trie.GetNodeValue([]byte(symstate.PathOf(un2.GetKey(ADDRESS))), un2) == nil, "user node persisted")
	sym.Assert(un2.Used <= periodicLimit, "per-client limit: tokens poured to one client within a reset window never exceed the periodic limit")
	sym.Assert(gn2.Used <= globalLimit, "global limit: tokens poured to all clients within a global window never exceed the global limit")
	// accounting: the counters advance by exactly the poured amount unless their window restarted
	globalReset := now-gstart >= glob
	userReset := !hasUser || now-ustart >= indiv || now-ustart >= glob
	if globalReset {
		sym.Cover("global-window-restarted")
		sym.Assert(gn2.Used == amt, "after a global window restart the counter is the poured amount")
	} else {
		sym.Assert(sym.SumEq([]uint64{uint64(gn2.Used)}, []uint64{uint64(preGlobal), uint64(amt)}), "global counter advances by exactly the poured amount")
	}
	if userReset {
		sym.Cover("user-window-restarted")
		sym.Assert(un2.Used == amt, "after a client window restart the counter is the poured amount")
	} else {
		sym.Cover("user-window-continues")
		sym.Assert(sym.SumEq([]uint64{uint64(un2.Used)}, []uint64{uint64(preUser), uint64(amt)}), "client counter advances by exactly the poured amount")
	}
}
