package faucetsc

import (
	"time"

	"0chain.net/chaincore/block"
	"0chain.net/chaincore/transaction"
	"0chain.net/core/config"
	"0chain.net/zzverif/sym"
	"0chain.net/zzverif/symstate"
	"github.com/0chain/common/core/util"
)

const vC06Owner = "0a00000000000000000000000000000000000000000000000000000000000001"

func vC06Err(err error) string {
	if err == nil {
		return "<nil>"
	}
	return err.Error()
}

// vC06FaucetSettings: the owner's update-settings with n requested fields.
func vC06FaucetSettings(n int) {
	menu := [][2]string{
		{"pour_amount", "2"}, {"pour_amount", "two"}, {"individual_reset", "later"}, {"no_such_setting", "1"},
		{"owner_id", "zz"}, {"global_limit", "x"}, {"global_rest", "3h"}, {"cost.pour", "-"},
	}
	fields := symstate.PickFields(menu, n)
	if fields == nil {
		return
	}
	sym.Cover("fields-chosen")
	symstate.Deterministic("faucet update-settings gives the same output, error and state on every execution", func() (string, util.MerklePatriciaTrieI) {
		fc := &FaucetSmartContract{}
		t := &transaction.Transaction{}
		t.ClientID = vC06Owner
		t.ToClientID = ADDRESS
		b := &block.Block{}
		b.Round = 7
		balances, trie := symstate.Balances(b, t)
		gn := &GlobalNode{ID: ADDRESS, FaucetConfig: &FaucetConfig{OwnerId: vC06Owner, Cost: map[string]int{"pour": 1},
			PourAmount: 1, MaxPourAmount: 1e12, PeriodicLimit: 1e13, GlobalLimit: 1e14, IndividualReset: time.Hour, GlobalReset: 2 * time.Hour}}
		changes := config.NewStringMap()
		for _, e := range fields {
			changes.Fields[e[0]] = e[1]
		}
		resp, err := fc.updateSettings(t, changes.Encode(), balances, gn)
		if err != nil {
			sym.Cover("rejected")
			sym.Observe("err", err.Error())
		} else {
			sym.Cover("accepted")
		}
		return resp + "|" + vC06Err(err), trie
	})
}

func VerifC06_faucetSettings2() { vC06FaucetSettings(2) }
func VerifC06_faucetSettings3() { vC06FaucetSettings(3) }
