package faucetsc

import (
	"time"

	"0chain.net/chaincore/block"
	"0chain.net/chaincore/transaction"
	"0chain.net/core/config"
	"0chain.net/zzverif/sym"
	"0chain.net/zzverif/symstate"
	"github.com/0chain/common/core/currency"
	"github.com/0chain/common/core/util"
)

const (
	vC48Stranger = "0b00000000000000000000000000000000000000000000000000000000000002"
	vC48Third    = "0c00000000000000000000000000000000000000000000000000000000000003"
)

// VerifC48_faucetSettings: one update-settings call by the owner or a stranger, from an
// arbitrary valid faucet configuration (arbitrary limits satisfying validate), with 1..2
// requested settings drawn from valid values, an unknown name and unparsable values.
func VerifC48_faucetSettings() {
	sym.MapOrder(2)
	fc := &FaucetSmartContract{}
	t := &transaction.Transaction{}
	t.ClientID = []string{vC06Owner, vC48Stranger}[sym.Choice("caller", 0, 1)]
	t.ToClientID = ADDRESS
	b := &block.Block{}
	b.Round = 7
	balances, trie := symstate.Balances(b, t)
	gn := &GlobalNode{ID: ADDRESS, FaucetConfig: &FaucetConfig{OwnerId: vC06Owner, Cost: map[string]int{"pour": 1},
		IndividualReset: time.Hour, GlobalReset: 2 * time.Hour}}
	gn.PourAmount = currency.Coin(sym.U64("pourAmount"))
	gn.MaxPourAmount = currency.Coin(sym.U64("maxPourAmount"))
	gn.PeriodicLimit = currency.Coin(sym.U64("periodicLimit"))
	gn.GlobalLimit = currency.Coin(sym.U64("globalLimit"))
	sym.Assume(gn.validate() == nil)
	if _, err := balances.InsertTrieNode(gn.GetKey(), gn); err != nil {
		panic(err)
	}
	pre := *gn.FaucetConfig
	n := sym.Choice("entries", 1, 2)
	changes := config.NewStringMap()
	anyBad := false
	for i := 0; i < n; i++ {
		var key, val string
		bad := false
		switch sym.Choice("entry", 0, 7) {
		case 0:
			key, val = "max_pour_amount", "5" // 5 ZCN
		case 1:
			key, val = "periodic_limit", "50"
		case 2:
			key, val = "global_rest", "3h"
		case 3:
			key, val, bad = "no_such_setting", "1", true
		case 4:
			key, val, bad = "pour_amount", "two", true
		case 5:
			key, val, bad = "owner_id", "zz", true
		case 6: // ownership handed to the stranger (possibly by the stranger itself)
			key, val = "owner_id", vC48Stranger
		case 7: // ownership handed to a third party
			key, val = "owner_id", vC48Third
		}
		if _, dup := changes.Fields[key]; dup {
			return
		}
		changes.Fields[key] = val
		anyBad = anyBad || bad
	}
	cur := &GlobalNode{ID: ADDRESS}
	if err := balances.GetTrieNode(gn.GetKey(), cur); err != nil {
		panic(err)
	}
	_, err := fc.updateSettings(t, changes.Encode(), balances, cur)
	stored := &GlobalNode{ID: ADDRESS}
	if gerr := trie.GetNodeValue(util.Path(symstate.PathOf(gn.GetKey())), stored); gerr != nil {
		sym.Fail("the faucet settings stay readable")
		return
	}
	if err != nil {
		sym.Cover("rejected")
		sym.Assert(stored.PourAmount == pre.PourAmount && stored.MaxPourAmount == pre.MaxPourAmount && stored.PeriodicLimit == pre.PeriodicLimit &&
			stored.GlobalLimit == pre.GlobalLimit && stored.GlobalReset == pre.GlobalReset && stored.OwnerId == pre.OwnerId,
			"a rejected change leaves the stored faucet settings as they were")
		return
	}
	sym.Cover("accepted")
	sym.Assert(t.ClientID == vC06Owner, "faucet settings change only through a transaction from the configured owner")
	sym.Assert(!anyBad, "a map with an unknown setting or an unparsable value is rejected as a whole")
	sym.Assert(stored.validate() == nil, "accepted faucet settings pass validation")
	if _, ok := changes.Fields["max_pour_amount"]; ok {
		sym.Assert(stored.MaxPourAmount == 5e10, "the requested setting takes the requested value")
	} else {
		sym.Assert(stored.MaxPourAmount == pre.MaxPourAmount, "settings that were not requested keep their value")
	}
	if _, ok := changes.Fields["periodic_limit"]; ok {
		sym.Assert(stored.PeriodicLimit == 50e10, "the requested setting takes the requested value")
	} else {
		sym.Assert(stored.PeriodicLimit == pre.PeriodicLimit, "settings that were not requested keep their value")
	}
	sym.Assert(stored.PourAmount == pre.PourAmount && stored.GlobalLimit == pre.GlobalLimit, "settings that were not requested keep their value")
	if v, ok := changes.Fields["owner_id"]; ok {
		sym.Cover("owner-changed")
		sym.Assert(stored.OwnerId == v, "the requested setting takes the requested value")
	} else {
		sym.Assert(stored.OwnerId == pre.OwnerId, "settings that were not requested keep their value")
	}
}
