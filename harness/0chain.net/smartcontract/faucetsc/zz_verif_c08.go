package faucetsc

import (
	"0chain.net/zzverif/sym"
	"0chain.net/zzverif/symstate"
)

// VerifC08_faucet: the faucet's stored records.
func VerifC08_faucet() {
	if sym.Bool("userNode") {
		un := &UserNode{ID: "u1"}
		sym.Havoc(un)
		symstate.RoundTrip("faucet user node", un, &UserNode{})
		return
	}
	gn := &GlobalNode{ID: ADDRESS, FaucetConfig: &FaucetConfig{OwnerId: "o", Cost: map[string]int{"pour": 1}}}
	sym.Havoc(gn)
	symstate.RoundTrip("faucet global node", gn, &GlobalNode{ID: ADDRESS})
}
