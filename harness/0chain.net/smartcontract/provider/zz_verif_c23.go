package provider

import (
	"0chain.net/chaincore/block"
	cstate "0chain.net/chaincore/chain/state"
	"0chain.net/chaincore/transaction"
	"0chain.net/smartcontract/stakepool"
	"0chain.net/smartcontract/stakepool/spenum"
	"0chain.net/zzverif/sym"
	"0chain.net/zzverif/symstate"
	"github.com/0chain/common/core/currency"
	"github.com/0chain/common/core/util"
)

const (
	vC23Owner    = "0a00000000000000000000000000000000000000000000000000000000000001"
	vC23P        = "b100000000000000000000000000000000000000000000000000000000000001"
	vC23Q        = "b200000000000000000000000000000000000000000000000000000000000002"
	vC23WalletP  = "d100000000000000000000000000000000000000000000000000000000000001"
	vC23WalletQ  = "d200000000000000000000000000000000000000000000000000000000000002"
	vC23Stranger = "e100000000000000000000000000000000000000000000000000000000000009"
	vC23Hash     = "dddddddddddddddddddddddddddddddddddddddddddddddddddddddddddddddd"
)

var vC23Callers = []string{vC23Owner, vC23WalletP, vC23P, vC23Stranger, vC23WalletQ}
var vC23Delegates = []string{"de00000000000000000000000000000000000000000000000000000000000001", "de00000000000000000000000000000000000000000000000000000000000002"}

type vC23World struct {
	balances *cstate.StateContext
	trie     util.MerklePatriciaTrieI
	ptype    spenum.Provider
	slash    float64
	preBal   map[string]map[string]currency.Coin // provider -> delegate -> balance
}

func vC23LoadPool(t util.MerklePatriciaTrieI, pt spenum.Provider, id string) *stakepool.StakePool {
	sp := stakepool.NewStakePool()
	if err := t.GetNodeValue(util.Path(symstate.PathOf(stakepool.StakePoolKey(pt, id))), sp); err != nil {
		return nil
	}
	return sp
}

func vC23LoadProvider(t util.MerklePatriciaTrieI, id string) *Provider {
	p := &Provider{}
	if err := t.GetNodeValue(util.Path(symstate.PathOf(GetKey(id))), p); err != nil {
		return nil
	}
	return p
}

func vC23Setup() *vC23World {
	t := &transaction.Transaction{}
	t.Hash = vC23Hash
	b := &block.Block{}
	b.Round = 4
	w := &vC23World{preBal: map[string]map[string]currency.Coin{}}
	w.balances, w.trie = symstate.Balances(b, t)
	w.ptype = []spenum.Provider{spenum.Blobber, spenum.Validator, spenum.Authorizer}[sym.Choice("providerType", 0, 2)]
	w.slash = []float64{0, 0.5, 1}[sym.Choice("slash", 0, 2)]
	for i, id := range []string{vC23P, vC23Q} {
		p := &Provider{ID: id, ProviderType: w.ptype}
		if _, err := w.balances.InsertTrieNode(GetKey(id), p); err != nil {
			panic(err)
		}
		sp := stakepool.NewStakePool()
		sp.Minter = cstate.MinterStorage
		sp.Settings.DelegateWallet = []string{vC23WalletP, vC23WalletQ}[i]
		w.preBal[id] = map[string]currency.Coin{}
		n := 1
		if i == 0 {
			n = sym.Choice("delegates", 0, 2)
		}
		for k := 0; k < n; k++ {
			dp := &stakepool.DelegatePool{DelegateID: vC23Delegates[k], Status: spenum.Active}
			dp.Balance = currency.Coin(sym.U64("stake"))
			sym.Assume(dp.Balance < 1<<53) // stakes are far below 2^53 base units (9e15 > the whole supply is 4e18/1e10 ZCN... stated bound)
			sp.Pools[dp.DelegateID] = dp
			w.preBal[id][dp.DelegateID] = dp.Balance
		}
		if err := sp.Save(w.ptype, id, w.balances); err != nil {
			panic(err)
		}
	}
	return w
}

// vC23Do mimics the contract wrappers (storagesc kill*/shutdown*): provider.Kill / ShutDown
// with a providerSpecific that loads provider and stake pool, then the provider is saved.
func (w *vC23World) do(op int, caller, target string) error {
	var prov *Provider
	specific := func(req ProviderRequest) (AbstractProvider, stakepool.AbstractStakePool, error) {
		prov = &Provider{}
		if err := w.balances.GetTrieNode(GetKey(req.ID), prov); err != nil {
			return nil, nil, err
		}
		sp := stakepool.NewStakePool()
		if err := sp.Get(prov.Type(), prov.Id(), w.balances); err != nil {
			return nil, nil, err
		}
		return prov, sp, nil
	}
	input := (&ProviderRequest{ID: target}).Encode()
	var err error
	if op == 0 {
		err = Kill(input, caller, vC23Owner, w.slash, specific, nil, w.balances)
	} else {
		err = ShutDown(input, caller, vC23Owner, w.slash, specific, nil, w.balances)
	}
	if err != nil {
		return err
	}
	_, err = w.balances.InsertTrieNode(GetKey(prov.Id()), prov)
	return err
}

func (w *vC23World) slashed(pre, post currency.Coin) bool {
	switch w.slash {
	case 0:
		return post == pre
	case 1:
		return post == 0
	}
	return sym.LinLe([]uint64{2}, []uint64{uint64(post)}, []uint64{1, 6}, []uint64{uint64(pre), 1}) && post <= pre &&
		sym.LinLe([]uint64{1}, []uint64{uint64(pre)}, []uint64{2, 6}, []uint64{uint64(post), 1}) // up to the float enclosure's slack (3 base units)
}

// VerifC23_step: one kill or shutdown of provider P by any caller, then a reward payment and a
// second kill/shutdown attempt by an authorised caller.
func VerifC23_step() {
	w := vC23Setup()
	op := sym.Choice("op", 0, 1) // 0 kill, 1 shut down
	caller := vC23Callers[sym.Choice("caller", 0, len(vC23Callers)-1)]
	writesBefore := len(symstate.Writes(w.trie))

	err := w.do(op, caller, vC23P)

	authorised := caller == vC23Owner || (op == 1 && caller == vC23WalletP)
	if err != nil {
		sym.Cover("rejected")
		sym.Assert(!authorised, "the contract owner can kill, the owner or the provider's delegate wallet can shut down an active provider")
		return
	}
	sym.Cover([]string{"killed", "shut-down"}[op])
	sym.Assert(authorised, "only the contract owner kills and only the owner or the provider's delegate wallet shuts a provider down")
	// exactly P's records were written
	for _, wr := range symstate.Writes(w.trie)[writesBefore:] {
		ok := wr == symstate.PathOf(stakepool.StakePoolKey(w.ptype, vC23P)) || wr == symstate.PathOf(GetKey(vC23P))
		sym.Assert(ok, "kill / shut down writes only the provider's own record and its own stake pool")
	}
	for _, other := range []string{vC23Owner, vC23WalletP, vC23Stranger, vC23WalletQ} {
		sym.Assert(vC23LoadPool(w.trie, w.ptype, other) == nil, "no stake pool record is created under the caller's or anybody else's id")
	}
	q := vC23LoadPool(w.trie, w.ptype, vC23Q)
	sym.Assert(q != nil && !q.HasBeenKilled && q.Pools[vC23Delegates[0]].Balance == w.preBal[vC23Q][vC23Delegates[0]], "another provider's stake pool is untouched")
	pq := vC23LoadProvider(w.trie, vC23Q)
	sym.Assert(pq != nil && !pq.HasBeenKilled && !pq.HasBeenShutDown, "another provider's record is untouched")
	// P: dead, slashed once
	sp := vC23LoadPool(w.trie, w.ptype, vC23P)
	sym.Assert(sp != nil && sp.HasBeenKilled, "the provider's own stake pool is marked dead")
	if sp == nil || !sp.HasBeenKilled {
		return
	}
	pp := vC23LoadProvider(w.trie, vC23P)
	sym.Assert(pp != nil && (pp.HasBeenKilled || pp.HasBeenShutDown), "the provider is recorded as killed or shut down")
	mid := map[string]currency.Coin{}
	for id, pre := range w.preBal[vC23P] {
		dp, ok := sp.Pools[id]
		sym.Assert(ok && w.slashed(pre, dp.Balance), "every delegate stake is reduced by the configured fraction")
		if ok {
			mid[id] = dp.Balance
		}
	}
	// no further rewards
	rew := sp.Reward
	value := currency.Coin(sym.U64("reward"))
	if e := sp.DistributeRewards(value, vC23P, w.ptype, spenum.BlockRewardBlobber, w.balances); e == nil {
		unchanged := sp.Reward == rew
		for _, dp := range sp.Pools {
			unchanged = unchanged && dp.Reward == 0
		}
		sym.Assert(unchanged, "a dead stake pool receives no further rewards")
	}
	// a second attempt by an authorised caller changes nothing (slashed exactly once)
	op2 := sym.Choice("secondOp", 0, 1)
	caller2 := vC23Owner
	if op2 == 1 && sym.Bool("secondByWallet") {
		caller2 = vC23WalletP
	}
	err2 := w.do(op2, caller2, vC23P)
	sym.Assert(err2 != nil, "a provider that is already killed or shut down cannot be killed or shut down again")
	sp2 := vC23LoadPool(w.trie, w.ptype, vC23P)
	for id, b := range mid {
		dp, ok := sp2.Pools[id]
		sym.Assert(ok && dp.Balance == b, "the stake pool is slashed exactly once")
	}
	sym.Cover("second-attempt")
}
