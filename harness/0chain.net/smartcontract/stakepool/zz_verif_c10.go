package stakepool

import (
	"0chain.net/chaincore/block"
	"0chain.net/smartcontract/stakepool/spenum"
	"0chain.net/zzverif/sym"
	"0chain.net/zzverif/symstate"
	"github.com/0chain/common/core/currency"
)

var verifC10Balances = []currency.Coin{0, 10, 30}
var verifC10Ratios = []float64{0, 0.1, 0.5}

type verifC10Pre struct {
	sp      *StakePool
	ids     []string
	bal     map[string]currency.Coin
	reward  map[string]currency.Coin
	spRew   currency.Coin
	stake   currency.Coin
	value   currency.Coin
}

// verifC10Pool: 0..n delegate pools with balances from a representative set (zero, small,
// unequal, large), arbitrary accrued rewards, arbitrary value, min stake and killed flag.
func verifC10Pool(nmax int) *verifC10Pre {
	p := &verifC10Pre{bal: map[string]currency.Coin{}, reward: map[string]currency.Coin{}}
	sp := NewStakePool()
	n := sym.Choice("pools", 0, nmax)
	scale := []currency.Coin{1, 100000000000}[sym.Choice("stakeScale", 0, 1)]
	for i := 0; i < n; i++ {
		id := []string{"d1", "d2", "d3", "d4"}[i]
		dp := &DelegatePool{DelegateID: id, Status: spenum.Active}
		dp.Balance = scale * verifC10Balances[sym.Choice("balance", 0, len(verifC10Balances)-1)]
		dp.Reward = currency.Coin(sym.U64("reward"))
		sym.Assume(dp.Reward < 1<<63) // accrued rewards are far below the counter's range
		sp.Pools[id] = dp
		p.ids = append(p.ids, id)
		p.bal[id] = dp.Balance
		p.reward[id] = dp.Reward
		p.stake += dp.Balance
	}
	sp.Reward = currency.Coin(sym.U64("providerReward"))
	sym.Assume(sp.Reward < 1<<63)
	sp.Settings.DelegateWallet = "wallet"
	sp.Settings.MinStake = currency.Coin(sym.U64("minStake"))
	sp.Settings.ServiceChargeRatio = verifC10Ratios[sym.Choice("charge", 0, len(verifC10Ratios)-1)]
	sp.HasBeenKilled = sym.Bool("killed")
	p.sp = sp
	p.spRew = sp.Reward
	p.value = currency.Coin(sym.U64("value"))
	sym.Assume(p.value < 1<<62) // any amount up to (beyond) the total token supply of 4e18
	return p
}

func (p *verifC10Pre) deltas() (total []uint64, per map[string]currency.Coin, ok bool) {
	per = map[string]currency.Coin{}
	ok = p.sp.Reward >= p.spRew
	total = append(total, uint64(p.sp.Reward-p.spRew))
	for _, id := range p.ids {
		d := p.sp.Pools[id].Reward - p.reward[id]
		ok = ok && p.sp.Pools[id].Reward >= p.reward[id]
		per[id] = d
		total = append(total, uint64(d))
	}
	return
}

// VerifC10_distribute: DistributeRewards splits the value exactly.
func VerifC10_distribute() {
	p := verifC10Pool(3)
	b := &block.Block{}
	balances, _ := symstate.Balances(b, nil)
	err := p.sp.DistributeRewards(p.value, "prov", spenum.Blobber, spenum.BlockRewardBlobber, balances)
	total, per, mono := p.deltas()
	if err != nil {
		sym.Cover("distribute-error")
		return
	}
	sym.Assert(mono, "no reward counter decreases")
	if p.value == 0 || p.sp.HasBeenKilled || p.stake < p.sp.Settings.MinStake {
		sym.Cover("nothing-to-pay")
		sym.Assert(sym.SumEq(total, []uint64{0}), "a killed or under-staked provider (or a zero payment) credits nothing")
		return
	}
	sym.Cover("paid")
	sym.Assert(sym.SumEq(total, []uint64{uint64(p.value)}), "service charge plus delegate increments add up to exactly the paid amount (no wrap)")
	if len(p.ids) == 0 {
		sym.Cover("no-delegates")
		return
	}
	// proportionality up to rounding by a few units: |share_i*stake - left*bal_i| <= (n+2)*stake
	charge := p.sp.Reward - p.spRew
	left := p.value - charge
	sym.Assert(charge <= p.value, "the service charge never exceeds the paid amount")
	n := uint64(len(p.ids))
	// proportionality is claimed where the conversions of the amount to float64 are exact
	if p.stake > 0 && p.value < 1<<53 {
		for _, id := range p.ids {
			st, bl := uint64(p.stake), uint64(p.bal[id])
			// share*stake + (n+2)*stake >= left*bal   and   share*stake <= left*bal + (n+2)*stake
			sym.Assert(sym.LinLe([]uint64{bl}, []uint64{uint64(left)}, []uint64{st, st}, []uint64{uint64(per[id]), n + 4}), "each delegate's share is at least its stake-proportional part up to a few units")
			sym.Assert(sym.LinLe([]uint64{st}, []uint64{uint64(per[id])}, []uint64{bl, st}, []uint64{uint64(left), n + 4}), "each delegate's share is at most its stake-proportional part up to a few units")
		}
		sym.Cover("proportional")
	}
}

// VerifC10_randN: DistributeRewardsRandN credits at most N delegates, exactly, and
// proportionally to the stakes of the selected subset.
func VerifC10_randN() {
	p := verifC10Pool(3)
	b := &block.Block{}
	b.Round = 100
	balances, _ := symstate.Balances(b, nil)
	randN := sym.Choice("randN", 1, 3)
	seed := sym.I64("seed")
	err := p.sp.DistributeRewardsRandN(p.value, "prov", spenum.Miner, seed, randN, spenum.BlockRewardMiner, balances)
	total, per, mono := p.deltas()
	if err != nil {
		sym.Cover("distribute-error")
		return
	}
	sym.Assert(mono, "no reward counter decreases")
	if p.value == 0 || p.sp.HasBeenKilled || p.stake < p.sp.Settings.MinStake {
		sym.Cover("nothing-to-pay")
		sym.Assert(sym.SumEq(total, []uint64{0}), "a killed or under-staked provider (or a zero payment) credits nothing")
		return
	}
	sym.Cover("paid")
	charge := p.sp.Reward - p.spRew
	left := p.value - charge
	sym.Assert(charge <= p.value, "the service charge never exceeds the paid amount")
	credited := 0
	var subset currency.Coin
	for _, id := range p.ids {
		if per[id] > 0 {
			credited++
			subset += p.bal[id]
		}
	}
	sym.Assert(credited <= randN, "at most N delegates are credited")
	if credited > 0 || len(p.ids) == 0 {
		sym.Assert(sym.SumEq(total, []uint64{uint64(p.value)}), "service charge plus delegate increments add up to exactly the paid amount (no wrap)")
	}
	if randN < len(p.ids) {
		sym.Cover("subset-smaller-than-set")
	}
	// proportionality inside the credited subset (when every selected delegate was credited)
	if credited >= 2 && subset > 0 && p.value < 1<<53 {
		n := uint64(credited)
		for _, id := range p.ids {
			if per[id] == 0 {
				continue
			}
			st, bl := uint64(subset), uint64(p.bal[id])
			sym.Assert(sym.LinLe([]uint64{bl}, []uint64{uint64(left)}, []uint64{st, st}, []uint64{uint64(per[id]), n + 4}), "within the rewarded subset each share is at least its stake-proportional part up to a few units")
			sym.Assert(sym.LinLe([]uint64{st}, []uint64{uint64(per[id])}, []uint64{bl, st}, []uint64{uint64(left), n + 4}), "within the rewarded subset each share is at most its stake-proportional part up to a few units")
		}
		sym.Cover("subset-proportional")
	}
}
