package stakepool

import (
	"0chain.net/zzverif/sym"
	"0chain.net/zzverif/symstate"
)

// VerifC08_stakepool: stake pools with 0..2 delegate pools.
func VerifC08_stakepool() {
	sp := NewStakePool()
	sp.Settings.DelegateWallet = "w"
	n := sym.Choice("delegates", 0, 2)
	for i := 0; i < n; i++ {
		id := []string{"d1", "d2"}[i]
		sp.Pools[id] = &DelegatePool{DelegateID: id}
	}
	sym.Havoc(sp)
	symstate.RoundTrip("stake pool", sp, NewStakePool())
}
