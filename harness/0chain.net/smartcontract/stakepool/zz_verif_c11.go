package stakepool

import (
	"0chain.net/chaincore/block"
	cstate "0chain.net/chaincore/chain/state"
	"0chain.net/chaincore/state"
	"0chain.net/chaincore/transaction"
	"0chain.net/smartcontract/stakepool/spenum"
	"0chain.net/zzverif/sym"
	"0chain.net/zzverif/symstate"
	"github.com/0chain/common/core/currency"
	"github.com/0chain/common/core/util"
)

const (
	vC11Contract = "6dba10422e368813802877a85039d3985d96760ed844092319743fb3a76712d7"
	vC11A        = "a100000000000000000000000000000000000000000000000000000000000001"
	vC11B        = "b200000000000000000000000000000000000000000000000000000000000002"
	vC11X        = "c300000000000000000000000000000000000000000000000000000000000003"
	vC11Wallet   = "d400000000000000000000000000000000000000000000000000000000000004"
	vC11Hash     = "eeeeeeeeeeeeeeeeeeeeeeeeeeeeeeeeeeeeeeeeeeeeeeeeeeeeeeeeeeeeeeee"
)

func vC11Get(pt spenum.Provider, id string, balances cstate.StateContextI) (AbstractStakePool, error) {
	sp := NewStakePool()
	if err := sp.Get(pt, id, balances); err != nil {
		return nil, err
	}
	return sp, nil
}

type vC11Pool struct{ bal, rew currency.Coin }

// vC11Setup persists a stake pool of provider "prov" with 0..2 existing delegates (A, B)
// with arbitrary balances and accrued rewards, and returns their pre-state.
func vC11Setup(balances cstate.StateContextI) (map[string]vC11Pool, *StakePool) {
	sp := NewStakePool()
	sp.Minter = cstate.MinterMiner
	sp.Settings.DelegateWallet = vC11Wallet
	sp.Settings.MaxNumDelegates = sym.Int("providerMaxDelegates")
	sym.Assume(sp.Settings.MaxNumDelegates >= 0 && sp.Settings.MaxNumDelegates <= 3)
	sp.Reward = currency.Coin(sym.U64("providerReward"))
	pre := map[string]vC11Pool{}
	for _, id := range []string{vC11A, vC11B} {
		if sym.Bool("hasPool") {
			dp := &DelegatePool{DelegateID: id, Status: spenum.Active}
			dp.Balance = currency.Coin(sym.U64("poolBalance"))
			dp.Reward = currency.Coin(sym.U64("poolReward"))
			sym.Assume(dp.Balance < 1<<62 && dp.Reward < 1<<62)
			sp.Pools[id] = dp
			pre[id] = vC11Pool{dp.Balance, dp.Reward}
		}
	}
	if err := sp.Save(spenum.Miner, "prov", balances); err != nil {
		panic(err)
	}
	return pre, sp
}

func vC11Load(t util.MerklePatriciaTrieI) *StakePool {
	sp := NewStakePool()
	if err := t.GetNodeValue(util.Path(symstate.PathOf(StakePoolKey(spenum.Miner, "prov"))), sp); err != nil {
		return nil
	}
	return sp
}

func vC11SamePools(sp *StakePool, pre map[string]vC11Pool, except string) bool {
	ok := true
	n := 0
	for id, p := range pre {
		if id == except {
			continue
		}
		n++
		dp, has := sp.Pools[id]
		ok = ok && has && dp.Balance == p.bal && dp.Reward == p.rew
	}
	for id := range sp.Pools {
		if id == except {
			continue
		}
		_, has := pre[id]
		ok = ok && has
	}
	return ok
}

// VerifC11_lock: one lock from an arbitrary pool state.
func VerifC11_lock() { verifC11Lock(false) }

// VerifC04_lock / VerifC04_unlock: the same steps, asserting only who pays (C04).
func VerifC04_lock()   { verifC11Lock(true) }
func VerifC04_unlock() { verifC11Unlock(true) }

func verifC11Lock(onlyAuth bool) {
	t := &transaction.Transaction{}
	t.ClientID = []string{vC11A, vC11X}[sym.Choice("staker", 0, 1)]
	t.ToClientID = vC11Contract
	t.Hash = vC11Hash
	t.Value = currency.Coin(sym.U64("value"))
	b := &block.Block{}
	b.Round = 9
	balances, trie := symstate.Balances(b, t)
	pre, _ := vC11Setup(balances)
	spPre := vC11Load(trie)
	maxProv := spPre.Settings.MaxNumDelegates
	clientBal := currency.Coin(sym.U64("clientBalance"))
	if sym.Bool("clientHasState") {
		st := &state.State{Balance: clientBal}
		_ = st.SetTxnHash(vC11Hash)
		if _, err := balances.SetClientState(t.ClientID, st); err != nil {
			panic(err)
		}
	} else {
		clientBal = 0
	}
	vs := ValidationSettings{MinStake: currency.Coin(sym.U64("minStake")), MaxStake: currency.Coin(sym.U64("maxStake")), MaxNumDelegates: 10}
	input := (&StakePoolRequest{ProviderType: spenum.Miner, ProviderID: "prov"}).Encode()

	_, err := StakePoolLock(t, input, balances, vs, vC11Get)

	tr := balances.GetTransfers()
	post := vC11Load(trie)
	if onlyAuth {
		if err == nil {
			sym.Cover("lock-accepted")
			symstate.AssertAuthorised(balances, t, vC11Contract, vC11Minter())
		}
		return
	}
	if err != nil {
		sym.Cover("lock-rejected")
		// (whatever a failing call wrote or queued is discarded by the chain: C02)
		return
	}
	sym.Cover("lock-accepted")
	had, existed := pre[t.ClientID]
	sym.Assert(len(tr) == 1 && tr[0].ClientID == t.ClientID && tr[0].ToClientID == vC11Contract && tr[0].Amount == t.Value, "exactly the locked value moves from the staker to the contract wallet")
	sym.Assert(t.Value <= clientBal, "a client cannot lock more than it owns")
	sym.Assert(t.Value > 0 && t.Value >= vs.MinStake, "the lock respects the minimum stake")
	dp, ok := post.Pools[t.ClientID]
	sym.Assert(ok && dp.DelegateID == t.ClientID, "the staker owns a delegate pool after the lock")
	if ok {
		sym.Assert(sym.SumEq([]uint64{uint64(dp.Balance)}, []uint64{uint64(had.bal), uint64(t.Value)}), "the staker's pool grows by exactly the locked value")
		sym.Assert(dp.Balance <= vs.MaxStake, "the pool stays within the maximum stake")
		sym.Assert(dp.Reward == had.rew, "accrued rewards are untouched by a lock")
	}
	sym.Assert(vC11SamePools(post, pre, t.ClientID), "no other delegate pool changes")
	if !existed {
		sym.Cover("new-delegate")
		sym.Assert(len(post.Pools) <= maxProv, "a new delegate is admitted only within the provider's delegate limit")
	}
}

// VerifC11_unlock: one unlock from an arbitrary pool state by the owner, another delegate or a stranger.
func VerifC11_unlock() { verifC11Unlock(false) }

func verifC11Unlock(onlyAuth bool) {
	t := &transaction.Transaction{}
	t.ClientID = []string{vC11A, vC11B, vC11X, vC11Wallet}[sym.Choice("caller", 0, 3)]
	t.ToClientID = vC11Contract
	t.Hash = vC11Hash
	b := &block.Block{}
	b.Round = 9
	balances, trie := symstate.Balances(b, t)
	pre, sp0 := vC11Setup(balances)
	provReward := sp0.Reward
	input := (&StakePoolRequest{ProviderType: spenum.Miner, ProviderID: "prov"}).Encode()

	_, err := StakePoolUnlock(t, input, balances, vC11Get)

	tr := balances.GetTransfers()
	post := vC11Load(trie)
	mine, owns := pre[t.ClientID]
	if onlyAuth {
		if err == nil {
			sym.Cover("unlock-accepted")
			symstate.AssertAuthorised(balances, t, vC11Contract, vC11Minter())
		}
		return
	}
	if err != nil {
		sym.Cover("unlock-rejected")
		return
	}
	sym.Cover("unlock-accepted")
	sym.Assert(owns, "only the owner of a delegate pool can unlock it")
	if !owns {
		return
	}
	var back, minted currency.Coin
	for _, x := range tr {
		sym.Assert(x.ToClientID == t.ClientID, "every payout of an unlock goes to the pool owner")
		if x.ClientID == vC11Contract {
			back += x.Amount
		} else {
			minted += x.Amount
		}
	}
	sym.Assert(back == mine.bal, "the owner gets back exactly the pool balance")
	sym.Assert(minted == mine.rew, "the owner is paid exactly the accrued rewards of the pool")
	_, still := post.Pools[t.ClientID]
	sym.Assert(!still, "the delegate pool is removed")
	sym.Assert(vC11SamePools(post, pre, t.ClientID), "no other delegate pool changes")
	sym.Assert(post.Reward == provReward, "the provider's own reward is untouched by a delegate's unlock")
}

func vC11Minter() string {
	m, err := cstate.GetMinter(cstate.MinterMiner)
	if err != nil {
		panic(err)
	}
	return m
}
