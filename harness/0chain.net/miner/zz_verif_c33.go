package miner

import (
	"context"
	"encoding/hex"

	"0chain.net/chaincore/block"
	"0chain.net/chaincore/chain"
	"0chain.net/chaincore/node"
	"0chain.net/chaincore/round"
	"0chain.net/chaincore/threshold/bls"
	"0chain.net/core/common"
	"0chain.net/core/encryption"
	"0chain.net/zzverif/sym"
	"0chain.net/zzverif/symdkg"
)

const (
	vC33Round    = int64(10)
	vC33PrevSeed = int64(0x5eed5eed5eed)
	vC33N        = 4
)

type vC33Net struct {
	nodes []*node.Node
	dkgs  []*bls.DKG
	t     int
}

func vC33NewNet(t int) *vC33Net {
	pool := node.NewPool(node.NodeTypeMiner)
	for i := 0; i < vC33N; i++ {
		ss := encryption.NewBLS0ChainScheme()
		if err := ss.GenerateKeys(); err != nil {
			panic(err)
		}
		nd := node.Provider()
		nd.Type = node.NodeTypeMiner
		nd.PublicKey = ss.GetPublicKey()
		nd.Host, nd.N2NHost, nd.Port = "localhost", "localhost", 7000+i
		if err := pool.AddNode(nd); err != nil {
			panic(err)
		}
	}
	net := &vC33Net{nodes: pool.CopyNodes(), t: t}
	var ids []string
	for _, nd := range net.nodes {
		ids = append(ids, nd.GetKey())
	}
	net.dkgs = symdkg.Ideal(t, ids)
	return net
}

// vC33Miner: a miner (node 0 of the net) that finished round 9 with the previous seed and is
// in round `current`.
func (net *vC33Net) vC33Miner(current int64) *Chain {
	node.Self.Node = net.nodes[0]
	c := chain.Provider().(*chain.Chain)
	c.ChainConfig = chain.NewConfigImpl(&chain.ConfigData{IsDkgEnabled: true})
	SetupMinerChain(c)
	mc := GetMinerChain()
	pool := node.NewPool(node.NodeTypeMiner)
	for _, nd := range net.nodes {
		if err := pool.AddNode(nd); err != nil {
			panic(err)
		}
	}
	mb := block.NewMagicBlock()
	mb.Miners = pool
	mb.Sharders = node.NewPool(node.NodeTypeSharder)
	mb.T, mb.N, mb.K = net.t, vC33N, vC33N
	mb.StartingRound = 0
	mc.SetMagicBlock(mb)
	if err := mc.SetDKG(net.dkgs[0], 0); err != nil {
		panic(err)
	}
	pr := mc.CreateRound(round.NewRound(vC33Round - 1))
	pr.SetRandomSeed(vC33PrevSeed, vC33N)
	mc.AddRound(pr)
	mc.SetCurrentRound(current)
	return mc
}

// a share message of miner i: kind 0 valid, 1 signed over another message, 2 another party's
// valid share presented under i's name, 3 not a signature at all, 4 valid but for timeout count 1
func (net *vC33Net) vC33Share(i, kind int, msg string) *BlockMessage {
	vrfs := &round.VRFShare{Round: vC33Round, RoundTimeoutCount: 0}
	switch kind {
	case 0:
		vrfs.Share = net.dkgs[i].Sign(msg).GetHexString()
	case 1:
		vrfs.Share = net.dkgs[i].Sign("another message").GetHexString()
	case 2:
		vrfs.Share = net.dkgs[(i+1)%vC33N].Sign(msg).GetHexString()
	case 3:
		vrfs.Share = hex.EncodeToString([]byte("not a signature"))
	case 4:
		vrfs.Share = net.dkgs[i].Sign(msg).GetHexString()
		vrfs.RoundTimeoutCount = 1
	}
	vrfs.SetParty(net.nodes[i])
	bm := NewBlockMessage(MessageVRFShare, net.nodes[i], nil, nil)
	bm.VRFShare = vrfs
	return bm
}

// vC33Receive: one miner receives k share messages, each from an arbitrary sender, of an
// arbitrary kind, arbitrarily before it entered the round (parked in the round's cache) or
// after; returns the round.
func vC33Receive(ctx context.Context, net *vC33Net, k int, tag string, canonical bool) (*Chain, *Round, string) {
	mc := net.vC33Miner(vC33Round - 1)
	entered := false
	var blsMsg string
	{
		// the message every share of the round signs
		probe := net.vC33Miner(vC33Round)
		r := probe.getOrCreateRound(ctx, vC33Round)
		m, err := probe.GetBlsMessageForRound(r.Round)
		if err != nil {
			panic(err)
		}
		blsMsg = m
		mc = net.vC33Miner(vC33Round - 1)
	}
	if canonical {
		// the reference miner: in the round, receives the valid shares of parties 1..t in order
		mc.SetCurrentRound(vC33Round)
		for j := 1; j <= net.t; j++ {
			mc.handleVRFShare(ctx, net.vC33Share(j, 0, blsMsg))
		}
		return mc, mc.GetMinerRound(vC33Round), blsMsg
	}
	for j := 0; j < k; j++ {
		sender := sym.Choice(tag+"sender", 1, vC33N-1)
		kind := sym.Choice(tag+"kind", 0, 4)
		if !entered && sym.Bool(tag+"entersRoundFirst") {
			mc.SetCurrentRound(vC33Round)
			entered = true
		}
		mc.handleVRFShare(ctx, net.vC33Share(sender, kind, blsMsg))
	}
	if !entered {
		mc.SetCurrentRound(vC33Round)
	}
	return mc, mc.GetMinerRound(vC33Round), blsMsg
}

// vC33Run: two miners of one DKG instance (threshold 1..3 of 4): one receives k share messages
// (any senders, kinds, orders, early or late), the reference miner receives the valid shares of
// parties 1..t; every seed derived must be the reference miner's.
func vC33Run(k int) {
	round.SetupEntity(nil)
	ctx := context.Background()
	if !sym.Symbolic() {
		common.SetupRootContext(ctx) // (spawns a signal-handling goroutine)
	}
	t := sym.Choice("threshold", 1, 3)
	net := vC33NewNet(t)
	var seeds []int64
	var done []bool
	for m := 0; m < 2; m++ {
		tag := []string{"a:", "b:"}[m]
		mc, r, blsMsg := vC33Receive(ctx, net, k, tag, m == 1)
		if r == nil {
			seeds, done = append(seeds, 0), append(done, false)
			continue
		}
		dkg := mc.GetDKG(vC33Round)
		shares := r.GetVRFShares()
		for _, s := range shares {
			sym.Assert(verifyVRFShare(r, s, blsMsg, dkg), "a share that fails verification is never counted")
		}
		if r.IsVRFComplete() {
			sym.Cover("seed-derived")
			sym.Assert(len(shares) >= t, "fewer than threshold shares never produce a seed")
		}
		seeds, done = append(seeds, r.GetRandomSeed()), append(done, r.IsVRFComplete())
	}
	sym.Assert(done[1], "the reference miner, given threshold-many valid shares, derives a seed")
	if done[0] && done[1] {
		sym.Cover("both-derived")
		sym.Assert(seeds[0] == seeds[1], "two miners of one round, timeout count and previous seed derive the same round random seed")
	}
}

func VerifC33_shares2() { vC33Run(2) }
func VerifC33_shares3() { vC33Run(3) }

// VerifC33_restart: a round that collected shares for timeout count 0 restarts (the sequence of
// restartRound: Round.Restart, then the timeout count moves to 1, which changes the message
// every share signs) and then receives shares for timeout count 1. Nothing collected before
// the restart may be counted afterwards, and a fresh valid share of the same sender is accepted.
func VerifC33_restart() {
	round.SetupEntity(nil)
	ctx := context.Background()
	if !sym.Symbolic() {
		common.SetupRootContext(ctx)
	}
	t := sym.Choice("threshold", 2, 3)
	net := vC33NewNet(t)
	mc := net.vC33Miner(vC33Round)
	r := mc.getOrCreateRound(ctx, vC33Round)
	msg0, err := mc.GetBlsMessageForRound(r.Round)
	if err != nil {
		panic(err)
	}
	s1 := sym.Choice("sender1", 1, vC33N-1)
	mc.handleVRFShare(ctx, net.vC33Share(s1, sym.Choice("kind1", 0, 3), msg0))
	if r.IsVRFComplete() {
		return // threshold >= 2: one message cannot complete the round
	}
	if err := r.Restart(); err != nil {
		return
	}
	r.SetTimeoutCount(1)
	sym.Assert(len(r.GetVRFShares()) == 0, "a restarted round counts no share collected before the restart")
	msg1, err := mc.GetBlsMessageForRound(r.Round)
	if err != nil {
		panic(err)
	}
	s2 := sym.Choice("sender2", 1, vC33N-1)
	mc.handleVRFShare(ctx, net.vC33Share(s2, 4, msg1))
	dkg := mc.GetDKG(vC33Round)
	shares := r.GetVRFShares()
	for _, s := range shares {
		sym.Assert(verifyVRFShare(r, s, msg1, dkg), "after a restart every counted share verifies for the new timeout count")
	}
	sym.Cover("restarted")
	sym.Assert(len(shares) == 1, "the fresh valid share of the new timeout count is counted (also from the sender of a pre-restart share)")
	if r.IsVRFComplete() {
		sym.Assert(len(shares) >= t, "fewer than threshold shares never produce a seed")
	}
}
