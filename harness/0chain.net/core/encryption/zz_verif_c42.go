package encryption

import "0chain.net/zzverif/sym"

// VerifC42_xorScore: the XOR score is the Hamming distance of the two byte strings
// (bit-exact, symmetric, 0 for equal inputs) for arbitrary 3-byte ids and hashes.
func VerifC42_xorScore() {
	a := []byte{sym.U8("a0"), sym.U8("a1"), sym.U8("a2")}
	b := []byte{sym.U8("b0"), sym.U8("b1"), sym.U8("b2")}
	x := NewXORHashScorer()
	s := x.Score(a, b)
	// reference popcount
	var ref int32
	for i := range a {
		d := a[i] ^ b[i]
		ref += int32(d&1) + int32((d>>1)&1) + int32((d>>2)&1) + int32((d>>3)&1) + int32((d>>4)&1) + int32((d>>5)&1) + int32((d>>6)&1) + int32((d>>7)&1)
	}
	sym.Assert(s == ref, "score equals the Hamming distance")
	sym.Assert(x.Score(b, a) == s, "score is symmetric")
	sym.Assert(x.Score(a, a) == 0, "a hash has distance 0 to itself")
	sym.Assert(s >= 0 && s <= 24, "score is within the bit length")
	sym.Cover("scored")
}
