package encryption

import (
	"0chain.net/zzverif/sym"
)

// vC32Run: n signers each sign their own message; the presented signatures are the genuine
// ones shifted by integer multiples c_i of an unrelated group element D (c_i = 0: genuine).
// The batched check (any batch size) must accept exactly when every presented signature is
// individually valid.
func vC32Run(n int) {
	sym.Note("mode:bls-exponent-view")
	batch := sym.Choice("batchSize", 1, n)
	other := NewBLS0ChainScheme()
	if err := other.GenerateKeys(); err != nil {
		panic(err)
	}
	d, err := other.Sign(Hash("an unrelated message"))
	if err != nil {
		panic(err)
	}
	var verifiers []*BLS0ChainScheme
	var hashes, presented []string
	allGenuine := true
	var shiftSum int64
	for i := 0; i < n; i++ {
		k := NewBLS0ChainScheme()
		if err := k.GenerateKeys(); err != nil {
			panic(err)
		}
		h := Hash([]string{"message one", "message two", "message three"}[i])
		sig, err := k.Sign(h)
		if err != nil {
			panic(err)
		}
		c := sym.I64("shift")
		sym.Assume(c >= -2 && c <= 2)
		if c != 0 {
			allGenuine = false
		}
		shiftSum += c
		pub := NewBLS0ChainScheme()
		if err := pub.SetPublicKey(k.GetPublicKey()); err != nil {
			panic(err)
		}
		verifiers = append(verifiers, pub)
		hashes = append(hashes, h)
		presented = append(presented, sym.BLSAddMul(sig, d, c))
	}
	// individual checks
	individually := true
	for i := 0; i < n; i++ {
		ok, err := verifiers[i].Verify(presented[i], hashes[i])
		individually = individually && err == nil && ok
	}
	sym.Assert(individually == allGenuine, "a signature verifies individually exactly when it is the genuine one")
	// the batched check
	agg := NewBLS0ChainAggregateSignature(n, batch)
	for i := 0; i < n; i++ {
		if err := agg.Aggregate(verifiers[i], i, presented[i], hashes[i]); err != nil {
			sym.Fail("aggregation of well-formed signatures succeeds")
			return
		}
	}
	ok, _ := agg.Verify()
	if ok {
		sym.Cover("batch-accepted")
	} else {
		sym.Cover("batch-rejected")
	}
	if allGenuine {
		sym.Assert(ok, "a batch of genuine signatures is accepted")
	}
	if shiftSum != 0 {
		sym.Cover("errors-do-not-cancel")
		sym.Assert(!ok, "the batched check rejects a set of signatures whose errors do not cancel (every signature, in every batch including a trailing partial one, takes part)")
	} else {
		sym.Assert(!ok || individually, "the batched check accepts only when every signature is individually valid (invalid signatures that cancel each other out are rejected)")
	}
}

func VerifC32_batch2() { vC32Run(2) }
func VerifC32_batch3() { vC32Run(3) }
