package orderbuffer

import "0chain.net/zzverif/sym"

// VerifC46_ops: bounded unrolling of k symbolic operations on a buffer of symbolic
// capacity, checked against a reference sorted multiset kept in the harness.
func verifC46(k int) {
	max := sym.Choice("cap", 1, 3)
	rb := New(max)
	type ref struct {
		round int64
		data  int
	}
	var model []ref // sorted by round, stable
	for step := 0; step < k; step++ {
		op := sym.Choice("op", 0, 2)
		switch op {
		case 0: // Add
			r := sym.I64("round")
			d := sym.Choice("data", 0, 2)
			// a block has one round: equal data tokens carry equal rounds
			for _, m := range model {
				if m.data == d {
					sym.Assume(m.round == r)
				}
			}
			rb.Add(r, d)
			// reference: insertion point after all entries with round <= r
			idx := 0
			for idx < len(model) && model[idx].round <= r {
				idx++
			}
			if idx > 0 && model[idx-1].data == d {
				sym.Cover("repeat-ignored")
			} else {
				model = append(model, ref{})
				copy(model[idx+1:], model[idx:])
				model[idx] = ref{r, d}
				if len(model) > max {
					sym.Cover("dropped-highest")
					model = model[:max]
				}
			}
		case 1: // First
			it, ok := rb.First()
			sym.Assert(ok == (len(model) > 0), "First ok iff non-empty")
			if ok && len(model) > 0 {
				sym.Assert(it.Round == model[0].round && it.Data == model[0].data, "First returns the minimum")
			}
		case 2: // Pop
			it, ok := rb.Pop()
			sym.Assert(ok == (len(model) > 0), "Pop ok iff non-empty")
			if ok && len(model) > 0 {
				sym.Assert(it.Round == model[0].round && it.Data == model[0].data, "Pop returns the minimum")
				model = model[1:]
				sym.Cover("popped")
			}
		}
		// representation: same content as the reference, sorted, within capacity
		sym.Assert(len(rb.Buffer) == len(model), "length matches reference multiset")
		sym.Assert(len(rb.Buffer) <= max, "never above capacity")
		if len(rb.Buffer) == len(model) {
			for i := range model {
				sym.Assert(rb.Buffer[i].Round == model[i].round && rb.Buffer[i].Data == model[i].data, "content equals reference (sorted, stable, only highest dropped)")
				if i > 0 {
					sym.Assert(rb.Buffer[i-1].Round <= rb.Buffer[i].Round, "sorted by round")
				}
			}
		}
		sym.Assert(sym.LockBalance() == 0, "mutex released after each operation")
	}
}

func VerifC46_ops3() { verifC46(3) }
func VerifC46_ops5() { verifC46(5) }
