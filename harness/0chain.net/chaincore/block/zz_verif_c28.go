package block

import (
	"bytes"
	"context"

	"0chain.net/chaincore/state"
	"0chain.net/chaincore/transaction"
	"0chain.net/core/datastore"
	"0chain.net/smartcontract/dbs/event"
	"0chain.net/zzverif/sym"
	"github.com/0chain/common/core/currency"
	"github.com/0chain/common/core/statecache"
	"github.com/0chain/common/core/util"
)

// vC28Chain is the receiving node: only its state database matters to ApplyBlockStateChange.
type vC28Chain struct{ db util.NodeDB }

func (c *vC28Chain) GetPreviousBlock(ctx context.Context, b *Block) *Block { return nil }
func (c *vC28Chain) GetBlockStateChange(b *Block) error                    { return nil }
func (c *vC28Chain) ComputeState(ctx context.Context, pb *Block, waitC ...chan struct{}) error {
	return nil
}
func (c *vC28Chain) GetStateDB() util.NodeDB { return c.db }
func (c *vC28Chain) UpdateState(ctx context.Context, b *Block, bState util.MerklePatriciaTrieI, txn *transaction.Transaction, blockStateCache *statecache.BlockCache, waitC ...chan struct{}) ([]event.Event, error) {
	return nil, nil
}
func (c *vC28Chain) GetEventDb() *event.EventDb           { return nil }
func (c *vC28Chain) GetStateCache() *statecache.StateCache { return statecache.NewStateCache() }

var vC28Keys = []string{
	"a100000000000000000000000000000000000000000000000000000000000001",
	"a200000000000000000000000000000000000000000000000000000000000002",
	"b300000000000000000000000000000000000000000000000000000000000003",
	"b400000000000000000000000000000000000000000000000000000000000004",
}

func vC28Put(t util.MerklePatriciaTrieI, key string, bal uint64) {
	s := &state.State{}
	s.Balance = 0
	_ = s.SetTxnHash("cccccccccccccccccccccccccccccccccccccccccccccccccccccccccccccccc")
	s.Balance = currency.Coin(bal)
	if _, err := t.Insert(util.Path(key), s); err != nil {
		panic(err)
	}
}

// VerifC28_apply: the generator executes a block over a previous state (real Merkle-Patricia
// trie: some balances change, one key is added) and publishes its state changes; a receiver
// holding the previous state applies them, untampered or tampered (a node dropped, a node
// duplicated, a foreign node added, wrong root hash, wrong block hash) against the authentic
// header, or untampered against a header declaring an arbitrary change count.
func VerifC28_apply() {
	if datastore.GetEntityMetadata("block_state_change") == nil {
		SetupStateChange(nil)
	}
	// previous state, shared by generator and receiver (its nodes are in the state database)
	stateDB := util.NewMemoryNodeDB()
	prev := util.NewMerklePatriciaTrie(util.NewLevelNodeDB(util.NewMemoryNodeDB(), stateDB, false), 1, nil, statecache.NewEmpty())
	vC28Put(prev, vC28Keys[0], 100)
	vC28Put(prev, vC28Keys[1], 200)
	vC28Put(prev, vC28Keys[2], 300)
	if err := prev.SaveChanges(context.Background(), stateDB, false); err != nil {
		panic(err)
	}
	prevRoot := prev.GetRoot()

	// the generator's execution of the block
	gen := CreateState(stateDB, 2, prevRoot)
	nChanged := 0
	for i := 0; i < 3; i++ {
		if sym.Bool("balanceChanged") {
			vC28Put(gen, vC28Keys[i], uint64(90+i))
			nChanged++
		}
	}
	if sym.Bool("keyAdded") {
		vC28Put(gen, vC28Keys[3], 10)
		nChanged++
	}
	if nChanged == 0 {
		return
	}
	dbSize := stateDB.Size(context.Background())
	genBlock := &Block{}
	genBlock.Round = 2
	genBlock.Hash = "block-2"
	genBlock.ClientState = gen
	genBlock.ClientStateHash = gen.GetRoot()
	genBlock.StateChangesCount = gen.GetChangeCount()
	bsc, err := NewBlockStateChange(genBlock)
	if err != nil {
		panic(err)
	}
	honest := len(bsc.Nodes)

	// the receiver's copy of the block header
	rb := &Block{}
	rb.Round = 2
	rb.Hash = "block-2"
	rb.ClientStateHash = append([]byte{}, genBlock.ClientStateHash...)
	rb.StateChangesCount = sym.Int("declaredCount")
	sym.Assume(rb.StateChangesCount >= 0 && rb.StateChangesCount <= 64)

	tamper := sym.Choice("tamper", 0, 5)
	if tamper != 0 {
		// the block header is the generator's: a tampered set meets the honest declared count
		sym.Assume(rb.StateChangesCount == honest)
	}
	switch tamper {
	case 1: // any one of the changed nodes is dropped
		k := sym.Choice("droppedNode", 0, len(bsc.Nodes)-1)
		bsc.Nodes = append(append([]util.Node{}, bsc.Nodes[:k]...), bsc.Nodes[k+1:]...)
		_ = bsc.ComputeProperties()
	case 2: // any one of the nodes is sent twice
		k := sym.Choice("duplicatedNode", 0, len(bsc.Nodes)-1)
		bsc.Nodes = append(bsc.Nodes, bsc.Nodes[k])
		_ = bsc.ComputeProperties()
	case 3: // a node that is not part of the block's state is added
		other := util.NewMerklePatriciaTrie(util.NewLevelNodeDB(util.NewMemoryNodeDB(), util.NewMemoryNodeDB(), false), 1, nil, statecache.NewEmpty())
		vC28Put(other, vC28Keys[1], 999999)
		_, ch, _, _ := other.GetChanges()
		bsc.Nodes = append(bsc.Nodes, ch[0].New)
		_ = bsc.ComputeProperties()
	case 4:
		bsc.Hash = append([]byte{}, prevRoot...)
	case 5:
		bsc.Block = "block-x"
	}

	err = rb.ApplyBlockStateChange(bsc, &vC28Chain{db: stateDB})

	if err != nil {
		sym.Cover("rejected")
		sym.Assert(rb.ClientState == nil && rb.GetStateStatus() != StateSynched, "a rejected change set leaves the block without a synced state")
		sym.Assert(stateDB.Size(context.Background()) == dbSize, "a rejected change set leaves the local state database untouched")
		if tamper == 0 && rb.StateChangesCount == honest {
			sym.Fail("the untampered change set with the right count is accepted")
		}
		return
	}
	sym.Cover("accepted")
	sym.Assert(tamper == 0, "a tampered change set (dropped, duplicated or foreign node, wrong root, wrong block) is rejected")
	sym.Assert(rb.StateChangesCount == honest, "a change set whose node count differs from the declared count is rejected")
	sym.Assert(rb.ClientState != nil && bytes.Equal(rb.ClientState.GetRoot(), genBlock.ClientStateHash), "the applied state has the root the block declares")
	// the applied state reads exactly what executing the block produced
	for i, k := range vC28Keys {
		want := &state.State{}
		werr := gen.GetNodeValue(util.Path(k), want)
		got := &state.State{}
		gerr := rb.ClientState.GetNodeValue(util.Path(k), got)
		_ = i
		sym.Assert((werr == nil) == (gerr == nil) && want.Balance == got.Balance, "the applied state reads the same values as the executed state")
	}
}
