package block

import (
	"context"

	"0chain.net/chaincore/client"
	"0chain.net/chaincore/node"
	"0chain.net/chaincore/transaction"
	"0chain.net/core/common"
	"0chain.net/core/datastore"
	"0chain.net/core/encryption"
	"0chain.net/zzverif/sym"
	"github.com/0chain/common/core/currency"
)

const (
	vC29Prev   = "aa00000000000000000000000000000000000000000000000000000000000001"
	vC29Prev2  = "aa00000000000000000000000000000000000000000000000000000000000002"
	vC29To     = "bb00000000000000000000000000000000000000000000000000000000000001"
	vC29State  = "cc00000000000000000000000000000000000000000000000000000000000001"
	vC29State2 = "cc00000000000000000000000000000000000000000000000000000000000002"
	vC29MB     = "dd00000000000000000000000000000000000000000000000000000000000001"
	vC29MB2    = "dd00000000000000000000000000000000000000000000000000000000000002"
)

var vC29Fields = []string{"generator", "parent", "round", "random seed", "transaction list (one transaction replaced)",
	"transaction list (one transaction dropped)", "transaction list (order swapped)", "transaction output", "resulting state",
	"magic block", "state change count", "creation time"}

type vC29Env struct {
	miner, other *node.Node
	minerKey     encryption.SignatureScheme
	otherKey     encryption.SignatureScheme
	client       encryption.SignatureScheme
}

func vC29Node(scheme encryption.SignatureScheme) *node.Node {
	n := node.Provider()
	n.Type = node.NodeTypeMiner
	if err := n.SetPublicKey(scheme.GetPublicKey()); err != nil {
		panic(err)
	}
	n.ID = encryption.Hash(vC29Hex(scheme.GetPublicKey()))
	node.RegisterNode(n)
	return n
}

func vC29Setup() *vC29Env {
	md := datastore.MetadataProvider()
	md.Name = "client"
	md.Provider = client.Provider
	datastore.RegisterEntityMetadata("client", md)
	client.SetClientSignatureScheme("ed25519")
	transaction.TXN_TIME_TOLERANCE = 600
	e := &vC29Env{}
	gen := func() encryption.SignatureScheme {
		s := encryption.NewED25519Scheme()
		if err := s.GenerateKeys(); err != nil {
			panic(err)
		}
		return s
	}
	e.minerKey, e.otherKey, e.client = gen(), gen(), gen()
	e.miner = vC29Node(e.minerKey)
	e.other = vC29Node(e.otherKey)
	return e
}

// vC29Txn: an honestly hashed and signed transaction with an arbitrary value and a given output.
func (e *vC29Env) txn(valueName, output string, nonce int64) *transaction.Transaction {
	t := &transaction.Transaction{}
	t.PublicKey = e.client.GetPublicKey()
	t.ToClientID = vC29To
	t.CreationDate = 1700000000
	t.Nonce = nonce
	t.Value = currency.Coin(sym.U64(valueName))
	t.TransactionType = transaction.TxnTypeSend
	if err := t.ComputeProperties(); err != nil {
		panic(err)
	}
	if _, err := t.Sign(e.client); err != nil {
		panic(err)
	}
	t.TransactionOutput = output
	t.OutputHash = t.ComputeOutputHash()
	return t
}

func (e *vC29Env) block(nTxns int) *Block {
	b := &Block{}
	b.MinerID = e.miner.ID
	b.PrevHash = vC29Prev
	b.CreationDate = common.Timestamp(sym.I64("creationDate"))
	b.Round = sym.I64("round")
	b.SetRoundRandomSeed(sym.I64("randomSeed"))
	b.StateChangesCount = sym.Int("stateChanges")
	b.ClientStateHash = vC29HexK(vC29State)
	for i := 0; i < nTxns; i++ {
		b.Txns = append(b.Txns, e.txn("txnValue", []string{"out-a", "out-b", "out-c"}[i], int64(i+1)))
	}
	if sym.Bool("hasMagicBlock") {
		b.MagicBlock = NewMagicBlock()
		b.MagicBlock.Hash = vC29MB
	}
	return b
}

func (e *vC29Env) seal(b *Block) {
	if err := b.ComputeProperties(); err != nil {
		panic(err)
	}
	b.Hash = b.ComputeHash()
	sig, err := e.minerKey.Sign(b.Hash)
	if err != nil {
		panic(err)
	}
	b.Signature = sig
}

func vC29Clone(b *Block) *Block {
	c := &Block{}
	c.MinerID, c.PrevHash, c.CreationDate, c.Round = b.MinerID, b.PrevHash, b.CreationDate, b.Round
	c.SetRoundRandomSeed(b.GetRoundRandomSeed())
	c.StateChangesCount = b.StateChangesCount
	c.ClientStateHash = b.ClientStateHash
	c.Hash, c.Signature = b.Hash, b.Signature
	for _, t := range b.Txns {
		c.Txns = append(c.Txns, t.Clone())
	}
	if b.MagicBlock != nil {
		c.MagicBlock = NewMagicBlock()
		c.MagicBlock.Hash = b.MagicBlock.Hash
	}
	return c
}

// VerifC29_binding: an honest block (arbitrary time, round, seed, change count; 1..3
// transactions with arbitrary values; with or without magic block) and a copy that differs in
// exactly one content field: the copy's computed hash differs from the honest hash, and a
// receiver that gets the copy under the honest hash and signature rejects it.
func VerifC29_binding() {
	e := vC29Setup()
	n := sym.Choice("txns", 1, 3)
	b := e.block(n)
	e.seal(b)
	sym.Assert(b.Validate(context.Background()) == nil, "an honestly hashed and signed block is accepted")
	sym.Cover("honest-accepted")

	field := sym.Choice("tamperedField", 0, len(vC29Fields)-1)
	c := vC29Clone(b)
	switch field {
	case 0:
		c.MinerID = e.other.ID
	case 1:
		c.PrevHash = vC29Prev2
	case 2:
		c.Round = sym.I64("round2")
		sym.Assume(c.Round != b.Round)
	case 3:
		c.SetRoundRandomSeed(sym.I64("randomSeed2"))
		sym.Assume(c.GetRoundRandomSeed() != b.GetRoundRandomSeed())
	case 4:
		k := sym.Choice("which", 0, n-1)
		c.Txns[k] = e.txn("txnValue2", c.Txns[k].TransactionOutput, c.Txns[k].Nonce)
		sym.Assume(c.Txns[k].Value != b.Txns[k].Value)
	case 5:
		if n < 2 {
			return
		}
		k := sym.Choice("which", 0, n-1)
		c.Txns = append(c.Txns[:k:k], c.Txns[k+1:]...)
	case 6:
		if n < 2 {
			return
		}
		c.Txns[0], c.Txns[n-1] = c.Txns[n-1], c.Txns[0]
		sym.Assume(b.Txns[0].Value != b.Txns[n-1].Value || true)
	case 7:
		k := sym.Choice("which", 0, n-1)
		c.Txns[k].TransactionOutput = "forged output"
		c.Txns[k].OutputHash = c.Txns[k].ComputeOutputHash()
	case 8:
		c.ClientStateHash = vC29HexK(vC29State2)
	case 9:
		if c.MagicBlock == nil {
			c.MagicBlock = NewMagicBlock()
			c.MagicBlock.Hash = vC29MB
		} else if sym.Bool("dropMagicBlock") {
			c.MagicBlock = nil
		} else {
			c.MagicBlock.Hash = vC29MB2
		}
	case 10:
		c.StateChangesCount = sym.Int("stateChanges2")
		sym.Assume(c.StateChangesCount != b.StateChangesCount)
	case 11:
		c.CreationDate = common.Timestamp(sym.I64("creationDate2"))
		sym.Assume(c.CreationDate != b.CreationDate)
	}
	sym.Cover("tampered-" + vC29Fields[field])
	if err := c.ComputeProperties(); err != nil {
		return // malformed copy: rejected before hashing
	}
	sym.Assert(c.ComputeHash() != b.Hash, "changing the "+vC29Fields[field]+" changes the block hash")
	sym.Assert(c.Validate(context.Background()) != nil, "a block whose "+vC29Fields[field]+" was altered under the original hash and signature is rejected")
}

// VerifC29_reject: hash mismatch, foreign or corrupt generator signature, unknown generator and
// repeated transactions are rejected by Validate.
func VerifC29_reject() {
	e := vC29Setup()
	n := sym.Choice("txns", 1, 3)
	b := e.block(n)
	e.seal(b)
	switch sym.Choice("defect", 0, 4) {
	case 0: // signed by another registered miner
		sig, err := e.otherKey.Sign(b.Hash)
		if err != nil {
			panic(err)
		}
		b.Signature = sig
		sym.Cover("foreign-signature")
	case 1: // hash that is not the hash of the contents, correctly signed by the generator
		b.Hash = encryption.Hash("unrelated")
		sig, err := e.minerKey.Sign(b.Hash)
		if err != nil {
			panic(err)
		}
		b.Signature = sig
		sym.Cover("wrong-hash")
	case 2: // generator not registered
		b.MinerID = vC29Prev
		sym.Cover("unknown-generator")
	case 3: // a transaction repeated (any position duplicated at the end): same merkle root when the last one is doubled
		k := sym.Choice("which", 0, n-1)
		b.Txns = append(b.Txns, b.Txns[k].Clone())
		if err := b.ComputeProperties(); err != nil {
			return
		}
		if sym.Bool("rehash") { // a faulty generator hashes and signs the block with the repeat
			b.Hash = b.ComputeHash()
			sig, err := e.minerKey.Sign(b.Hash)
			if err != nil {
				panic(err)
			}
			b.Signature = sig
		}
		sym.Cover("repeated-transaction")
	case 4: // every transaction doubled in place
		var tx []*transaction.Transaction
		for _, t := range b.Txns {
			tx = append(tx, t, t.Clone())
		}
		b.Txns = tx
		if err := b.ComputeProperties(); err != nil {
			return
		}
		b.Hash = b.ComputeHash()
		sig, err := e.minerKey.Sign(b.Hash)
		if err != nil {
			panic(err)
		}
		b.Signature = sig
		sym.Cover("all-transactions-doubled")
	}
	sym.Assert(b.Validate(context.Background()) != nil, "a block with a wrong hash, a wrong generator signature or a repeated transaction is rejected")
}

func vC29HexK(h string) []byte { return vC29Hex(h) }

func vC29Hex(h string) []byte {
	out := make([]byte, len(h)/2)
	for i := range out {
		out[i] = vC29Nib(h[2*i])<<4 | vC29Nib(h[2*i+1])
	}
	return out
}

func vC29Nib(c byte) byte {
	if c >= '0' && c <= '9' {
		return c - '0'
	}
	return c - 'a' + 10
}
