package transaction

import (
	"context"

	"0chain.net/chaincore/client"
	"0chain.net/core/common"
	"0chain.net/core/datastore"
	"0chain.net/core/encryption"
	"0chain.net/zzverif/sym"
	"github.com/0chain/common/core/currency"
)

const (
	vC30To    = "b200000000000000000000000000000000000000000000000000000000000002"
	vC30Other = "c300000000000000000000000000000000000000000000000000000000000003"
)

var vC30Fields = []string{"creation time", "nonce", "sender", "recipient", "value", "data", "fee", "type"}

func vC30Setup() {
	md := datastore.MetadataProvider()
	md.Name = "client"
	md.Provider = client.Provider
	datastore.RegisterEntityMetadata("client", md)
	client.SetClientSignatureScheme("ed25519")
	TXN_TIME_TOLERANCE = 600
}

func vC30Accept(t *Transaction, ts common.Timestamp, validateSignature bool) bool {
	if err := t.ComputeProperties(); err != nil {
		return false
	}
	return t.ValidateWrtTimeForBlock(context.Background(), ts, validateSignature) == nil
}

// VerifC30_binding: an honestly hashed and signed transaction with arbitrary time, nonce,
// value and fee is accepted; a copy in which exactly one field was altered (any other value)
// while hash and signature were kept is rejected, on the client path (signature checked) and
// on the block path (signatures aggregated elsewhere, hash still checked).
func VerifC30_binding() {
	const ts = common.Timestamp(1700000000)
	vC30Setup()
	scheme := encryption.NewED25519Scheme()
	if err := scheme.GenerateKeys(); err != nil {
		panic(err)
	}
	t := &Transaction{}
	t.PublicKey = scheme.GetPublicKey()
	t.ToClientID = vC30To
	t.CreationDate = common.Timestamp(sym.I64("creationDate"))
	sym.Assume(common.WithinTime(int64(ts), int64(t.CreationDate), TXN_TIME_TOLERANCE))
	t.Nonce = sym.I64("nonce")
	t.Value = currency.Coin(sym.U64("value"))
	t.Fee = currency.Coin(sym.U64("fee"))
	t.TransactionType = []int{TxnTypeSend, TxnTypeData, TxnTypeSmartContract}[sym.Choice("type", 0, 2)]
	t.TransactionData = `{"name":"f","input":{}}`
	if err := t.ComputeProperties(); err != nil { // derives the client id from the public key
		panic(err)
	}
	if _, err := t.Sign(scheme); err != nil {
		panic(err)
	}
	sym.Assert(vC30Accept(t, ts, true) && vC30Accept(t, ts, false), "an honestly hashed and signed transaction is accepted")
	sym.Cover("honest-accepted")

	field := sym.Choice("tamperedField", 0, 7)
	t2 := *t
	switch field {
	case 0:
		t2.CreationDate = common.Timestamp(sym.I64("creationDate2"))
		sym.Assume(t2.CreationDate != t.CreationDate)
		sym.Assume(common.WithinTime(int64(ts), int64(t2.CreationDate), TXN_TIME_TOLERANCE))
	case 1:
		t2.Nonce = sym.I64("nonce2")
		sym.Assume(t2.Nonce != t.Nonce)
	case 2:
		// another sender: either only the id is swapped, or the id with that account's key
		other := encryption.NewED25519Scheme()
		if err := other.GenerateKeys(); err != nil {
			panic(err)
		}
		oid := encryption.Hash(vC30Hex(other.GetPublicKey()))
		t2.ClientID = oid
		if sym.Bool("swapKeyToo") {
			t2.PublicKey = other.GetPublicKey()
		}
	case 3:
		t2.ToClientID = vC30Other
	case 4:
		t2.Value = currency.Coin(sym.U64("value2"))
		sym.Assume(t2.Value != t.Value)
	case 5:
		t2.TransactionData = `{"name":"g","input":{}}`
	case 6:
		t2.Fee = currency.Coin(sym.U64("fee2"))
		sym.Assume(t2.Fee != t.Fee)
	case 7:
		t2.TransactionType = []int{TxnTypeData, TxnTypeSmartContract, TxnTypeSend}[sym.Choice("type", 0, 2)]
		sym.Assume(t2.TransactionType != t.TransactionType)
	}
	sym.Cover("tampered-" + vC30Fields[field])
	okClient := vC30Accept(&t2, ts, true)
	t3 := t2
	okBlock := vC30Accept(&t3, ts, false)
	sym.Assert(!okClient, "altering the "+vC30Fields[field]+" invalidates the transaction (client path, signature checked)")
	sym.Assert(!okBlock, "altering the "+vC30Fields[field]+" invalidates the transaction (block path, hash checked)")
}

// VerifC30_forged: a transaction whose hash is right but whose signature was made by another
// key, or whose public key does not hash to its client id, is rejected.
func VerifC30_forged() {
	const ts = common.Timestamp(1700000000)
	vC30Setup()
	scheme := encryption.NewED25519Scheme()
	if err := scheme.GenerateKeys(); err != nil {
		panic(err)
	}
	forger := encryption.NewED25519Scheme()
	if err := forger.GenerateKeys(); err != nil {
		panic(err)
	}
	t := &Transaction{}
	t.PublicKey = scheme.GetPublicKey()
	t.ToClientID = vC30To
	t.CreationDate = ts
	t.Nonce = sym.I64("nonce")
	t.Value = currency.Coin(sym.U64("value"))
	t.TransactionType = TxnTypeSend
	if err := t.ComputeProperties(); err != nil {
		panic(err)
	}
	switch sym.Choice("forgery", 0, 2) {
	case 0: // signed by somebody else's key
		if _, err := t.Sign(forger); err != nil {
			panic(err)
		}
		sym.Cover("foreign-signature")
	case 1: // signed by the forger, forger's key attached, victim's id kept
		if _, err := t.Sign(forger); err != nil {
			panic(err)
		}
		t.PublicKey = forger.GetPublicKey()
		sym.Cover("foreign-key-attached")
	case 2: // correct signature over a hash that is not the hash of the contents
		if _, err := t.Sign(scheme); err != nil {
			panic(err)
		}
		t.Hash = encryption.Hash("something else")
		sig, err := scheme.Sign(t.Hash)
		if err != nil {
			panic(err)
		}
		t.Signature = sig
		sym.Cover("signed-wrong-hash")
	}
	sym.Assert(!vC30Accept(t, ts, true), "a transaction is accepted only with the hash of its contents signed by the key whose hash is its client id")
}

func vC30Hex(h string) []byte {
	out := make([]byte, len(h)/2)
	for i := range out {
		out[i] = vC30Nib(h[2*i])<<4 | vC30Nib(h[2*i+1])
	}
	return out
}

func vC30Nib(c byte) byte {
	if c >= '0' && c <= '9' {
		return c - '0'
	}
	return c - 'a' + 10
}
