package chain

import (
	"0chain.net/chaincore/node"
	"0chain.net/core/viper"
	"context"
	"fmt"
	"sync"

	"0chain.net/chaincore/block"
	"0chain.net/chaincore/round"
	"0chain.net/zzverif/sym"
)

// vC36Tree builds an arbitrary tree of notarized blocks above a finalized block: rounds
// base+1..base+R, 1..maxWidth blocks per round (symbolic distinct ranks), every block's parent
// an arbitrary block of the round before, then 0..2 rounds without notarized blocks.
type vC36Tree struct {
	c      *Chain
	base   int64
	levels [][]*block.Block // levels[0] = {the last finalized block}
	parent map[*block.Block]*block.Block
	last   round.RoundI
	lastN  int64
}

var vC36Perms = map[int][][]int{
	1: {{0}},
	2: {{0, 1}, {1, 0}},
	3: {{0, 1, 2}, {0, 2, 1}, {1, 0, 2}, {1, 2, 0}, {2, 0, 1}, {2, 1, 0}},
}

func vC36Build(R, maxWidth int) *vC36Tree {
	t := &vC36Tree{parent: map[*block.Block]*block.Block{}}
	round.SetupEntity(nil)
	c := &Chain{}
	c.roundsMutex = &sync.RWMutex{}
	c.rounds = map[int64]round.RoundI{}
	t.c = c
	t.base = sym.I64("lfbRound")
	sym.Assume(t.base >= 0 && t.base < 1<<40)
	g := &block.Block{}
	g.Hash = "lfb"
	g.Round = t.base
	t.levels = append(t.levels, []*block.Block{g})
	depth := sym.Choice("rounds", 1, R)
	for lv := 1; lv <= depth; lv++ {
		n := sym.Choice("width", 1, maxWidth)
		rd := round.NewRound(t.base + int64(lv))
		var cur []*block.Block
		ranks := vC36Perms[n][sym.Choice("rankOrder", 0, len(vC36Perms[n])-1)]
		for i := 0; i < n; i++ {
			b := &block.Block{}
			b.Hash = fmt.Sprintf("b%d-%d", lv, i)
			b.Round = t.base + int64(lv)
			b.RoundRank = ranks[i] // one notarized block per rank (C35); every rank order is explored
			prev := t.levels[lv-1]
			p := prev[sym.Choice("parent", 0, len(prev)-1)]
			b.PrevHash = p.Hash
			b.PrevBlock = p
			t.parent[b] = p
			cur = append(cur, b)
			rd.AddNotarizedBlock(b)
		}
		c.rounds[rd.GetRoundNumber()] = rd
		t.levels = append(t.levels, cur)
		t.last, t.lastN = rd, rd.GetRoundNumber()
	}
	empty := sym.Choice("emptyRounds", 0, 2)
	for e := 1; e <= empty; e++ {
		rd := round.NewRound(t.base + int64(depth+e))
		c.rounds[rd.GetRoundNumber()] = rd
		t.last, t.lastN = rd, rd.GetRoundNumber()
	}
	return t
}

func (t *vC36Tree) isAncestor(a, b *block.Block) bool { // a is a strict ancestor of b
	for p := t.parent[b]; p != nil; p = t.parent[p] {
		if p == a {
			return true
		}
	}
	return false
}

// reference: deepest block that is a strict ancestor of every block of the latest non-empty round
func (t *vC36Tree) reference() *block.Block {
	top := t.levels[len(t.levels)-1]
	for lv := len(t.levels) - 2; lv >= 0; lv-- {
		for _, cand := range t.levels[lv] {
			all := true
			for _, b := range top {
				all = all && t.isAncestor(cand, b)
			}
			if all {
				return cand
			}
		}
	}
	return nil
}

func vC36Run(R, W int) {
	t := vC36Build(R, W)
	sym.StepLimit(400000)
	fb := t.c.ComputeFinalizedBlock(context.Background(), t.base, t.last)
	want := t.reference()
	top := t.levels[len(t.levels)-1]
	if len(top) >= 3 {
		sym.Cover("three-way-fork")
	}
	if len(t.levels) >= 3 && want == t.levels[0][0] {
		sym.Cover("fork-back-to-lfb")
	}
	if t.lastN > top[0].Round {
		sym.Cover("trailing-empty-rounds")
	}
	sym.Assert(fb != nil, "a block is chosen whenever some round above the last finalized block has notarized blocks")
	if fb == nil {
		return
	}
	sym.Cover("chosen")
	for _, b := range top {
		sym.Assert(t.isAncestor(fb, b), "the chosen block is an ancestor of every notarized block of the latest round that has any")
	}
	sym.Assert(fb.Round < top[0].Round, "the chosen block lies in an earlier round")
	sym.Assert(fb == want, "the chosen block is the most recent common ancestor")
	sym.Assert(fb == t.levels[0][0] || t.isAncestor(t.levels[0][0], fb), "the chosen block descends from the previous finalized block")
}

func VerifC36_wide() { vC36Run(2, 3) }
func VerifC36_deep() { vC36Run(4, 2) }
func VerifC36_full() { vC36Run(3, 3) }

type vC36NoViewChange struct{}

func (vC36NoViewChange) ViewChange(ctx context.Context, lfb *block.Block) error { return nil }

// vC36FinalizeWalk: Chain.finalizeRound on a chain C1..C4 whose block A5 (child of C4) is
// already finalized, while a competing branch B5..B(5+g+1) forking from C4 has become the only
// notarized branch; the back-walk depth (lfb_ticket.ahead) is 3 and g, the gap between the
// newly computed block and the finalized one, ranges over lo..hi. Whatever is handed to the
// finalization worker must extend the finalized block. (The context is already cancelled, so
// that the hand-off returns after the first block has been queued.)
func vC36FinalizeWalk(lo, hi int, label string) {
	round.SetupEntity(nil)
	viper.Set("server_chain.lfb_ticket.ahead", 3)
	c := &Chain{}
	c.roundsMutex = &sync.RWMutex{}
	c.rounds = map[int64]round.RoundI{}
	c.lfbMutex = sync.RWMutex{}
	c.finalizedBlocksChannel = make(chan *finalizeBlockWithReply, 1)
	c.viewChanger = vC36NoViewChange{}
	c.ChainConfig = NewConfigImpl(&ConfigData{})
	c.Stats = &Stats{}
	c.MagicBlockStorage = round.NewRoundStartingStorage()
	mb := block.NewMagicBlock()
	mb.Miners = node.NewPool(node.NodeTypeMiner)
	mb.Sharders = node.NewPool(node.NodeTypeSharder)
	if err := c.MagicBlockStorage.Put(mb, 0); err != nil {
		panic(err)
	}
	mk := func(hash string, rn int64, prev *block.Block) *block.Block {
		b := &block.Block{}
		b.Hash = hash
		b.Round = rn
		if prev != nil {
			b.PrevHash = prev.Hash
			b.PrevBlock = prev
		}
		b.SetBlockNotarized()
		rd := c.rounds[rn]
		if rd == nil {
			rd = round.NewRound(rn)
			c.rounds[rn] = rd
		}
		rd.AddNotarizedBlock(b)
		return b
	}
	var prev *block.Block
	for i := int64(1); i <= 4; i++ {
		prev = mk([]string{"", "C1", "C2", "C3", "C4"}[i], i, prev)
	}
	c4 := prev
	a5 := mk("A5", 5, c4)
	c.LatestFinalizedBlock = a5
	gap := sym.Choice("gap", lo, hi)
	b := mk("B5", 5, c4)
	top := int64(5 + gap + 1)
	for rn := int64(6); rn <= top; rn++ {
		b = mk(fmt.Sprintf("B%d", rn), rn, b)
	}
	// only the B branch is notarized in the latest rounds
	r := c.rounds[top]
	ctx, cancel := context.WithCancel(context.Background())
	cancel()
	c.finalizeRound(ctx, r)
	sym.Cover("finalize-round-returned")
	select {
	case fbr := <-c.finalizedBlocksChannel:
		sym.Cover("block-handed-over")
		sym.Assert(fbr.block.PrevHash == a5.Hash || fbr.block.Hash == a5.Hash, label)
	default:
	}
}

// within the back-walk depth the walk reaches the finalized round and must refuse a foreign branch
func VerifC36_finalizeWalk() {
	vC36FinalizeWalk(2, 3, "a block handed to finalization extends the previously finalized block")
}

// beyond the back-walk depth (recorded finding: no connection check is made at all)
func VerifC36_finalizeWalkDeep() {
	vC36FinalizeWalk(4, 4, "a block handed to finalization extends the previously finalized block, also when the newly computed block is more than lfb_ticket.ahead rounds above it")
}
