package chain

import (
	"context"
	"fmt"
	"sync"

	"0chain.net/chaincore/block"
	"0chain.net/chaincore/round"
	"0chain.net/zzverif/sym"
)

// vC36Tree builds an arbitrary tree of notarized blocks above a finalized block: rounds
// base+1..base+R, 1..maxWidth blocks per round (symbolic distinct ranks), every block's parent
// an arbitrary block of the round before, then 0..2 rounds without notarized blocks.
type vC36Tree struct {
	c      *Chain
	base   int64
	levels [][]*block.Block // levels[0] = {the last finalized block}
	parent map[*block.Block]*block.Block
	last   round.RoundI
	lastN  int64
}

var vC36Perms = map[int][][]int{
	1: {{0}},
	2: {{0, 1}, {1, 0}},
	3: {{0, 1, 2}, {0, 2, 1}, {1, 0, 2}, {1, 2, 0}, {2, 0, 1}, {2, 1, 0}},
}

func vC36Build(R, maxWidth int) *vC36Tree {
	t := &vC36Tree{parent: map[*block.Block]*block.Block{}}
	round.SetupEntity(nil)
	c := &Chain{}
	c.roundsMutex = &sync.RWMutex{}
	c.rounds = map[int64]round.RoundI{}
	t.c = c
	t.base = sym.I64("lfbRound")
	sym.Assume(t.base >= 0 && t.base < 1<<40)
	g := &block.Block{}
	g.Hash = "lfb"
	g.Round = t.base
	t.levels = append(t.levels, []*block.Block{g})
	depth := sym.Choice("rounds", 1, R)
	for lv := 1; lv <= depth; lv++ {
		n := sym.Choice("width", 1, maxWidth)
		rd := round.NewRound(t.base + int64(lv))
		var cur []*block.Block
		ranks := vC36Perms[n][sym.Choice("rankOrder", 0, len(vC36Perms[n])-1)]
		for i := 0; i < n; i++ {
			b := &block.Block{}
			b.Hash = fmt.Sprintf("b%d-%d", lv, i)
			b.Round = t.base + int64(lv)
			b.RoundRank = ranks[i] // one notarized block per rank (C35); every rank order is explored
			prev := t.levels[lv-1]
			p := prev[sym.Choice("parent", 0, len(prev)-1)]
			b.PrevHash = p.Hash
			b.PrevBlock = p
			t.parent[b] = p
			cur = append(cur, b)
			rd.AddNotarizedBlock(b)
		}
		c.rounds[rd.GetRoundNumber()] = rd
		t.levels = append(t.levels, cur)
		t.last, t.lastN = rd, rd.GetRoundNumber()
	}
	empty := sym.Choice("emptyRounds", 0, 2)
	for e := 1; e <= empty; e++ {
		rd := round.NewRound(t.base + int64(depth+e))
		c.rounds[rd.GetRoundNumber()] = rd
		t.last, t.lastN = rd, rd.GetRoundNumber()
	}
	return t
}

func (t *vC36Tree) isAncestor(a, b *block.Block) bool { // a is a strict ancestor of b
	for p := t.parent[b]; p != nil; p = t.parent[p] {
		if p == a {
			return true
		}
	}
	return false
}

// reference: deepest block that is a strict ancestor of every block of the latest non-empty round
func (t *vC36Tree) reference() *block.Block {
	top := t.levels[len(t.levels)-1]
	for lv := len(t.levels) - 2; lv >= 0; lv-- {
		for _, cand := range t.levels[lv] {
			all := true
			for _, b := range top {
				all = all && t.isAncestor(cand, b)
			}
			if all {
				return cand
			}
		}
	}
	return nil
}

func vC36Run(R, W int) {
	t := vC36Build(R, W)
	sym.StepLimit(400000)
	fb := t.c.ComputeFinalizedBlock(context.Background(), t.base, t.last)
	want := t.reference()
	top := t.levels[len(t.levels)-1]
	if len(top) >= 3 {
		sym.Cover("three-way-fork")
	}
	if len(t.levels) >= 3 && want == t.levels[0][0] {
		sym.Cover("fork-back-to-lfb")
	}
	if t.lastN > top[0].Round {
		sym.Cover("trailing-empty-rounds")
	}
	sym.Assert(fb != nil, "a block is chosen whenever some round above the last finalized block has notarized blocks")
	if fb == nil {
		return
	}
	sym.Cover("chosen")
	for _, b := range top {
		sym.Assert(t.isAncestor(fb, b), "the chosen block is an ancestor of every notarized block of the latest round that has any")
	}
	sym.Assert(fb.Round < top[0].Round, "the chosen block lies in an earlier round")
	sym.Assert(fb == want, "the chosen block is the most recent common ancestor")
	sym.Assert(fb == t.levels[0][0] || t.isAncestor(t.levels[0][0], fb), "the chosen block descends from the previous finalized block")
}

func VerifC36_wide() { vC36Run(2, 3) }
func VerifC36_deep() { vC36Run(4, 2) }
func VerifC36_full() { vC36Run(3, 3) }
