package chain

import (
	"0chain.net/chaincore/block"
	"0chain.net/chaincore/node"
	"0chain.net/chaincore/round"
	"0chain.net/core/encryption"
	"0chain.net/zzverif/sym"
)

// VerifC42_chain: Chain.IsBlockSharder / IsBlockSharderFromHash / CanShardBlockWithReplicators
// with the real XOR scorer over a magic block's sharder pool.
func VerifC42_chain() {
	c := &Chain{}
	repl := sym.Choice("replicators", -1, 3)
	c.ChainConfig = NewConfigImpl(&ConfigData{NumReplicators: repl})
	c.nodePoolScorer = node.NewHashPoolScorer(encryption.NewXORHashScorer())
	c.MagicBlockStorage = round.NewRoundStartingStorage()
	mb := block.NewMagicBlock()
	mb.Sharders = node.NewPool(node.NodeTypeSharder)
	n := sym.Choice("sharders", 1, 3)
	var all []*node.Node
	for i := 0; i < n; i++ {
		ss := encryption.NewBLS0ChainScheme()
		if err := ss.GenerateKeys(); err != nil {
			panic(err)
		}
		nd := node.Provider()
		nd.Type = node.NodeTypeSharder
		nd.PublicKey = ss.GetPublicKey()
		if err := nd.ComputeProperties(); err != nil {
			panic(err)
		}
		_ = nd.SetID(nd.ID)
		if err := mb.Sharders.AddNode(nd); err != nil {
			panic(err)
		}
		all = append(all, nd)
	}
	c.SetMagicBlock(mb)
	b := &block.Block{}
	b.Round = 10
	b.Hash = "ab" + "00000000000000000000000000000000000000000000000000000000000000"[:62]
	storing := 0
	for _, s := range all {
		a := c.IsBlockSharder(b, s)
		sym.Assert(c.IsBlockSharderFromHash(b.Round, b.Hash, s) == a, "the two sharder predicates agree")
		can, nodes := c.CanShardBlockWithReplicators(b.Round, b.Hash, s)
		sym.Assert(can == a, "CanShardBlockWithReplicators agrees with IsBlockSharder")
		if a {
			storing++
		}
		if repl <= 0 {
			sym.Assert(a && len(nodes) == n, "every sharder stores every block when replication is disabled")
		}
	}
	if repl <= 0 {
		sym.Cover("replication-disabled")
	} else if repl <= n {
		sym.Cover("replication-enough-sharders")
		sym.Assert(storing >= repl, "with enough sharders at least the configured number store the block")
	}
}
