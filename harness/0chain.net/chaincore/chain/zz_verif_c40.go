package chain

import (
	"0chain.net/chaincore/block"
	"0chain.net/chaincore/round"
	"0chain.net/zzverif/sym"
)

// VerifC40_chainLookup: Chain.SetMagicBlock / GetMagicBlock / GetMagicBlockNoOffset /
// GetPrevMagicBlock over the real round storage, against a reference floor lookup that allows
// for the view-change offset.
func VerifC40_chainLookup() {
	c := &Chain{}
	c.MagicBlockStorage = round.NewRoundStartingStorage()
	prev := &block.MagicBlock{}
	c.PreviousMagicBlock = prev
	n := sym.Choice("mbs", 1, 3)
	var mbs []*block.MagicBlock
	for i := 0; i < n; i++ {
		mb := &block.MagicBlock{}
		mb.StartingRound = sym.I64("start")
		sym.Assume(mb.StartingRound >= 0)
		for _, o := range mbs {
			sym.Assume(o.StartingRound != mb.StartingRound)
		}
		c.SetMagicBlock(mb)
		mbs = append(mbs, mb)
	}
	q := sym.I64("round")
	sym.Assume(q >= 0)
	// the round the lookup is made with: the same up to the offset, shifted by it afterwards
	eff := q
	if q > ViewChangeOffset {
		eff = q - ViewChangeOffset
		sym.Cover("offset-applied")
	} else {
		sym.Cover("offset-not-applied")
	}
	sym.Assert(mbRoundOffset(q) == eff, "view-change offset: rounds up to the offset map to themselves, later rounds shift back by it")
	floor := func(r int64) *block.MagicBlock {
		var best *block.MagicBlock
		for _, m := range mbs {
			if m.StartingRound <= r && (best == nil || m.StartingRound > best.StartingRound) {
				best = m
			}
		}
		return best
	}
	latest := mbs[0]
	for _, m := range mbs {
		if m.StartingRound > latest.StartingRound {
			latest = m
		}
	}
	want := floor(eff)
	if want == nil {
		want = latest
		sym.Cover("fallback-to-latest")
	} else {
		sym.Cover("floor-found")
	}
	sym.Assert(c.GetMagicBlock(q) == want, "GetMagicBlock: greatest start not after the offset round, else the latest")
	wantNo := floor(q)
	if wantNo == nil {
		wantNo = latest
	}
	sym.Assert(c.GetMagicBlockNoOffset(q) == wantNo, "GetMagicBlockNoOffset: greatest start not after the round, else the latest")
	sym.Assert(c.GetLatestMagicBlock() == latest, "GetLatestMagicBlock: greatest start")
	// previous magic block: the entry before the floor entry, else the chain's PreviousMagicBlock
	f := floor(eff)
	var wantPrev *block.MagicBlock = prev
	if f != nil {
		var before *block.MagicBlock
		for _, m := range mbs {
			if m.StartingRound < f.StartingRound && (before == nil || m.StartingRound > before.StartingRound) {
				before = m
			}
		}
		if before != nil {
			wantPrev = before
			sym.Cover("prev-found")
		}
	}
	sym.Assert(c.GetPrevMagicBlock(q) == wantPrev, "GetPrevMagicBlock: the entry preceding the one in force, else the chain's previous magic block")
	sym.Assert(sym.LockBalance() == 0, "locks released")
}
