package chain

import (
	"context"
	"errors"
	"net/url"
	"sync"
	"time"

	"0chain.net/chaincore/block"
	cstate "0chain.net/chaincore/chain/state"
	"0chain.net/chaincore/smartcontract"
	"0chain.net/chaincore/state"
	"0chain.net/chaincore/transaction"
	"0chain.net/core/config"
	"0chain.net/smartcontract/minersc"
	"0chain.net/zzverif/sym"
	"0chain.net/zzverif/symstate"
	"github.com/0chain/common/core/currency"
	"github.com/0chain/common/core/statecache"
	"github.com/0chain/common/core/util"
)

// vC07SC is a contract whose calls read, write or delete one cacheable entity (the miner contract's
// global node, a real statecache.Value) under a fixed key
// and then succeed or fail chargeably.
type vC07SC struct {
	op      int // 0 read only, 1 insert/overwrite, 2 delete, 3 read then mutate the returned object in place
	newBal  currency.Coin
	fail    bool
	sawBal  currency.Coin
	sawErr  error
	didRead bool
}

const vC07Key = "verif-cached-entity"

func (h *vC07SC) Execute(t *transaction.Transaction, fn string, in []byte, balances cstate.StateContextI) (string, error) {
	cur := &minersc.GlobalNode{}
	h.sawErr = balances.GetTrieNode(vC07Key, cur)
	h.sawBal = cur.MinStake
	h.didRead = true
	switch h.op {
	case 1:
		s := &minersc.GlobalNode{MinStake: h.newBal}
		if _, err := balances.InsertTrieNode(vC07Key, s); err != nil {
			return "", err
		}
	case 2:
		if h.sawErr == nil {
			if _, err := balances.DeleteTrieNode(vC07Key); err != nil {
				return "", err
			}
		}
	case 3:
		cur.MinStake = h.newBal // in-place mutation of what the read returned, never saved
	}
	if h.fail {
		return "", errors.New("contract failed")
	}
	return "ok", nil
}
func (h *vC07SC) GetHandlerStats(ctx context.Context, params url.Values) (interface{}, error) {
	return nil, nil
}
func (h *vC07SC) GetExecutionStats() map[string]interface{} { return map[string]interface{}{} }
func (h *vC07SC) GetName() string                            { return "c07" }
func (h *vC07SC) GetAddress() string                         { return vContract }
func (h *vC07SC) GetCostTable(balances cstate.StateContextI) (map[string]int, error) {
	return map[string]int{}, nil
}

// vC07Run: k contract calls in one block over one block cache; every call's read through the
// cache is compared with what the block's trie holds at that moment.
func vC07Run(k int) {
	c := &Chain{}
	c.eventMutex = &sync.RWMutex{}
	c.ChainConfig = NewConfigImpl(&ConfigData{IsFeeEnabled: false, SmartContractTimeout: time.Second})
	config.Configuration().ChainConfig = c.ChainConfig
	b := &block.Block{}
	b.Round = 5
	b.PrevBlock = &block.Block{}
	bState := symstate.NewTrie()
	for _, id := range []string{vSender, vContract} {
		s := &state.State{Balance: 1000}
		_ = s.SetTxnHash(vOldHash)
		if _, err := bState.Insert(util.Path(id), s); err != nil {
			panic(err)
		}
	}
	if sym.Bool("entityExistsInitially") {
		s := &minersc.GlobalNode{MinStake: currency.Coin(sym.U64("initialValue"))}
		if _, err := bState.Insert(util.Path(symstate.PathOf(vC07Key)), s); err != nil {
			panic(err)
		}
	}
	bc := statecache.NewBlockCache(statecache.NewStateCache(), statecache.Block{Round: 5, Hash: "b5", PrevHash: "b4"})
	trieValue := func() (currency.Coin, bool) {
		s := &minersc.GlobalNode{}
		if err := bState.GetNodeValue(util.Path(symstate.PathOf(vC07Key)), s); err != nil {
			return 0, false
		}
		return s.MinStake, true
	}
	for i := 0; i < k; i++ {
		h := &vC07SC{op: sym.Choice("op", 0, 3), fail: sym.Bool("fails"), newBal: currency.Coin(sym.U64("newValue"))}
		smartcontract.ContractMap[vContract] = h
		txn := &transaction.Transaction{}
		txn.ClientID = vSender
		txn.ToClientID = vContract
		txn.Hash = vTxnHash
		txn.Nonce = int64(i + 1)
		txn.TransactionType = transaction.TxnTypeSmartContract
		txn.SmartContractData = &transaction.SmartContractData{FunctionName: "f"}
		wantBal, wantPresent := trieValue()

		_, err := c.updateState(context.Background(), b, bState, txn, bc)

		sym.Assert(err == nil && h.didRead, "the call is applied (successfully or as a charged failure)")
		if wantPresent {
			sym.Assert(h.sawErr == nil && h.sawBal == wantBal, "a read through the cache returns the value the trie holds")
		} else {
			sym.Assert(h.sawErr == util.ErrValueNotPresent, "a read through the cache of a key the trie does not hold reports it absent")
		}
		gotBal, gotPresent := trieValue()
		if h.fail || h.op == 0 || h.op == 3 {
			sym.Assert(gotPresent == wantPresent && gotBal == wantBal, "a failed call, a read and an unsaved in-place mutation leave the trie unchanged")
		}
		if h.fail && (h.op == 1 || h.op == 2) {
			sym.Cover("failed-after-write")
		}
		if h.op == 3 {
			sym.Cover("mutated-in-place")
		}
	}
	sym.Cover("sequence-done")
}

// vC07Txn runs one contract call of block blk (state st, block cache bc) and compares what the
// call read through the caches with the block's trie.
func vC07Txn(c *Chain, blk *block.Block, st util.MerklePatriciaTrieI, bc *statecache.BlockCache, tag string, nonce int64, readOnly bool) {
	h := &vC07SC{}
	if !readOnly {
		h.op = sym.Choice("op", 0, 3)
		h.fail = sym.Bool("fails")
		h.newBal = currency.Coin(sym.U64("newValue"))
	}
	smartcontract.ContractMap[vContract] = h
	txn := &transaction.Transaction{}
	txn.ClientID = vSender
	txn.ToClientID = vContract
	txn.Hash = vTxnHash
	txn.Nonce = nonce
	txn.TransactionType = transaction.TxnTypeSmartContract
	txn.SmartContractData = &transaction.SmartContractData{FunctionName: "f"}
	want := &minersc.GlobalNode{}
	werr := st.GetNodeValue(util.Path(symstate.PathOf(vC07Key)), want)

	_, err := c.updateState(context.Background(), blk, st, txn, bc)

	sym.Assert(err == nil && h.didRead, tag+": the call is applied")
	if werr == nil {
		sym.Assert(h.sawErr == nil && h.sawBal == want.MinStake, tag+": a read through the caches returns the value this block's trie holds")
	} else {
		sym.Assert(h.sawErr == util.ErrValueNotPresent, tag+": a key this block's trie does not hold is reported absent")
	}
}

// VerifC07_blocks: the shared state cache across blocks and forks. Parent block b4 (its cache
// entry arbitrarily present or not), two sibling blocks b5a and b5b on b4's state, each running
// one arbitrary call and arbitrarily committing its block cache (executed) or not (abandoned),
// then b6 on either sibling reading the entity; then b7 on b6 reading again.
func VerifC07_blocks() {
	c := &Chain{}
	c.eventMutex = &sync.RWMutex{}
	c.ChainConfig = NewConfigImpl(&ConfigData{IsFeeEnabled: false, SmartContractTimeout: time.Second})
	config.Configuration().ChainConfig = c.ChainConfig
	t4 := symstate.NewTrie()
	for _, id := range []string{vSender, vContract} {
		s := &state.State{Balance: 1000}
		_ = s.SetTxnHash(vOldHash)
		if _, err := t4.Insert(util.Path(id), s); err != nil {
			panic(err)
		}
	}
	if sym.Bool("entityExistsInitially") {
		s := &minersc.GlobalNode{MinStake: currency.Coin(sym.U64("initialValue"))}
		if _, err := t4.Insert(util.Path(symstate.PathOf(vC07Key)), s); err != nil {
			panic(err)
		}
	}
	cache := statecache.NewStateCache()
	mk := func(round int64, hash, prev string) (*block.Block, *statecache.BlockCache) {
		b := &block.Block{}
		b.Round = round
		b.Hash = hash
		b.PrevHash = prev
		b.PrevBlock = &block.Block{}
		return b, statecache.NewBlockCache(cache, statecache.Block{Round: round, Hash: hash, PrevHash: prev})
	}
	// b4: a read-only call warms the cache when committed
	b4, bc4 := mk(4, "b4", "b3")
	vC07Txn(c, b4, t4, bc4, "b4", 1, true)
	if sym.Bool("b4Committed") {
		bc4.Commit()
	}
	// siblings
	t5a, t5b := symstate.Fork(t4), symstate.Fork(t4)
	b5a, bc5a := mk(5, "b5a", "b4")
	vC07Txn(c, b5a, t5a, bc5a, "b5a", 2, false)
	if sym.Bool("b5aCommitted") {
		bc5a.Commit()
	}
	b5b, bc5b := mk(5, "b5b", "b4")
	vC07Txn(c, b5b, t5b, bc5b, "b5b", 2, false)
	if sym.Bool("b5bCommitted") {
		bc5b.Commit()
	}
	// child of one of them
	parent, pt := "b5a", t5a
	if sym.Bool("childOfB") {
		parent, pt = "b5b", t5b
	}
	t6 := symstate.Fork(pt)
	b6, bc6 := mk(6, "b6", parent)
	vC07Txn(c, b6, t6, bc6, "b6", 3, true)
	bc6.Commit()
	t7 := symstate.Fork(t6)
	b7, bc7 := mk(7, "b7", "b6")
	vC07Txn(c, b7, t7, bc7, "b7", 4, true)
	sym.Cover("blocks-done")
}

func VerifC07_cache3() { vC07Run(3) }
func VerifC07_cache4() { vC07Run(4) }

// VerifC02_noTrace: C02's "everything else is as before" seen by the next transaction of the
// block: calls that write or delete a cacheable entity and then fail, followed by calls that
// read it through the state context (same histories as VerifC07_cache3, two calls).
func VerifC02_noTrace() { vC07Run(2) }
