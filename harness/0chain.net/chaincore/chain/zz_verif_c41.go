package chain

import (
	"context"

	"0chain.net/chaincore/block"
	"0chain.net/chaincore/client"
	"0chain.net/chaincore/node"
	"0chain.net/chaincore/round"
	"0chain.net/core/datastore"
	"0chain.net/core/encryption"
	"0chain.net/zzverif/sym"
)

type vC41Party struct {
	n   *node.Node
	key encryption.SignatureScheme
}

func vC41Node(t node.NodeType) vC41Party {
	ss := encryption.NewBLS0ChainScheme()
	if err := ss.GenerateKeys(); err != nil {
		panic(err)
	}
	nd := node.Provider()
	nd.Type = t
	nd.PublicKey = ss.GetPublicKey()
	if err := nd.ComputeProperties(); err != nil {
		panic(err)
	}
	return vC41Party{nd, ss}
}

// vC41World: a chain whose current magic block has one sharder S and one miner M; a second
// sharder X is a registered node that is NOT in the current magic block; U is unknown.
type vC41World struct {
	c          *Chain
	s, m, x, u vC41Party
}

func vC41Setup(selfType node.NodeType) *vC41World {
	md := datastore.MetadataProvider()
	md.Name = "client"
	md.Provider = client.Provider
	datastore.RegisterEntityMetadata("client", md)
	client.SetClientSignatureScheme("bls0chain")
	w := &vC41World{}
	w.s, w.m, w.x, w.u = vC41Node(node.NodeTypeSharder), vC41Node(node.NodeTypeMiner), vC41Node(node.NodeTypeSharder), vC41Node(node.NodeTypeSharder)
	c := &Chain{}
	c.MagicBlockStorage = round.NewRoundStartingStorage()
	mb := block.NewMagicBlock()
	mb.Sharders = node.NewPool(node.NodeTypeSharder)
	mb.Miners = node.NewPool(node.NodeTypeMiner)
	if err := mb.Sharders.AddNode(w.s.n); err != nil {
		panic(err)
	}
	if err := mb.Miners.AddNode(w.m.n); err != nil {
		panic(err)
	}
	node.RegisterNode(w.x.n) // known to this node (e.g. from an older magic block), not in the current one
	c.SetMagicBlock(mb)
	c.getLFBTicket = make(chan *LFBTicket, 3) // reports handed out (buffered so that the harness can collect them)
	c.updateLFBTicket = make(chan *LFBTicket, 100)
	c.broadcastLFBTicket = make(chan *block.Block, 100)
	c.subLFBTicket = make(chan chan *LFBTicket, 1)
	c.unsubLFBTicket = make(chan chan *LFBTicket, 1)
	c.lfbTickerWorkerIsDone = make(chan struct{})
	w.c = c
	// this node: the magic block's sharder or miner
	self := w.s
	if selfType == node.NodeTypeMiner {
		self = w.m
	}
	node.Self.Node = self.n
	if err := node.Self.SetSignatureScheme(self.key); err != nil {
		panic(err)
	}
	return w
}

func (w *vC41World) ticket(signer vC41Party, signKey encryption.SignatureScheme, rnd int64) *LFBTicket {
	t := &LFBTicket{Round: rnd, SharderID: signer.n.GetKey(), LFBHash: "aa"}
	sig, err := signKey.Sign(t.Hash())
	if err != nil {
		panic(err)
	}
	t.Sign = sig
	return t
}

// VerifC41_authentic: which received tickets pass the node's check.
func VerifC41_authentic() {
	w := vC41Setup(node.NodeTypeMiner)
	rnd := sym.I64("round")
	sym.Assume(rnd >= 0)
	who := sym.Choice("signer", 0, 3)
	party := []vC41Party{w.s, w.m, w.x, w.u}[who]
	key := party.key
	forged := sym.Bool("signedWithAnotherKey")
	if forged {
		key = w.u.key
	}
	t := w.ticket(party, key, rnd)
	if sym.Bool("roundAlteredAfterSigning") {
		t.Round = rnd + 1
		forged = true
	}
	ok := w.c.verifyLFBTicket(t)
	if ok {
		sym.Cover("ticket-accepted")
		sym.Assert(!forged, "a ticket is adopted only with a valid signature of its sender over round, sender and block hash")
		sym.Assert(who == 0, "a ticket is adopted only when signed by a sharder of the current magic block")
	} else {
		sym.Cover("ticket-rejected")
		sym.Assert(who != 0 || forged, "a current sharder's valid ticket is accepted")
	}
}

// VerifC41_monotone: the ticket worker processing received tickets and local finalized
// blocks in any order and batching never reports a lower round than it reported before.
func vC41Monotone(selfType node.NodeType, nTickets, nBlocks int) {
	w := vC41Setup(selfType)
	c := w.c
	// sending to peers is not the subject: an empty magic block has nobody to send to
	empty := block.NewMagicBlock()
	empty.Sharders = node.NewPool(node.NodeTypeSharder)
	empty.Miners = node.NewPool(node.NodeTypeMiner)
	c.MagicBlockStorage = round.NewRoundStartingStorage()
	c.SetMagicBlock(empty)
	LFBTicketSender = func(entity datastore.Entity) node.SendHandler {
		return func(ctx context.Context, n *node.Node) bool { return true }
	}
	start := &block.Block{}
	start.Round = sym.I64("startRound")
	sym.Assume(start.Round >= 0 && start.Round < 1<<40)
	start.Hash = "s0"
	// queued before / while the worker runs (it drains whole batches)
	k := sym.Choice("receivedTickets", 0, nTickets)
	for i := 0; i < k; i++ {
		r := sym.I64("ticketRound")
		sym.Assume(r >= 0 && r < 1<<40)
		c.updateLFBTicket <- w.ticket(w.s, w.s.key, r)
	}
	nb := sym.Choice("finalizedBlocks", 0, nBlocks)
	for i := 0; i < nb; i++ {
		b := &block.Block{}
		b.Round = sym.I64("blockRound")
		sym.Assume(b.Round >= 0 && b.Round < 1<<40)
		b.Hash = "b"
		c.broadcastLFBTicket <- b
	}
	ctx, cancel := context.WithCancel(context.Background())
	cancel() // the worker may stop at any iteration; until then it takes any ready case

	c.StartLFBTicketWorker(ctx, start)

	close(c.getLFBTicket)
	last := start.Round
	n := 0
	for t := range c.getLFBTicket {
		sym.Assert(t.Round >= last, "the reported latest finalized-block ticket never moves backwards")
		last = t.Round
		n++
	}
	if n >= 2 {
		sym.Cover("several-reports")
	}
	if k >= 2 {
		sym.Cover("batch-of-tickets")
	}
}

func VerifC41_monotone()      { vC41Monotone(node.NodeTypeMiner, 3, 1) }
func VerifC41_monotoneShard() { vC41Monotone(node.NodeTypeSharder, 2, 2) }
