package chain

import (
	"context"
	"sync"

	"0chain.net/chaincore/block"
	"0chain.net/chaincore/client"
	"0chain.net/chaincore/node"
	"0chain.net/chaincore/round"
	"0chain.net/core/common"
	"0chain.net/core/datastore"
	"0chain.net/core/encryption"
	"0chain.net/zzverif/sym"
)

const vC31Hash = "abcdef0000000000000000000000000000000000000000000000000000000001"

type vC31World struct {
	c         *Chain
	miners    []*node.Node
	keys      []encryption.SignatureScheme
	outsider  encryption.SignatureScheme
	outsiderN *node.Node
	threshold int
	b         *block.Block
	valid     map[*block.VerificationTicket]bool
}

func vC31Setup(nMiners int) *vC31World {
	md := datastore.MetadataProvider()
	md.Name = "client"
	md.Provider = client.Provider
	datastore.RegisterEntityMetadata("client", md)
	client.SetClientSignatureScheme("bls0chain")
	w := &vC31World{valid: map[*block.VerificationTicket]bool{}}
	c := &Chain{}
	c.ChainConfig = NewConfigImpl(&ConfigData{ThresholdByCount: 66, ClientSignatureScheme: "bls0chain"})
	c.MagicBlockStorage = round.NewRoundStartingStorage()
	c.verifyTicketsWithContext = common.NewWithContextFunc(4)
	c.roundsMutex = &sync.RWMutex{}
	c.rounds = map[int64]round.RoundI{}
	c.lfbMutex = sync.RWMutex{}
	c.LatestFinalizedBlock = &block.Block{}
	mb := block.NewMagicBlock()
	mb.Miners = node.NewPool(node.NodeTypeMiner)
	mk := func(t node.NodeType) (*node.Node, encryption.SignatureScheme) {
		ss := encryption.NewBLS0ChainScheme()
		if err := ss.GenerateKeys(); err != nil {
			panic(err)
		}
		nd := node.Provider()
		nd.Type = t
		nd.PublicKey = ss.GetPublicKey()
		if err := nd.ComputeProperties(); err != nil {
			panic(err)
		}
		return nd, ss
	}
	for i := 0; i < nMiners; i++ {
		nd, ss := mk(node.NodeTypeMiner)
		if err := mb.Miners.AddNode(nd); err != nil {
			panic(err)
		}
		node.RegisterNode(nd)
		w.miners = append(w.miners, nd)
		w.keys = append(w.keys, ss)
	}
	// a registered node that is NOT a miner of the magic block (e.g. a sharder or a former miner)
	w.outsiderN, w.outsider = mk(node.NodeTypeSharder)
	node.RegisterNode(w.outsiderN)
	c.SetMagicBlock(mb)
	w.c = c
	w.threshold = c.GetNotarizationThresholdCount(nMiners)
	b := &block.Block{}
	b.Hash = vC31Hash
	b.Round = 10
	w.b = b
	return w
}

// ticket builds one ticket of a symbolically chosen kind: a miner's valid signature on the block
// hash, a miner's id with a signature made by another key, a miner's signature on another
// hash, or a non-miner's valid signature.
func (w *vC31World) ticket() *block.VerificationTicket {
	who := sym.Choice("verifier", 0, len(w.miners)) // len = the non-miner
	kind := 0
	if who < len(w.miners) {
		kind = sym.Choice("ticketKind", 0, 2)
	}
	t := &block.VerificationTicket{}
	var key encryption.SignatureScheme
	if who == len(w.miners) {
		t.VerifierID = w.outsiderN.GetKey()
		key = w.outsider
	} else {
		t.VerifierID = w.miners[who].GetKey()
		key = w.keys[who]
	}
	var sig string
	var err error
	switch kind {
	case 0:
		sig, err = key.Sign(vC31Hash)
	case 1:
		sig, err = w.outsider.Sign(vC31Hash)
	case 2:
		sig, err = key.Sign(encryption.Hash("another block"))
	}
	if err != nil {
		panic(err)
	}
	t.Signature = sig
	w.valid[t] = kind == 0 && who < len(w.miners)
	return t
}

func (w *vC31World) tickets(name string, max int) []*block.VerificationTicket {
	n := sym.Choice(name, 0, max)
	var out []*block.VerificationTicket
	for i := 0; i < n; i++ {
		out = append(out, w.ticket())
	}
	return out
}

// quorum: the number of distinct magic-block miners for which the block holds a ticket that is
// a valid signature on the block hash.
func (w *vC31World) quorum(ticketsOf func(*block.VerificationTicket) bool) int {
	n := 0
	for i, m := range w.miners {
		ok := false
		for _, t := range w.b.VerificationTickets {
			if t.VerifierID != m.GetKey() {
				continue
			}
			v, err := w.keys[i].Verify(t.Signature, vC31Hash)
			ok = ok || (err == nil && v)
		}
		if ok {
			n++
		}
	}
	return n
}

func (w *vC31World) check() {
	if w.b.IsBlockNotarized() {
		sym.Cover("notarized")
		sym.Assert(w.quorum(nil) >= w.threshold, "a block counts as notarized only with valid tickets from at least the threshold number of distinct magic-block miners")
	} else {
		sym.Cover("not-notarized")
	}
}

// VerifC31_messages: the node's ticket bookkeeping driven as the miner drives it, for a block
// held locally without attached tickets: verification-ticket messages (each verified, then
// added), then one notarization message (unknown tickets extracted, verified together, merged).
func vC31Messages(nMiners, maxSingle, maxNot int) {
	w := vC31Setup(nMiners)
	ctx := context.Background()
	// single verification-ticket messages: handleVerificationTicketMessage verifies, then adds
	for _, t := range w.tickets("ticketMessages", maxSingle) {
		if err := w.c.VerifyTickets(ctx, w.b.Hash, []*block.VerificationTicket{t}, w.b.Round); err != nil {
			continue
		}
		w.c.AddVerificationTicket(w.b, t)
	}
	w.check()
	// a notarization message: notarizationProcess -> UnknownTickets -> MergeNotarization
	// (VerifyTickets over the unknown ones, then merge) unless already notarized
	not := w.tickets("notarizationTickets", maxNot)
	if !w.b.IsBlockNotarized() {
		vts := w.b.UnknownTickets(not)
		if len(vts) > 0 {
			if err := w.c.VerifyTickets(ctx, w.b.Hash, vts, w.b.Round); err == nil {
				w.c.MergeVerificationTickets(w.b, vts)
				sym.Cover("notarization-merged")
			} else {
				sym.Cover("notarization-rejected")
			}
		}
	}
	w.check()
}

// VerifC31_verifyNotarization: the all-in-one check applied to fetched notarized blocks.
func vC31Verify(nMiners, max int) {
	w := vC31Setup(nMiners)
	ts := w.tickets("tickets", max)
	w.b.VerificationTickets = ts
	err := w.c.VerifyNotarization(context.Background(), w.b.Hash, ts, w.b.Round)
	if err == nil {
		sym.Cover("accepted")
		sym.Assert(w.quorum(nil) >= w.threshold, "a notarization is accepted only with valid tickets from at least the threshold number of distinct magic-block miners")
		for _, t := range ts {
			sym.Assert(w.valid[t], "every ticket of an accepted notarization is a magic-block miner's valid signature on the block hash")
		}
	} else {
		sym.Cover("rejected")
	}
}

func VerifC31_messages()  { vC31Messages(3, 1, 3) }
func VerifC31_messages4() { vC31Messages(4, 2, 3) }
func VerifC31_verify()    { vC31Verify(3, 3) }
func VerifC31_verify4()   { vC31Verify(4, 4) }

// VerifC31_receivedBlock: a block proposal arrives with tickets ATTACHED by its sender; the
// miner merges the round's verified tickets into it (processVerifyBlock) and asks whether it
// is notarized.
func VerifC31_receivedBlock() {
	w := vC31Setup(3)
	w.b.VerificationTickets = w.tickets("attachedTickets", 2) // as decoded from the sender's message
	var verified []*block.VerificationTicket
	for _, t := range w.tickets("roundTickets", 1) {
		if err := w.c.VerifyTickets(context.Background(), w.b.Hash, []*block.VerificationTicket{t}, w.b.Round); err == nil {
			verified = append(verified, t)
		}
	}
	w.c.MergeVerificationTickets(w.b, verified)
	if w.b.IsBlockNotarized() {
		sym.Cover("notarized")
		sym.Assert(w.quorum(nil) >= w.threshold, "tickets attached to a received block do not make it notarized unless they are valid tickets of enough distinct miners")
	} else {
		sym.Cover("not-notarized")
	}
}
