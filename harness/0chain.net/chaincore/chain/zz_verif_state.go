package chain

import (
	"context"
	"errors"
	"net/url"
	"sync"
	"time"

	"0chain.net/chaincore/block"
	cstate "0chain.net/chaincore/chain/state"
	"0chain.net/core/config"
	"0chain.net/chaincore/smartcontract"
	"0chain.net/chaincore/state"
	"0chain.net/chaincore/transaction"
	"0chain.net/smartcontract/minersc"
	"0chain.net/zzverif/sym"
	"0chain.net/zzverif/symstate"
	"github.com/0chain/common/core/currency"
	"github.com/0chain/common/core/statecache"
	"github.com/0chain/common/core/util"
)

const (
	vSender   = "a100000000000000000000000000000000000000000000000000000000000001"
	vRecip    = "a200000000000000000000000000000000000000000000000000000000000002"
	vThird    = "a300000000000000000000000000000000000000000000000000000000000003"
	vContract = "c000000000000000000000000000000000000000000000000000000000000009"
	vTxnHash  = "bbbbbbbbbbbbbbbbbbbbbbbbbbbbbbbbbbbbbbbbbbbbbbbbbbbbbbbbbbbbbbbb"
	vOldHash  = "cccccccccccccccccccccccccccccccccccccccccccccccccccccccccccccccc"
)

var vAccounts = []string{vSender, vRecip, vThird, vContract, minersc.ADDRESS}

// verifHavocSC stands for an arbitrary smart contract: it queues up to two arbitrary
// transfers between the modelled accounts, writes a key, emits nothing else, and returns
// success, a chargeable error or an internal (state) error.
type verifHavocSC struct {
	transfers [][3]interface{} // from, to, amount
	outcome   int              // 0 ok, 1 chargeable error
}

func (h *verifHavocSC) Execute(t *transaction.Transaction, fn string, in []byte, balances cstate.StateContextI) (string, error) {
	for _, tr := range h.transfers {
		if err := balances.AddTransfer(state.NewTransfer(tr[0].(string), tr[1].(string), tr[2].(currency.Coin))); err != nil {
			return "", err
		}
	}
	s := &state.State{}
	_ = s.SetTxnHash(vOldHash)
	if _, err := balances.InsertTrieNode("havoc-key", s); err != nil {
		return "", err
	}
	if h.outcome == 1 {
		return "", errors.New("contract failed")
	}
	return "ok", nil
}
func (h *verifHavocSC) GetHandlerStats(ctx context.Context, params url.Values) (interface{}, error) {
	return nil, nil
}
func (h *verifHavocSC) GetExecutionStats() map[string]interface{} { return map[string]interface{}{} }
func (h *verifHavocSC) GetName() string                            { return "havoc" }
func (h *verifHavocSC) GetAddress() string                         { return vContract }
func (h *verifHavocSC) GetCostTable(balances cstate.StateContextI) (map[string]int, error) {
	return map[string]int{}, nil
}

type verifAcct struct {
	present bool
	bal     currency.Coin
	nonce   int64
}

type verifStep struct {
	c       *Chain
	b       *block.Block
	bState  util.MerklePatriciaTrieI
	txn     *transaction.Transaction
	pre     map[string]verifAcct
	havoc   *verifHavocSC
	fee     bool
	err     error
	post    map[string]verifAcct
}

func verifReadAcct(t util.MerklePatriciaTrieI, id string) verifAcct {
	s := &state.State{}
	err := t.GetNodeValue(util.Path(id), s)
	if err != nil {
		return verifAcct{}
	}
	return verifAcct{present: true, bal: s.Balance, nonce: s.Nonce}
}

// verifRunStep builds an arbitrary block state over the five modelled accounts and an
// arbitrary transaction, and applies the real updateState once.
func verifRunStep(txnTypes []int, maxTransfers int) *verifStep {
	st := &verifStep{pre: map[string]verifAcct{}, post: map[string]verifAcct{}}
	c := &Chain{}
	c.eventMutex = &sync.RWMutex{}
	st.fee = sym.Bool("feeEnabled")
	c.ChainConfig = NewConfigImpl(&ConfigData{IsFeeEnabled: st.fee, SmartContractTimeout: time.Second})
	config.Configuration().ChainConfig = c.ChainConfig
	st.c = c
	b := &block.Block{}
	b.Round = 5
	b.PrevBlock = &block.Block{}
	st.b = b
	st.bState = symstate.NewTrie()
	for i, id := range vAccounts {
		// the sender and the recipient may be absent from the state; the others exist
		a := verifAcct{present: true}
		if i < 2 {
			a.present = sym.Bool("present")
		}
		if a.present {
			a.bal = currency.Coin(sym.U64("balance"))
			a.nonce = sym.I64("nonce")
			sym.Assume(a.nonce >= 0)
			s := &state.State{Balance: a.bal, Nonce: a.nonce}
			_ = s.SetTxnHash(vOldHash)
			if _, err := st.bState.Insert(util.Path(id), s); err != nil {
				panic(err)
			}
		}
		st.pre[id] = a
	}
	txn := &transaction.Transaction{}
	txn.ClientID = vSender
	txn.Hash = vTxnHash
	txn.Value = currency.Coin(sym.U64("value"))
	txn.Fee = currency.Coin(sym.U64("fee"))
	txn.Nonce = sym.I64("txnNonce")
	txn.TransactionType = txnTypes[sym.Choice("txnType", 0, len(txnTypes)-1)]
	txn.ToClientID = vRecip
	if txn.TransactionType == transaction.TxnTypeSmartContract {
		txn.ToClientID = vContract
		txn.SmartContractData = &transaction.SmartContractData{FunctionName: "f"}
		h := &verifHavocSC{outcome: sym.Choice("scOutcome", 0, 1)}
		n := sym.Choice("scTransfers", 0, maxTransfers)
		for i := 0; i < n; i++ {
			from := []string{vSender, vContract, vThird}[sym.Choice("from", 0, 2)]
			to := []string{vRecip, vSender, vThird}[sym.Choice("to", 0, 2)]
			h.transfers = append(h.transfers, [3]interface{}{from, to, currency.Coin(sym.U64("amount"))})
		}
		st.havoc = h
		smartcontract.ContractMap[vContract] = h
	}
	st.txn = txn
	bc := statecache.NewBlockCache(statecache.NewStateCache(), statecache.Block{Round: 5, Hash: "b5", PrevHash: "b4"})
	_, st.err = c.updateState(context.Background(), b, st.bState, txn, bc)
	for _, id := range vAccounts {
		st.post[id] = verifReadAcct(st.bState, id)
	}
	return st
}

func (st *verifStep) sums() (pre, post []uint64) {
	for _, id := range vAccounts {
		pre = append(pre, uint64(st.pre[id].bal))
		post = append(post, uint64(st.post[id].bal))
	}
	return
}

func (st *verifStep) unchanged() bool {
	ok := true
	for _, id := range vAccounts {
		p, q := st.pre[id], st.post[id]
		ok = ok && p.present == q.present && p.bal == q.bal && p.nonce == q.nonce
	}
	return ok
}

var vAllTypes = []int{transaction.TxnTypeSend, transaction.TxnTypeData, transaction.TxnTypeSmartContract}

// VerifC01_conservation: the sum of all balances is the same before and after any
// transaction, applied or rejected (no mint, no burn).
func VerifC01_conservation() {
	st := verifRunStep(vAllTypes, 2)
	pre, post := st.sums()
	if st.err == nil {
		sym.Cover("applied")
	} else {
		sym.Cover("rejected")
	}
	sym.Assert(sym.SumEq(pre, post), "total of all balances is unchanged by the transaction")
}

// VerifC02_failedCall: a contract call that fails with a chargeable error only pays its fee
// and consumes its nonce.
func VerifC02_failedCall() {
	st := verifRunStep([]int{transaction.TxnTypeSmartContract}, 2)
	if st.havoc.outcome != 1 {
		return
	}
	if st.err != nil {
		sym.Cover("failed-call-rejected")
		sym.Assert(st.unchanged(), "a rejected transaction leaves every account unchanged")
		return
	}
	sym.Cover("failed-call-charged")
	sym.Assert(st.txn.Status == transaction.TxnError, "the transaction is recorded as failed")
	sym.Assert(st.txn.TransactionOutput == "contract failed", "the output is the error text")
	fee := currency.Coin(0)
	if st.fee {
		fee = st.txn.Fee
	}
	for _, id := range vAccounts {
		p, q := st.pre[id], st.post[id]
		switch id {
		case vSender:
			sym.Assert(sym.SumEq([]uint64{uint64(q.bal), uint64(fee)}, []uint64{uint64(p.bal)}), "the sender pays exactly the fee")
			sym.Assert(q.nonce == p.nonce+1, "the sender's nonce advances by one")
		case minersc.ADDRESS:
			sym.Assert(sym.SumEq([]uint64{uint64(q.bal)}, []uint64{uint64(p.bal), uint64(fee)}), "the fee goes to the miner contract")
			sym.Assert(q.nonce == p.nonce, "other nonces unchanged")
		default:
			sym.Assert(q.bal == p.bal && q.nonce == p.nonce && (q.present == p.present), "transfers queued by the failed call are discarded")
		}
	}
	hv := &state.State{}
	sym.Assert(st.bState.GetNodeValue(util.Path(symstate.PathOf("havoc-key")), hv) == util.ErrValueNotPresent, "state written by the failed call is discarded")
}

// VerifC03_nonce: a transaction is applied iff its nonce is the account nonce + 1 (among the
// other checks), and applying it raises the nonce by exactly one; a rejected one changes nothing.
func VerifC03_nonce() {
	st := verifRunStep(vAllTypes, 1)
	p, q := st.pre[vSender], st.post[vSender]
	if st.err == nil {
		sym.Cover("applied")
		sym.Assert(st.txn.Nonce == p.nonce+1, "only the next nonce is applied (no past, skipped or repeated nonce)")
		sym.Assert(q.present && q.nonce == p.nonce+1, "an applied transaction, successful or chargeable-failed, raises the nonce by exactly one")
		if st.havoc != nil && st.havoc.outcome == 1 {
			sym.Cover("applied-chargeable-failure")
		}
	} else {
		sym.Cover("rejected")
		sym.Assert(q.nonce == p.nonce && q.present == p.present, "a rejected transaction does not consume the nonce")
	}
	if st.txn.Nonce != p.nonce+1 {
		sym.Cover("wrong-nonce")
		sym.Assert(st.err != nil, "a transaction whose nonce is not the next one is rejected")
	}
	for _, id := range vAccounts[1:] {
		sym.Assert(st.post[id].nonce == st.pre[id].nonce, "nobody else's nonce moves")
	}
}

// VerifC05_noOverdraw: balances never wrap; an over-large transfer fails the whole transaction
// and leaves every balance unchanged.
func VerifC05_noOverdraw() {
	st := verifRunStep(vAllTypes, 2)
	if st.err != nil {
		sym.Cover("rejected")
		sym.Assert(st.unchanged(), "a failed transaction leaves every balance and nonce unchanged")
		return
	}
	sym.Cover("applied")
	// replay the queued transfers on mathematical integers: every debit must have been covered
	type mv struct {
		from, to string
		amt      currency.Coin
	}
	var moves []mv
	charged := st.havoc != nil && st.havoc.outcome == 1
	switch st.txn.TransactionType {
	case transaction.TxnTypeSend:
		moves = append(moves, mv{vSender, vRecip, st.txn.Value})
	case transaction.TxnTypeSmartContract:
		if !charged {
			for _, tr := range st.havoc.transfers {
				moves = append(moves, mv{tr[0].(string), tr[1].(string), tr[2].(currency.Coin)})
			}
		}
	}
	if st.fee {
		moves = append(moves, mv{vSender, minersc.ADDRESS, st.txn.Fee})
	}
	cur := map[string]currency.Coin{}
	for _, id := range vAccounts {
		cur[id] = st.pre[id].bal
	}
	for _, m := range moves {
		if m.amt == 0 {
			continue
		}
		sym.Assert(m.from != m.to, "no self transfer is applied")
		sym.Assert(cur[m.from] >= m.amt, "every applied transfer was covered by the source balance at that point (no overdraw)")
		sym.Assert(sym.SumLe([]uint64{uint64(cur[m.to]), uint64(m.amt)}, []uint64{18446744073709551615}), "no applied transfer overflows the destination")
		cur[m.from] -= m.amt
		cur[m.to] += m.amt
	}
	for _, id := range vAccounts {
		sym.Assert(st.post[id].bal == cur[id], "final balances are exactly the pre-balances moved by the queued transfers")
	}
}

// VerifC04_authorised: an account is debited only by transfers that name it as source, the
// sender is debited by at most value + fee, and third parties only through contract transfers.
func VerifC04_authorised()  { verifC04(2) }
func VerifC04_authorised1() { verifC04(1) }

func verifC04(maxTransfers int) {
	st := verifRunStep(vAllTypes, maxTransfers)
	if st.err != nil {
		return
	}
	sym.Cover("applied")
	charged := st.havoc != nil && st.havoc.outcome == 1
	fee := currency.Coin(0)
	if st.fee {
		fee = st.txn.Fee
	}
	// recipient, miner contract: never debited by a send/data transaction
	if st.txn.TransactionType != transaction.TxnTypeSmartContract || charged {
		for _, id := range []string{vRecip, vThird, vContract, minersc.ADDRESS} {
			sym.Assert(st.post[id].bal >= st.pre[id].bal, "an account that is not a transfer source is never debited")
		}
		if st.txn.TransactionType == transaction.TxnTypeSend {
			sym.Assert(sym.SumEq([]uint64{uint64(st.pre[vSender].bal)}, []uint64{uint64(st.post[vSender].bal), uint64(st.txn.Value), uint64(fee)}), "a send debits exactly value + fee")
		} else {
			sym.Assert(sym.SumEq([]uint64{uint64(st.pre[vSender].bal)}, []uint64{uint64(st.post[vSender].bal), uint64(fee)}), "a data or failed contract transaction debits exactly the fee")
		}
		return
	}
	sym.Cover("contract-transfers-applied")
	named := map[string]bool{}
	for _, tr := range st.havoc.transfers {
		if tr[2].(currency.Coin) > 0 {
			named[tr[0].(string)] = true
		}
	}
	for _, id := range []string{vRecip, vThird, vContract, minersc.ADDRESS} {
		if !named[id] {
			sym.Assert(st.post[id].bal >= st.pre[id].bal, "an account that is not a transfer source is never debited")
		}
	}
}
