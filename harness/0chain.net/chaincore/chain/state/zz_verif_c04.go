package state

import (
	"0chain.net/chaincore/block"
	"0chain.net/chaincore/state"
	"0chain.net/chaincore/transaction"
	"0chain.net/core/config"
	"0chain.net/core/encryption"
	"0chain.net/zzverif/sym"
	"github.com/0chain/common/core/currency"
	"github.com/0chain/common/core/util"
)

type vC04Conf struct {
	config.ChainConfig
	fee bool
}

func (c vC04Conf) IsFeeEnabled() bool { return c.fee }

const (
	vC04Sender = "a100000000000000000000000000000000000000000000000000000000000001"
	vC04Other  = "a200000000000000000000000000000000000000000000000000000000000002"
	vC04Dest   = "a300000000000000000000000000000000000000000000000000000000000003"
)

// VerifC04_validate: StateContext.Validate over an arbitrary queue of <=2 plain transfers
// and <=2 signed transfers (each one correctly signed by its source, signed by somebody
// else's key, or carrying a corrupted signature). Accepted => the sender's transfers total
// at most value (+ fee when fees are on) and EVERY signed transfer carries a signature that
// verifies under the key whose hash is its source account.
func VerifC04_validate() {
	fee := sym.Bool("feeEnabled")
	config.Configuration().ChainConfig = vC04Conf{fee: fee}
	txn := &transaction.Transaction{}
	txn.ClientID = vC04Sender
	txn.Value = currency.Coin(sym.U64("value"))
	txn.Fee = currency.Coin(sym.U64("fee"))
	sc := NewStateContext(&block.Block{}, util.MerklePatriciaTrieI(nil), txn, nil, nil, nil, nil, nil, nil)

	nt := sym.Choice("transfers", 0, 2)
	var fromSender []uint64
	for i := 0; i < nt; i++ {
		from := []string{vC04Sender, vC04Other}[sym.Choice("from", 0, 1)]
		amt := currency.Coin(sym.U64("amount"))
		if err := sc.AddTransfer(state.NewTransfer(from, vC04Dest, amt)); err != nil {
			panic(err)
		}
		if from == vC04Sender {
			fromSender = append(fromSender, uint64(amt))
		}
	}
	ns := sym.Choice("signedTransfers", 0, 2)
	allGood := true
	for i := 0; i < ns; i++ {
		own := encryption.NewED25519Scheme()
		if err := own.GenerateKeys(); err != nil {
			panic(err)
		}
		foreign := encryption.NewED25519Scheme()
		if err := foreign.GenerateKeys(); err != nil {
			panic(err)
		}
		src := encryption.Hash(vHexBytes(own.GetPublicKey()))
		amt := currency.Coin(sym.U64("signedAmount"))
		st := &state.SignedTransfer{Transfer: *state.NewTransfer(src, vC04Dest, amt), SchemeName: "ed25519", PublicKey: own.GetPublicKey()}
		switch sym.Choice("sigKind", 0, 3) {
		case 0: // correctly signed by the source account's key
			if err := st.Sign(own); err != nil {
				panic(err)
			}
			if amt == 0 {
				allGood = false
			}
		case 1: // signed by a different key, public key of the source attached
			if err := st.Sign(foreign); err != nil {
				panic(err)
			}
			allGood = false
		case 2: // signed by a different key and that key attached (does not hash to the source)
			if err := st.Sign(foreign); err != nil {
				panic(err)
			}
			st.PublicKey = foreign.GetPublicKey()
			allGood = false
		case 3: // signature over a different amount
			if err := st.Sign(own); err != nil {
				panic(err)
			}
			st.Amount = amt + 1
			allGood = false
		}
		sc.AddSignedTransfer(st)
	}

	err := sc.Validate()

	limit := []uint64{uint64(txn.Value)}
	if fee {
		limit = append(limit, uint64(txn.Fee))
	}
	if err == nil {
		sym.Cover("accepted")
		sym.Assert(sym.SumLe(fromSender, limit), "the sender's queued transfers total at most value + fee")
		sym.Assert(allGood, "every queued signed transfer carries the valid signature of the account it debits")
		if ns == 2 {
			sym.Cover("accepted-two-signed")
		}
	} else {
		sym.Cover("rejected")
		if allGood && sym.SumLe(fromSender, limit) && sym.SumLe(limit, []uint64{18446744073709551615}) && sym.SumLe(fromSender, []uint64{18446744073709551615}) {
			sym.Fail("a queue within the cap whose signed transfers are all valid is accepted")
		}
	}
}

func vHexBytes(h string) []byte {
	out := make([]byte, len(h)/2)
	for i := range out {
		out[i] = vNib(h[2*i])<<4 | vNib(h[2*i+1])
	}
	return out
}

func vNib(c byte) byte {
	switch {
	case c >= '0' && c <= '9':
		return c - '0'
	case c >= 'a' && c <= 'f':
		return c - 'a' + 10
	}
	return c - 'A' + 10
}
