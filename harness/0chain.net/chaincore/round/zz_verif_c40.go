package round

import "0chain.net/zzverif/sym"

// reference floor lookup over the retained (start, id) pairs
func verifC40Floor(starts []int64, ids []int, q int64) int {
	best := -1
	for i := range starts {
		if starts[i] <= q && (best < 0 || starts[i] > starts[best]) {
			best = i
		}
	}
	if best < 0 {
		return -1
	}
	return ids[best]
}

// verifC40: up to n Puts with symbolic non-negative starting rounds in symbolic order (repeats
// replace), an optional Prune at a stored round, then a symbolic query.
func verifC40(n int) {
	s := NewRoundStartingStorage()
	k := sym.Choice("puts", 1, n)
	var starts []int64
	var ids []int
	for i := 0; i < k; i++ {
		r := sym.I64("start")
		sym.Assume(r >= 0)
		if err := s.Put(i, r); err != nil {
			sym.Fail("Put returned an error")
		}
		replaced := false
		for j := range starts {
			if starts[j] == r {
				ids[j] = i
				replaced = true
				sym.Cover("replace-existing-start")
			}
		}
		if !replaced {
			starts = append(starts, r)
			ids = append(ids, i)
		}
	}
	verifC40Inv(s, starts)

	q := sym.I64("query")
	sym.Assume(q >= 0)
	before := s.Get(q)
	want := verifC40Floor(starts, ids, q)
	if want < 0 {
		sym.Assert(before == nil, "no entry starts at or before the query: Get returns nil (caller falls back to latest)")
		sym.Cover("query-before-first")
	} else {
		sym.Assert(before != nil && before.(int) == want, "Get returns the entry with the greatest start <= query")
		sym.Cover("query-floor")
	}
	// latest = entry with the greatest start
	lat := s.GetLatest()
	mx := 0
	for i := range starts {
		if starts[i] > starts[mx] {
			mx = i
		}
	}
	sym.Assert(lat != nil && lat.(int) == ids[mx], "GetLatest returns the entry with the greatest start")
	// index view used by GetPrevMagicBlock
	fi := s.FindRoundIndex(q)
	if want < 0 {
		sym.Assert(fi == -1, "FindRoundIndex is -1 before the first start")
	} else {
		sym.Assert(fi >= 0 && fi < s.Count() && s.GetRound(fi) <= q && s.Get(s.GetRound(fi)).(int) == want, "FindRoundIndex points at the floor entry")
	}

	if sym.Choice("prune", 0, 1) == 1 {
		pi := sym.Choice("pruneAt", 0, len(starts)-1)
		pr := starts[pi]
		err := s.Prune(pr)
		sym.Assert(err == nil, "Prune at a stored round succeeds")
		var rs []int64
		var ri []int
		for i := range starts {
			if starts[i] > pr {
				rs = append(rs, starts[i])
				ri = append(ri, ids[i])
			}
		}
		verifC40Inv(s, rs)
		if len(rs) > 0 {
			sym.Cover("pruned-some-kept")
			lo := rs[0]
			for _, x := range rs {
				if x < lo {
					lo = x
				}
			}
			if q >= lo {
				after := s.Get(q)
				sym.Assert(after != nil && before != nil && after.(int) == before.(int), "Get for a round at or after the smallest retained start is unchanged by Prune")
				sym.Cover("query-after-prune")
			}
		} else {
			sym.Cover("pruned-all")
		}
		sym.Assert(s.Prune(pr) == ErrRoundEntityNotFound, "pruning an absent round reports not found")
	}
	sym.Assert(sym.LockBalance() == 0, "locks released")
}

func verifC40Inv(s *roundStartingStorage, starts []int64) {
	sym.Assert(len(s.rounds) == len(starts) && len(s.items) == len(starts), "rounds and items hold exactly the retained starts")
	for i := range s.rounds {
		if i > 0 {
			sym.Assert(s.rounds[i-1] < s.rounds[i], "rounds strictly ascending (sorted, duplicate-free)")
		}
		_, ok := s.items[s.rounds[i]]
		sym.Assert(ok, "every listed round has an item")
	}
}

func VerifC40_puts3() { verifC40(3) }
func VerifC40_puts4() { verifC40(4) }
