package round

import (
	"0chain.net/chaincore/block"
	"0chain.net/chaincore/node"
	"0chain.net/core/encryption"
	"0chain.net/zzverif/sym"
)

// verifMiners builds a miner pool of n nodes with generated keys (real BLS keys natively).
func verifMiners(n int) (*node.Pool, []*node.Node) {
	pool := node.NewPool(node.NodeTypeMiner)
	var nodes []*node.Node
	for i := 0; i < n; i++ {
		ss := encryption.NewBLS0ChainScheme()
		if err := ss.GenerateKeys(); err != nil {
			panic(err)
		}
		nd := node.Provider()
		nd.Type = node.NodeTypeMiner
		nd.PublicKey = ss.GetPublicKey()
		if err := nd.ComputeProperties(); err != nil {
			panic(err)
		}
		if err := pool.AddNode(nd); err != nil {
			panic(err)
		}
		nodes = append(nodes, nd)
	}
	return pool, nodes
}

// verifRoundUnlocked: lock balance under the executor, a TryLock probe natively.
func verifRoundUnlocked(r *Round) bool {
	if sym.Symbolic() {
		return sym.LockBalance() == 0
	}
	if !r.mutex.TryLock() {
		return false
	}
	r.mutex.Unlock()
	if !r.timeoutCounter.mutex.TryLock() {
		return false
	}
	r.timeoutCounter.mutex.Unlock()
	return true
}

func verifNewRound() *Round {
	r := &Round{}
	r.initialize()
	r.timeoutCounter.resetVotes()
	r.Number = 7
	return r
}

// verifC37: k operations from an arbitrary valid round state; after each operation the phase
// moved forward (or the operation was an explicit reset / an accepted restart), the timeout
// count did not decrease, the share set is bounded, finalized stays finalized through the
// conditional reset, and the operation returned with every mutex released.
func verifC37(k int) {
	pool, miners := verifMiners(3)
	node.Self.Node = miners[0]
	r := verifNewRound()
	// arbitrary valid starting state
	ph0 := sym.I32("phase0")
	sym.Assume(ph0 >= 0 && ph0 <= 4)
	r.ResetPhase(Phase(ph0))
	c0 := sym.Int("count0")
	sym.Assume(c0 >= 0 && c0 < 1000000)
	r.timeoutCounter.count = c0
	fin0 := sym.I32("fin0")
	sym.Assume(fin0 >= 0 && fin0 <= 2)
	r.finalizingState = FinalizingState(fin0)
	threshold := sym.Int("threshold")
	sym.Assume(threshold >= 1 && threshold <= 2)
	accepted := map[string]int{}

	for step := 0; step < k; step++ {
		prevPhase := r.GetPhase()
		prevCount := r.GetTimeoutCount()
		prevFin := r.finalizingState
		op := sym.Choice("op", 0, 11)
		phaseMayGoBack := false
		switch op {
		case 0:
			r.SetPhase(Phase(sym.Choice("phase", 0, 4)))
		case 1:
			r.ResetPhase(Phase(sym.Choice("phase", 0, 4)))
			phaseMayGoBack = true
		case 2:
			err := r.Restart()
			if err == nil {
				sym.Cover("restart-accepted")
				sym.Assert(prevPhase < Share, "a restart is accepted only before sharing")
				phaseMayGoBack = true
				accepted = map[string]int{}
			} else {
				sym.Cover("restart-rejected")
				sym.Assert(prevPhase >= Share && err == CompleteRoundRestartError, "a restart at or after sharing is rejected")
			}
		case 3:
			i := sym.Choice("party", 0, 2)
			sh := &VRFShare{Round: r.Number, Share: "s", party: miners[i]}
			if r.AddVRFShare(sh, threshold) {
				accepted[miners[i].GetKey()]++
				sym.Cover("share-accepted")
			}
		case 4:
			b := &block.Block{}
			b.Hash = []string{"h1", "h2"}[sym.Choice("blk", 0, 1)]
			b.RoundRank = sym.Choice("rank", 0, 1)
			b.Round = r.Number
			r.AddNotarizedBlock(b)
			// (no phase is demanded here: after an explicit reset, re-adding a block the round
			// already holds merges tickets and leaves the phase alone, which the property allows)
		case 5:
			n := sym.Int("setCount")
			sym.Assume(n >= -5 && n < 1000000)
			r.SetTimeoutCount(n)
		case 6:
			v := sym.Int("vote")
			sym.Assume(v >= 0 && v < 1000000)
			r.AddTimeoutVote(v, miners[1+sym.Choice("voter", 0, 1)].GetKey())
		case 7:
			prrs := int64(0)
			if sym.Choice("hasSeed", 0, 1) == 1 {
				prrs = sym.I64("prrs")
				sym.Assume(prrs != 0)
			}
			r.IncrementTimeoutCount(prrs, pool)
			if prrs != 0 {
				sym.Cover("timeout-incremented")
			}
		case 8:
			r.SetFinalizing()
		case 9:
			r.SetFinalized()
		case 10:
			r.ResetFinalizingStateIfNotFinalized()
			if prevFin == RoundStateFinalized {
				sym.Cover("conditional-reset-on-finalized")
				sym.Assert(r.finalizingState == RoundStateFinalized, "a finalized round stays finalized through the conditional reset")
			}
		case 11:
			b := &block.Block{}
			b.Hash = "hf"
			r.Finalize(b)
			sym.Assert(r.IsFinalized(), "Finalize marks the round finalized")
		}
		unlocked := verifRoundUnlocked(r)
		sym.Assert(unlocked, "the operation returned with every mutex released")
		if !unlocked {
			return // any further operation would block forever
		}
		if !phaseMayGoBack {
			sym.Assert(r.GetPhase() >= prevPhase, "the phase only moves forward (except explicit reset / accepted restart)")
		}
		sym.Assert(r.GetTimeoutCount() >= prevCount, "the timeout count never decreases")
		shares := r.GetVRFShares()
		sym.Assert(len(shares) <= threshold, "at most threshold-many VRF shares are held")
		for _, c := range accepted {
			sym.Assert(c <= 1, "at most one VRF share per miner")
		}
	}
}

func VerifC37_ops2() { verifC37(2) }
func VerifC37_ops3() { verifC37(3) }
