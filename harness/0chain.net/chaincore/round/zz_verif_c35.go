package round

import (
	"0chain.net/chaincore/block"
	"0chain.net/chaincore/node"
	"0chain.net/zzverif/sym"
)

var verifPerms3 = [][]int{{0, 1, 2}, {0, 2, 1}, {1, 0, 2}, {1, 2, 0}, {2, 0, 1}, {2, 1, 0}}

// VerifC35_ranking: the same miner set added in any order (optionally re-adding one miner as
// a fresh node object) and the same seed give the same ranking, and it is a permutation.
func VerifC35_ranking() {
	_, base := verifMiners(3)
	// reference pool: canonical order
	ref := node.NewPool(node.NodeTypeMiner)
	var refNodes []*node.Node
	for _, m := range base {
		c := node.Provider()
		c.Type = node.NodeTypeMiner
		c.PublicKey = m.PublicKey
		if err := c.ComputeProperties(); err != nil {
			panic(err)
		}
		if err := ref.AddNode(c); err != nil {
			panic(err)
		}
		refNodes = append(refNodes, c)
	}
	// pool under test: symbolic insertion order, optional re-add of one miner as a new object
	order := verifPerms3[sym.Choice("order", 0, 5)]
	pool := node.NewPool(node.NodeTypeMiner)
	for _, i := range order {
		c := node.Provider()
		c.Type = node.NodeTypeMiner
		c.PublicKey = base[i].PublicKey
		if err := c.ComputeProperties(); err != nil {
			panic(err)
		}
		if err := pool.AddNode(c); err != nil {
			panic(err)
		}
	}
	if re := sym.Choice("readd", 0, 3); re > 0 {
		sym.Cover("miner-re-added")
		c := node.Provider()
		c.Type = node.NodeTypeMiner
		c.PublicKey = base[re-1].PublicKey
		if err := c.ComputeProperties(); err != nil {
			panic(err)
		}
		if err := pool.AddNode(c); err != nil {
			panic(err)
		}
	}
	seed := sym.I64("seed")
	sym.Assume(seed != 0)
	r1 := verifNewRound()
	r1.SetRandomSeed(seed, ref.Size())
	r2 := verifNewRound()
	r2.SetRandomSeed(seed, pool.Size())
	sym.Assert(pool.Size() == 3, "re-adding a miner does not change the set size")
	seen := map[int]bool{}
	for _, m := range pool.CopyNodes() {
		rk := r2.GetMinerRank(m)
		sym.Assert(rk >= 0 && rk < 3 && !seen[rk], "ranks form a permutation of the miner set")
		seen[rk] = true
		for _, rm := range refNodes {
			if rm.GetKey() == m.GetKey() {
				sym.Assert(r1.GetMinerRank(rm) == rk, "same seed and miner set give the same rank regardless of insertion order")
			}
		}
	}
	byRank := r2.GetMinersByRank(pool.CopyNodes())
	for i := 1; i < len(byRank); i++ {
		sym.Assert(r2.GetMinerRank(byRank[i-1]) > r2.GetMinerRank(byRank[i]), "GetMinersByRank orders miners by rank without ties")
	}
	sym.Cover("ranked")
}

// VerifC35_notarized: at most one notarized block per rank, heaviest first, and an update
// replaces the stored block by the given one.
func VerifC35_notarized() {
	r := verifNewRound()
	n := sym.Choice("adds", 1, 3)
	hashes := []string{"h0", "h1", "h2", "h3"}
	var last *block.Block
	for i := 0; i < n; i++ {
		b := &block.Block{}
		b.Hash = hashes[sym.Choice("hash", 0, 3)]
		b.RoundRank = sym.Choice("rank", 0, 2)
		b.Round = r.Number
		r.AddNotarizedBlock(b)
		last = b
		nbs := r.GetNotarizedBlocks()
		ranks := map[int]int{}
		hs := map[string]int{}
		for j, nb := range nbs {
			ranks[nb.RoundRank]++
			hs[nb.Hash]++
			if j > 0 {
				sym.Assert(nbs[j-1].Weight() >= nb.Weight(), "notarized blocks are ordered from heaviest to lightest")
			}
		}
		for _, c := range ranks {
			sym.Assert(c <= 1, "at most one notarized block per rank")
		}
		for _, c := range hs {
			sym.Assert(c <= 1, "a block hash is listed once")
		}
		sym.Assert(hs[b.Hash] == 1, "the added block (or the block already held under its hash) is listed")
	}
	// update: a different object carrying the same hash replaces the stored one
	nb := &block.Block{}
	nb.Hash = last.Hash
	nb.RoundRank = last.RoundRank
	nb.Round = r.Number
	r.UpdateNotarizedBlock(nb)
	found := false
	for _, x := range r.GetNotarizedBlocks() {
		if x.Hash == nb.Hash {
			found = true
			sym.Assert(x == nb, "updating a notarized block replaces it with the given block")
		}
	}
	for _, x := range r.GetProposedBlocks() {
		if x.Hash == nb.Hash {
			sym.Assert(x == nb, "updating also replaces the proposed block of that hash")
		}
	}
	sym.Assert(found, "the updated block is still listed")
	sym.Cover("updated")
	sym.Assert(verifRoundUnlocked(r), "mutex released")
}
