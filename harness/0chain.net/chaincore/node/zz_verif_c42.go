package node

import (
	"0chain.net/core/encryption"
	"0chain.net/zzverif/sym"
)

// verifScorer gives every sharder an arbitrary score that is a function of its id only.
type verifScorer struct{ scores map[string]int32 }

func (v *verifScorer) Score(id []byte, hash []byte) int32 {
	k := string(id)
	if s, ok := v.scores[k]; ok {
		return s
	}
	s := sym.I32("score")
	sym.Assume(s >= 0 && s <= 256)
	v.scores[k] = s
	return s
}

func verifSharders(n int) []*Node {
	var out []*Node
	for i := 0; i < n; i++ {
		ss := encryption.NewBLS0ChainScheme()
		if err := ss.GenerateKeys(); err != nil {
			panic(err)
		}
		nd := Provider()
		nd.Type = NodeTypeSharder
		nd.PublicKey = ss.GetPublicKey()
		if err := nd.ComputeProperties(); err != nil {
			panic(err)
		}
		if err := nd.SetID(nd.ID); err != nil {
			panic(err)
		}
		out = append(out, nd)
	}
	return out
}

var verifOrders3 = [][]int{{0, 1, 2}, {0, 2, 1}, {1, 0, 2}, {1, 2, 0}, {2, 0, 1}, {2, 1, 0}}

// VerifC42_replicators: for arbitrary per-sharder scores (ties included), every insertion
// order of the same sharder set gives the same responsible set; with enough sharders the
// set has at least the configured number of replicators; every selector agrees.
func VerifC42_replicators() {
	n := sym.Choice("sharders", 1, 3)
	base := verifSharders(n)
	sc := &verifScorer{scores: map[string]int32{}}
	hps := NewHashPoolScorer(sc)
	hash := []byte{1, 2, 3}
	build := func(order []int) *Pool {
		p := NewPool(NodeTypeSharder)
		for _, i := range order {
			if i < n {
				if err := p.AddNode(base[i]); err != nil {
					panic(err)
				}
			}
		}
		return p
	}
	ref := build(verifOrders3[0])
	oth := build(verifOrders3[sym.Choice("order", 0, 5)])
	topN := sym.Choice("replicators", 1, 3)
	s1 := hps.ScoreHash(ref, hash)
	s2 := hps.ScoreHash(oth, hash)
	count := 0
	for _, nd := range base {
		in1 := nd.IsInTop(s1, topN)
		in2 := nd.IsInTop(s2, topN)
		sym.Assert(in1 == in2, "the responsible set does not depend on the order sharders were added")
		in3, set3 := nd.IsInTopWithNodes(s1, topN)
		sym.Assert(in3 == in1, "IsInTop and IsInTopWithNodes agree on membership")
		listed := false
		for _, x := range set3 {
			if x == nd {
				listed = true
			}
		}
		sym.Assert(listed == in1, "the listed replicators are exactly the members")
		if in1 {
			count++
		}
	}
	if topN <= n {
		sym.Cover("enough-sharders")
		sym.Assert(count >= topN, "with enough sharders at least the configured number of replicators store the block")
		if topN == n {
			sym.Cover("exactly-as-many-sharders-as-replicators")
		}
	} else {
		sym.Cover("too-few-sharders")
	}
	top := GetTopNNodes(s1, topN)
	want := topN
	if n < want {
		want = n
	}
	sym.Assert(len(top) == want, "GetTopNNodes returns min(n, sharders) nodes")
}
