package blockdb

import (
	"bytes"
	"io"

	"0chain.net/zzverif/sym"
)

var verifC26Keys = []Key{"bb", "dd", "ff"}
var verifC26Probes = []Key{"aa", "bb", "cc", "dd", "ee", "ff", "gg"}

// VerifC26_index: the index written by Save (mapIndex.Encode) and read by Open
// (fixedKeyArrayIndex.Decode) answers every lookup — present keys with their offset, absent keys
// (before, between, beyond) with ErrKeyNotFound, and always terminates.
func VerifC26_index() {
	n := sym.Choice("keys", 0, 3)
	mi := newMapIndex()
	offs := map[Key]int64{}
	for i := 0; i < n; i++ {
		o := sym.I64("offset")
		offs[verifC26Keys[i]] = o
		if err := mi.SetOffset(verifC26Keys[i], o); err != nil {
			sym.Fail("SetOffset failed")
		}
	}
	buf := bytes.NewBuffer(nil)
	sym.Assert(mi.Encode(buf) == nil, "index encodes")
	raw := append([]byte{}, buf.Bytes()...)

	// reopen as the fixed key array index
	fk := newFixedKeyArrayIndex(2)
	sym.Assert(fk.Decode(bytes.NewBuffer(raw)) == nil, "fixed-key index decodes what the map index encoded")
	probe := verifC26Probes[sym.Choice("probe", 0, len(verifC26Probes)-1)]
	want, present := offs[probe]
	sym.StepLimit(200000)
	got, err := fk.GetOffset(probe)
	if present {
		sym.Cover("present-key")
		sym.Assert(err == nil && got == want, "present key returns the offset written for it")
	} else {
		sym.Cover("absent-key")
		sym.Assert(err == ErrKeyNotFound, "absent key returns not-found")
	}
	ks := fk.GetKeys()
	sym.Assert(len(ks) == n, "GetKeys lists every key")
	for i := range ks {
		sym.Assert(ks[i] == verifC26Keys[i], "keys are stored in sorted order")
	}

	// map index round trip
	mi2 := newMapIndex()
	sym.Assert(mi2.Decode(bytes.NewBuffer(raw)) == nil, "map index decodes its own encoding")
	got2, err2 := mi2.GetOffset(probe)
	if present {
		sym.Assert(err2 == nil && got2 == want, "map index: present key round-trips")
	} else {
		sym.Assert(err2 == ErrKeyNotFound && got2 == -1, "map index: absent key not found")
	}
}

type verifC26Rec struct {
	key     Key
	payload []byte
}

func (r *verifC26Rec) GetKey() Key { return r.key }
func (r *verifC26Rec) Encode(w io.Writer) error {
	if _, err := w.Write([]byte(r.key)); err != nil {
		return err
	}
	_, err := w.Write(r.payload)
	return err
}
func (r *verifC26Rec) Decode(rd io.Reader) error {
	all, err := io.ReadAll(rd)
	if err != nil {
		return err
	}
	if len(all) < 2 {
		return io.ErrUnexpectedEOF
	}
	r.key = Key(all[:2])
	r.payload = all[2:]
	return nil
}

type verifC26Prov struct{}

func (verifC26Prov) NewRecord() Record { return &verifC26Rec{} }

var verifC26Sizes = []int{0, 7, 4090, 5000}

// VerifC26_db: write records, Save, reopen, and read every record back by key and by scan.
// Record sizes are chosen around the 4096-byte read buffer.
func VerifC26_db() {
	dir := sym.TempDir()
	db, _ := NewBlockDB(dir+"/blk", 2, false)
	sym.Assert(db.Create() == nil, "create")
	n := sym.Choice("records", 1, 2)
	var recs []*verifC26Rec
	for i := 0; i < n; i++ {
		sz := verifC26Sizes[sym.Choice("size", 0, len(verifC26Sizes)-1)]
		p := make([]byte, sz)
		for j := range p {
			p[j] = byte(j*7 + i)
		}
		if sz > 0 {
			p[0] = sym.U8("first")
			p[sz-1] = sym.U8("last")
		}
		r := &verifC26Rec{key: verifC26Keys[i], payload: p}
		sym.Assert(db.WriteData(r) == nil, "WriteData succeeds")
		recs = append(recs, r)
	}
	sym.Assert(db.Save() == nil, "Save succeeds")

	db2, _ := NewBlockDB(dir+"/blk", 2, false)
	sym.Assert(db2.Open() == nil, "Open succeeds")
	for _, r := range recs {
		var got verifC26Rec
		err := db2.Read(r.key, &got)
		sym.Assert(err == nil, "a written record reads back after reopening")
		if err == nil {
			sym.Assert(got.key == r.key && bytes.Equal(got.payload, r.payload), "read-back record equals the record written under that key")
		}
	}
	sym.Cover("read-by-key")
	db3, _ := NewBlockDB(dir+"/blk", 2, false)
	sym.Assert(db3.Open() == nil, "Open succeeds")
	all, err := db3.ReadAll(verifC26Prov{})
	sym.Assert(err == nil && len(all) == len(recs), "ReadAll returns every record")
	if err == nil && len(all) == len(recs) {
		for i, r := range recs {
			g := all[i].(*verifC26Rec)
			sym.Assert(g.key == r.key && bytes.Equal(g.payload, r.payload), "scan returns the records in write order, unchanged")
		}
		sym.Cover("read-all")
	}
	db2.Close()
	db3.Close()
}

// VerifC26_truncatedIndex: the process crashed while Save was writing the index, so the index
// file holds only a prefix (cut at any byte) of what Encode produces; reopening must either
// refuse the index or answer every lookup as the complete index would.
func VerifC26_truncatedIndex() {
	n := sym.Choice("keys", 1, 3)
	mi := newMapIndex()
	offs := map[Key]int64{}
	for i := 0; i < n; i++ {
		o := sym.I64("offset")
		offs[verifC26Keys[i]] = o
		if err := mi.SetOffset(verifC26Keys[i], o); err != nil {
			sym.Fail("SetOffset failed")
		}
	}
	buf := bytes.NewBuffer(nil)
	sym.Assert(mi.Encode(buf) == nil, "index encodes")
	raw := append([]byte{}, buf.Bytes()...)
	cut := sym.Choice("bytesWritten", 0, len(raw))

	fk := newFixedKeyArrayIndex(2)
	derr := fk.Decode(bytes.NewBuffer(raw[:cut]))
	if derr != nil {
		sym.Cover("truncated-index-refused")
		sym.Assert(cut < len(raw), "the complete index decodes")
		return
	}
	sym.Cover("index-accepted")
	probe := verifC26Probes[sym.Choice("probe", 0, len(verifC26Probes)-1)]
	want, present := offs[probe]
	sym.StepLimit(200000)
	got, err := fk.GetOffset(probe)
	if present {
		sym.Assert(err == nil && got == want, "after a crash during the index write, an accepted index returns the offset written for a present key")
	} else {
		sym.Assert(err == ErrKeyNotFound, "after a crash during the index write, an accepted index answers not-found for a key never written")
	}
}
