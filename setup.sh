#!/bin/sh
# Offline setup: build the symbolic executor and warm the build cache for native replays.
set -e
export GOFLAGS=-mod=mod GOPROXY=off GOSUMDB=off GOTOOLCHAIN=local GOWORK=off
mkdir -p /verif/bin /verif/evidence
(cd /verif/gosym && go build -o /verif/bin/gosym .)
# warm the native build (patched grocksdb + 0chain packages) used by replays
(cd /verif/hmod && go build . ) || echo "warning: native warm-up build failed (replays will report it)"
