#!/bin/sh
# usage: process_mut.sh <name e.g. C04_1> <ID> [tier]  — confirm a sub-agent's change in its scratch worktree, then run the check against it.
N="$1"; ID="$2"; TIER="${3:-quick}"
export GOFLAGS= GOPROXY=off GOSUMDB=off GOTOOLCHAIN=local
M=/tmp/mut/$N; WT=/tmp/wt/$N
echo "##### confirm $N"
sh /verif/tools/confirm_mut.sh $M $WT 2>&1 | tail -25
echo "##### check $ID against $N"
sh /verif/tools/try_mut.sh $M/patch.diff $ID $TIER
