#!/usr/bin/env python3
# Regenerates the table of registered checks in DESIGN.md (between the TABLE markers) from
# checks/*.json and seeded/*/meta.json.
import json,glob,os,re
rows=[]
seeded={}
for d in sorted(glob.glob('/verif/seeded/C*_*')):
    name=os.path.basename(d)
    try: m=json.load(open(d+'/meta.json'))
    except Exception: continue
    by=m.get('detected_by_check') or m.get('property')
    seeded.setdefault(by,[]).append(name)
    if m.get('property')!=by: seeded.setdefault(m['property'],[]).append(name+' (via '+by+')')
n=0
for f in sorted(glob.glob('/verif/checks/C*.json')):
    s=json.load(open(f)); n+=1
    hs=[]
    for h in s['harnesses']:
        nm=re.sub(r'^VerifC\d+_?','',h['func']) or h['func']
        hs.append(nm+('(t)' if h['tier']=='thorough' else ''))
    sd=sorted(set(seeded.get(s['id'],[])))
    rows.append('| %s | %s | %s |'%(s['id'],', '.join(hs),', '.join(sd) if sd else '–'))
props=[json.loads(l)['id'] for l in open('/verif/properties.jsonl')]
na=json.load(open('/verif/na.json'))
claimed=[os.path.basename(f)[:-5] for f in glob.glob('/verif/checks/C*.json')]
notbuilt=[p for p in props if p not in claimed and p not in na]
head='%d properties are claimed (MANIFEST.json); %d are not applicable (%s: A.6); %d are not built (%s; listed in MANIFEST `not_applicable` with that reason).\n\n'%(n,len(na),', '.join(sorted(na)),len(notbuilt),', '.join(notbuilt) or 'none')
table=head+'| id | harnesses ((t) = thorough tier only) | seeded changes detected |\n|---|---|---|\n'+'\n'.join(rows)+'\n'
p='/verif/DESIGN.md'; t=open(p).read()
b,e='<!-- TABLE:BEGIN -->\n','<!-- TABLE:END -->\n'
i,j=t.index(b)+len(b),t.index(e)
open(p,'w').write(t[:i]+table+t[j:])
print(n,'checks in table')
