#!/bin/sh
# regenerate every evidence file on the unchanged tree (quick tier), sequentially
cd /verif || exit 2
git -C /repo status --short | grep -q . && { echo "/repo is not clean"; exit 2; }
for f in checks/C*.json; do id=$(basename $f .json); s=$(date +%s); ./check $id --tier quick > /tmp/runall_$id.log 2>&1; rc=$?; echo "$id exit=$rc $(( $(date +%s) - s ))s $(tail -1 /tmp/runall_$id.log | cut -c1-120)"; done
