#!/usr/bin/env python3
# usage: mut_prompt.py <ID> <n> [hint]  -> creates worktree /tmp/wt/<ID>_<n>, dir /tmp/mut/<ID>_<n>/ and prints the
# prompt for a mutation sub-agent (property text only; nothing about the checks).
import json,sys,os,subprocess
pid,n=sys.argv[1],sys.argv[2]
hint=sys.argv[3] if len(sys.argv)>3 else ""
p=[json.loads(l) for l in open('/verif/properties.jsonl') if json.loads(l)['id']==pid][0]
name="%s_%s"%(pid,n); wt="/tmp/wt/"+name; md="/tmp/mut/"+name
os.makedirs(md,exist_ok=True)
if not os.path.isdir(wt):
    subprocess.check_call(["git","-C","/repo","worktree","add","--detach",wt,"HEAD"],stdout=subprocess.DEVNULL,stderr=subprocess.DEVNULL)
a=p.get('anchors',{})
anchors="  files: "+", ".join(a.get('files',[]))+"\n"+"\n".join("  - %s (%s)"%(m.get('name'),m.get('where')) for m in a.get('mechanism',[]))
prompt=f"""You are helping test a verification effort for the 0chain blockchain node (Go). Your job: introduce ONE realistic bug
into a scratch copy of the repository that breaks a stated semantic property, while the code still compiles and the existing
test suite still passes, and demonstrate it.

Scratch git worktree (yours alone, edit freely): {wt}   (Go module at {wt}/code/go/0chain.net)
Your output directory: {md}
Build/test recipe for this offline sandbox: read /tmp/mutenv/README.md first (the normal `go test` does not build most packages here).
Do NOT look at or use anything under /verif, and do not touch /repo itself.

The property (id {pid}): {p['title']}
Statement: {p['statement']}
Quantifier: {p['quantifier']['text']}
Code anchors (where the behaviour lives):
{anchors}

What I need from you:
1. A change to NON-TEST source files under {wt}/code/go/0chain.net that makes the property false for some input / history /
   schedule, but that needs something specific to manifest — a particular multi-step sequence, an unusual but valid input
   (boundary value, tie, empty list, large number), a particular interleaving, a fault at a particular point, or two sites that
   each look fine alone. NOT something ordinary use would expose at once, and not a crash on every call. It should look like a
   plausible slip a developer could make (wrong variable, off-by-one, dropped check, wrong order of two statements, stale copy,
   early return that skips a step...). Keep it small (a few lines). {hint}
2. The change must compile (`go build` of the affected packages via the recipe) and the existing tests must still pass: the
   packages that print `ok` on the unchanged tree under `cd {wt}/code/go/0chain.net && go test -vet=off -count=1 ./...` must
   still print `ok` (packages that fail to build there fail on the unchanged tree too; ignore them).
3. A demonstration: an in-package Go test file {md}/demo_test.go (function name starting with TestDemo) plus {md}/run_demo.sh
   (`run_demo.sh [worktree]`, default worktree {wt}; builds the overlay json itself as in the README; exits non-zero when the
   test fails). The demo must FAIL with your change applied and PASS on the unchanged tree (verify both with
   `git -C {wt} diff > {md}/patch.diff; git -C {wt} checkout -- .; <run>; git -C {wt} apply {md}/patch.diff` — NEVER use `git stash`: the
   stash is shared by all worktrees of this repository and other agents are working in sibling worktrees). The test should exercise the real
   functions (not a re-implementation) and assert the property's observable behaviour.
4. Write {md}/patch.diff (`git -C {wt} diff > {md}/patch.diff`, paths relative to the repo root so that `git apply` works from
   the root) and {md}/notes.md: what you changed, which clause of the property it breaks, exactly what is needed for it to
   manifest, and what you ran with the observed results. Leave the change applied in the worktree.

Report back briefly: the file/function changed, the trigger needed, and the pass/fail results you observed.
"""
open(md+"/prompt.txt","w").write(prompt)
print(md+"/prompt.txt")
