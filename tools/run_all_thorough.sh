#!/bin/sh
# run every check's thorough tier sequentially (each under a time limit), log exit codes
# usage: run_all_thorough.sh [limit-seconds] [first-id]
cd /verif || exit 2
LIM=${1:-5400}; FROM=${2:-C00}
git -C /repo status --short | grep -q . && { echo "/repo is not clean"; exit 2; }
for f in checks/C*.json; do id=$(basename $f .json); [ "$id" \< "$FROM" ] && continue; s=$(date +%s); timeout $LIM ./check $id --tier thorough > /tmp/thor_$id.log 2>&1; rc=$?; echo "$id exit=$rc $(( $(date +%s) - s ))s $(tail -1 /tmp/thor_$id.log | cut -c1-140)"; done
