#!/bin/sh
# usage: confirm_mut.sh <mutdir> <worktree>  — re-confirm a sub-agent's seeded change:
#  pinned tests pass with the change, demo fails with it and passes without it.
M="$1"; WT="$2"
cd "$WT" || exit 2
git -C "$WT" checkout -- . ; git -C "$WT" apply "$M/patch.diff" || { echo "patch does not apply to worktree"; exit 2; }
echo "== pinned suite with change"; (cd "$WT/code/go/0chain.net" && go test -vet=off -count=1 -timeout 25m ./... 2>&1 | grep -E "^(ok|FAIL|---)" | grep -v "build failed\|setup failed" | sort | uniq -c | sort -rn | head -20)
echo "== demo with change (expect failure)"; (bash "$M/run_demo.sh" > "$M/confirm_with.log" 2>&1; echo "exit=$?")
git -C "$WT" checkout -- .
echo "== demo without change (expect pass)"; (bash "$M/run_demo.sh" > "$M/confirm_without.log" 2>&1; echo "exit=$?")
git -C "$WT" apply "$M/patch.diff"
