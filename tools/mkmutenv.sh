#!/bin/sh
# Recreates /tmp/mutenv (the build environment handed to mutation sub-agents; contains nothing
# about the checks): patched grocksdb copy, mkenv.sh (per-worktree harness module), README.
set -e
E=/tmp/mutenv
mkdir -p $E /tmp/wt /tmp/mut
rm -rf $E/grocksdb; cp -r /verif/third_party/grocksdb $E/grocksdb
sed -e 's#/verif/third_party/grocksdb#/tmp/mutenv/grocksdb#' /verif/hmod/go.mod > $E/go.mod.tmpl
cp /verif/hmod/go.sum $E/go.sum
cat > $E/mkenv.sh <<'EOF'
#!/bin/sh
# usage: mkenv.sh <worktree>   -> creates <worktree>.hmod, a module from which the worktree's
# 0chain.net packages build and test:  cd <worktree>.hmod && go test -overlay ov.json 0chain.net/<pkg>
WT="$1"; H="$WT.hmod"
mkdir -p "$H"
sed -e "s#=> /repo/code/go/0chain.net#=> $WT/code/go/0chain.net#" /tmp/mutenv/go.mod.tmpl > "$H/go.mod"
cp /tmp/mutenv/go.sum "$H/go.sum"
cat > "$H/deps.go" <<EOG
package verifh

import (
	_ "0chain.net/chaincore/chain"
	_ "0chain.net/miner"
	_ "0chain.net/sharder"
	_ "0chain.net/smartcontract/storagesc"
	_ "0chain.net/smartcontract/minersc"
	_ "0chain.net/smartcontract/zcnsc"
	_ "0chain.net/smartcontract/faucetsc"
	_ "0chain.net/smartcontract/vestingsc"
	_ "0chain.net/smartcontract/multisigsc"
)
EOG
echo "$H"
EOF
chmod +x $E/mkenv.sh
cat > $E/README.md <<'EOF'
# Building and testing 0chain in this sandbox (no network)

The repository's own `go test ./...` only compiles 11 leaf packages: everything that imports
RocksDB (chaincore/chain, round, block, miner, sharder, every smartcontract/*) fails in cgo
inside /repo-style trees, and many packages' own *_test.go files import mocks that are not
checked in. Use this recipe instead:

    export GOFLAGS=-mod=mod GOPROXY=off GOSUMDB=off GOTOOLCHAIN=local GOWORK=off
    /tmp/mutenv/mkenv.sh <your worktree>          # creates <worktree>.hmod (once)
    cd <worktree>.hmod
    go build 0chain.net/smartcontract/storagesc   # any package of the worktree builds from here

To run an in-package test you wrote (file demo_test.go kept OUTSIDE the worktree, e.g. in your
/tmp/mut/<name>/ directory) use an overlay that (a) hides the package's own *_test.go files
(they need missing mocks) and (b) injects yours:

    { "Replace": { "<wt>/code/go/0chain.net/<pkg>/existing_test.go": "",
                   "<wt>/code/go/0chain.net/<pkg>/zz_demo_test.go": "/tmp/mut/<name>/demo_test.go" } }
    go test -overlay ov.json -vet=off -count=1 -run TestDemo -v 0chain.net/<pkg>

logging.Logger / logging.N2n are nil until set: put
`func init(){ logging.Logger = zap.NewNop(); logging.N2n = zap.NewNop() }` in your test
(github.com/0chain/common/core/logging, go.uber.org/zap).
A real in-memory state context: util.NewMerklePatriciaTrie(util.NewLevelNodeDB(util.NewMemoryNodeDB(),
util.NewMemoryNodeDB(), false), 1, nil, txnCache) with
`_, txnCache := statecache.NewBlockTxnCaches(statecache.NewStateCache(), statecache.Block{Round:1,Hash:"h1",PrevHash:"h0"})`
and cstate.NewStateContext(block, trie, txn, nil,nil,nil,nil,nil,nil,nil,nil, nil) — see
chaincore/chain/state/state_context.go for the exact signature.

The pinned test suite ("existing tests") is, from <worktree>/code/go/0chain.net:
    go test -vet=off -count=1 -timeout 25m ./...      (with GOFLAGS unset / default; GOWORK as is)
Packages that fail to BUILD there fail on the unchanged tree too; only packages that print `ok`
on the unchanged tree count, and they must still print `ok` with your change.
EOF
echo ok $E
