#!/bin/sh
# usage: try_mut.sh <patch.diff> <ID> [tier]  — apply a seeded change to /repo, run the check, undo.
# The evidence file and replay vectors of the clean tree are saved and restored, so that what is
# committed always describes a run on the unchanged tree.
P="$1"; ID="$2"; TIER="${3:-quick}"
cd /repo || exit 2
git -C /repo apply "$P" || { echo "patch does not apply"; exit 2; }
S=$(mktemp -d /tmp/trymut.XXXXXX)
[ -f /verif/evidence/$ID.json ] && cp /verif/evidence/$ID.json $S/evidence.json
[ -d /verif/replays/$ID ] && cp -r /verif/replays/$ID $S/replays
cd /verif && ./check "$ID" --tier "$TIER" > /tmp/try_mut_$ID.log 2>&1; rc=$?
git -C /repo checkout -- .
[ -f $S/evidence.json ] && cp $S/evidence.json /verif/evidence/$ID.json
rm -rf /verif/replays/$ID; [ -d $S/replays ] && cp -r $S/replays /verif/replays/$ID
rm -rf $S
echo "check exit=$rc"; grep -E "^(VIOLATION|KNOWN-FINDING|INCONCLUSIVE|SPURIOUS|NOTE)|VIOLATED" /tmp/try_mut_$ID.log | cut -c1-400 | head -20
