#!/bin/sh
# usage: try_mut.sh <patch.diff> <ID> [tier]  — apply a seeded change to /repo, run the check, undo.
P="$1"; ID="$2"; TIER="${3:-quick}"
cd /repo || exit 2
git -C /repo apply "$P" || { echo "patch does not apply"; exit 2; }
cd /verif && ./check "$ID" --tier "$TIER" > /tmp/try_mut_$ID.log 2>&1; rc=$?
git -C /repo checkout -- . 
echo "check exit=$rc"; grep -E "^(VIOLATION|KNOWN-FINDING|INCONCLUSIVE|SPURIOUS|NOTE)|VIOLATED" /tmp/try_mut_$ID.log | head -20
