#!/bin/sh
# usage: keep_mut.sh <mutdir> <ID> <name> "<needs>" "<detected-by / result>"
M="$1"; ID="$2"; NAME="$3"; NEEDS="$4"; RES="$5"
D=/verif/seeded/$NAME; mkdir -p "$D"
cp "$M/patch.diff" "$D/patch.diff"
for f in demo_test.go run_demo.sh notes.md; do [ -f "$M/$f" ] && cp "$M/$f" "$D/$f"; done
ls "$M" | grep -E "\.go$|\.sh$" | while read f; do cp "$M/$f" "$D/$f"; done
python3 - "$D" "$ID" "$NEEDS" "$RES" <<'PY'
import json,sys
d,i,needs,res=sys.argv[1:5]
json.dump({"property":i,"breaks":i,"needs_to_manifest":needs,"confirmed":"pinned suite passes with the change; demo fails with it and passes without it (tools/confirm_mut.sh in a scratch worktree)","check_result":res,"ran":["tools/confirm_mut.sh <mutdir> <worktree>","tools/try_mut.sh patch.diff "+i]},open(d+"/meta.json","w"),indent=1)
PY
echo kept $D
