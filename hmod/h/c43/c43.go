// Package c43: harness for property C43 (hard-fork activation switches exactly at the fork round).
package c43

import (
	"errors"
	"math"

	"0chain.net/chaincore/block"
	cstate "0chain.net/chaincore/chain/state"
	"0chain.net/zzverif/sym"
	"0chain.net/zzverif/symstate"
	"github.com/0chain/common/core/util"
)

// VerifC43_activation: arbitrary recorded round (or none) and arbitrary block round.
func VerifC43_activation() {
	b := &block.Block{}
	b.Round = sym.I64("blockRound")
	// block rounds are non-negative and below the "never" sentinel math.MaxInt64
	sym.Assume(b.Round >= 0 && b.Round < math.MaxInt64)
	balances, _ := symstate.Balances(b, nil)
	recorded := sym.Bool("recorded")
	forkRound := sym.I64("forkRound")
	if recorded {
		f := cstate.NewHardFork("apollo", forkRound)
		if _, err := balances.InsertTrieNode(f.GetKey(), f); err != nil {
			sym.Fail("insert hard fork")
		}
		// an unrelated fork must not influence the answer
		g := cstate.NewHardFork("other", sym.I64("otherRound"))
		if _, err := balances.InsertTrieNode(g.GetKey(), g); err != nil {
			sym.Fail("insert other fork")
		}
	}
	ranBefore, ranAfter := 0, 0
	sentinel := errors.New("sentinel")
	err := cstate.WithActivation(balances, "apollo",
		func() error { ranBefore++; return nil },
		func() error { ranAfter++; return sentinel })
	sym.Assert(ranBefore+ranAfter == 1, "exactly one branch runs")
	if recorded {
		if b.Round < forkRound {
			sym.Cover("recorded-before")
			sym.Assert(ranBefore == 1 && err == nil, "pre-fork rules before the recorded round")
		} else {
			sym.Cover("recorded-at-or-after")
			sym.Assert(ranAfter == 1 && err == sentinel, "post-fork rules from the recorded round on (branch error propagated)")
		}
		r, e := cstate.GetRoundByName(balances, "apollo")
		sym.Assert(e == nil && r == forkRound, "recorded round reads back")
	} else {
		sym.Cover("not-recorded")
		sym.Assert(ranBefore == 1 && err == nil, "a fork that was never recorded keeps the pre-fork rules")
		_, e := cstate.GetRoundByName(balances, "apollo")
		sym.Assert(errors.Is(e, util.ErrValueNotPresent), "unrecorded fork reports value-not-present")
	}
}

// VerifC43_twoStates: the answer depends on the state the call is given, not on what an earlier
// call in the same process saw: the fork is looked up against a first state (recorded at any
// round) and then against a second, independent state where it is recorded at another round
// or not at all (a competing branch, a rollback, the query state next to the block state).
func VerifC43_twoStates() {
	b1 := &block.Block{}
	b1.Round = sym.I64("blockRound1")
	b2 := &block.Block{}
	b2.Round = sym.I64("blockRound2")
	sym.Assume(b1.Round >= 0 && b1.Round < math.MaxInt64)
	sym.Assume(b2.Round >= 0 && b2.Round < math.MaxInt64)
	s1, _ := symstate.Balances(b1, nil)
	s2, _ := symstate.Balances(b2, nil)
	round1 := sym.I64("forkRound1")
	f1 := cstate.NewHardFork("apollo", round1)
	if _, err := s1.InsertTrieNode(f1.GetKey(), f1); err != nil {
		sym.Fail("insert hard fork into the first state")
	}
	recorded2 := sym.Bool("recorded2")
	round2 := sym.I64("forkRound2")
	if recorded2 {
		f2 := cstate.NewHardFork("apollo", round2)
		if _, err := s2.InsertTrieNode(f2.GetKey(), f2); err != nil {
			sym.Fail("insert hard fork into the second state")
		}
	}
	before1, after1 := 0, 0
	_ = cstate.WithActivation(s1, "apollo",
		func() error { before1++; return nil },
		func() error { after1++; return nil })
	sym.Assert((b1.Round < round1) == (before1 == 1) && before1+after1 == 1, "first state: branch chosen by its own recorded round")
	before2, after2 := 0, 0
	_ = cstate.WithActivation(s2, "apollo",
		func() error { before2++; return nil },
		func() error { after2++; return nil })
	sym.Assert(before2+after2 == 1, "second state: exactly one branch runs")
	if recorded2 {
		sym.Cover("second-recorded")
		sym.Assert((b2.Round < round2) == (before2 == 1), "second state: branch chosen by the round recorded in that state, not by an earlier lookup")
		r, e := cstate.GetRoundByName(s2, "apollo")
		sym.Assert(e == nil && r == round2, "second state: its own recorded round reads back")
	} else {
		sym.Cover("second-not-recorded")
		sym.Assert(before2 == 1, "second state: a fork never recorded there keeps the pre-fork rules")
	}
}
