// Package c43: harness for property C43 (hard-fork activation switches exactly at the fork round).
package c43

import (
	"errors"
	"math"

	"0chain.net/chaincore/block"
	cstate "0chain.net/chaincore/chain/state"
	"0chain.net/zzverif/sym"
	"0chain.net/zzverif/symstate"
	"github.com/0chain/common/core/util"
)

// VerifC43_activation: arbitrary recorded round (or none) and arbitrary block round.
func VerifC43_activation() {
	b := &block.Block{}
	b.Round = sym.I64("blockRound")
	// block rounds are non-negative and below the "never" sentinel math.MaxInt64
	sym.Assume(b.Round >= 0 && b.Round < math.MaxInt64)
	balances, _ := symstate.Balances(b, nil)
	recorded := sym.Bool("recorded")
	forkRound := sym.I64("forkRound")
	if recorded {
		f := cstate.NewHardFork("apollo", forkRound)
		if _, err := balances.InsertTrieNode(f.GetKey(), f); err != nil {
			sym.Fail("insert hard fork")
		}
		// an unrelated fork must not influence the answer
		g := cstate.NewHardFork("other", sym.I64("otherRound"))
		if _, err := balances.InsertTrieNode(g.GetKey(), g); err != nil {
			sym.Fail("insert other fork")
		}
	}
	ranBefore, ranAfter := 0, 0
	sentinel := errors.New("sentinel")
	err := cstate.WithActivation(balances, "apollo",
		func() error { ranBefore++; return nil },
		func() error { ranAfter++; return sentinel })
	sym.Assert(ranBefore+ranAfter == 1, "exactly one branch runs")
	if recorded {
		if b.Round < forkRound {
			sym.Cover("recorded-before")
			sym.Assert(ranBefore == 1 && err == nil, "pre-fork rules before the recorded round")
		} else {
			sym.Cover("recorded-at-or-after")
			sym.Assert(ranAfter == 1 && err == sentinel, "post-fork rules from the recorded round on (branch error propagated)")
		}
		r, e := cstate.GetRoundByName(balances, "apollo")
		sym.Assert(e == nil && r == forkRound, "recorded round reads back")
	} else {
		sym.Cover("not-recorded")
		sym.Assert(ranBefore == 1 && err == nil, "a fork that was never recorded keeps the pre-fork rules")
		_, e := cstate.GetRoundByName(balances, "apollo")
		sym.Assert(errors.Is(e, util.ErrValueNotPresent), "unrecorded fork reports value-not-present")
	}
}
