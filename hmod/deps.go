package verifh

import (
	_ "0chain.net/chaincore/chain"
	_ "0chain.net/miner"
	_ "0chain.net/sharder"
	_ "0chain.net/sharder/blockdb"
	_ "0chain.net/smartcontract/faucetsc"
	_ "0chain.net/smartcontract/minersc"
	_ "0chain.net/smartcontract/multisigsc"
	_ "0chain.net/smartcontract/storagesc"
	_ "0chain.net/smartcontract/vestingsc"
	_ "0chain.net/smartcontract/zcnsc"
	_ "0chain.net/core/util/orderbuffer"
)
